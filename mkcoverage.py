#!/usr/bin/env python3
# regenerates the per-property coverage table in DESIGN.md (between the coverage markers) from evidence/*.json
import json, glob
rows = ["| property | tier of the last run | part (deviation bound) | executions | distinct outcomes | exhaustive | wall |", "|---|---|---|---|---|---|---|"]
for f in sorted(glob.glob('/verif/evidence/C*.json')):
    e = json.load(open(f))
    for p in e['coverage']['parts']:
        rows.append("| %s | %s | %s (%d) | %d | %d | %s | %.0f s |" % (e['property_id'], e['tier'], p['name'], p['max_deviations'], p['evaluations'], len(p.get('outcomes') or {}), 'yes' if p['exhaustive'] else 'no (budget)', p['wall_s']))
p = '/verif/DESIGN.md'; s = open(p).read()
b, e_ = '<!-- coverage:begin -->', '<!-- coverage:end -->'
tab = b + '\n' + '\n'.join(rows) + '\n' + e_
if b in s: s = s[:s.index(b)] + tab + s[s.index(e_) + len(e_):]
else: raise SystemExit("no coverage markers in DESIGN.md")
open(p, 'w').write(s)
print(len(rows) - 2, 'parts')
