#!/usr/bin/env python3
# usage: mkseedprompts.py <round dir, e.g. /tmp/seed8> <first index, e.g. 15>
# Writes one self-contained prompt per property for a fresh sub-agent (property text, its own scratch worktree of /repo,
# one-line summaries of the changes earlier agents made for that property - nothing about the checks) and creates the worktrees.
import json, glob, os, re, subprocess, sys
base, first = sys.argv[1], int(sys.argv[2])
a, b = f"m{first}", f"m{first+1}"
os.makedirs(base + '/prompt', exist_ok=True)
for p in [json.loads(l) for l in open('/verif/properties.jsonl')]:
    id = p['id']
    prev = []
    for d in sorted(glob.glob(f'/verif/seeded/{id}-m*'), key=lambda s: int(s.split('-m')[1])):
        try: m = json.load(open(d + '/meta.json'))
        except Exception: continue
        prev.append('- ' + re.sub(r'\s+', ' ', m.get('summary', '')).split('. ')[0][:220])
    wt, out = f'{base}/wt/{id}', f'{base}/out/{id}'
    if not os.path.isdir(wt):
        os.makedirs(base + '/wt', exist_ok=True)
        subprocess.check_call(['git', '-C', '/repo', 'worktree', 'add', '-q', '--detach', wt, 'HEAD'])
    os.makedirs(out, exist_ok=True)
    txt = f"""You are helping to evaluate a verification effort for the Go XMPP library mellium.im/xmpp. Your job is to play the part of a developer who introduces a subtle regression.

You have your own scratch git worktree of the library at {wt} (Go module mellium.im/xmpp). Work ONLY inside that directory and {out}. Do not read or write /repo, /verif or any other directory outside those two (the Go toolchain's own directories excepted). Every shell call that runs go must start with:
  export GOFLAGS=-mod=mod GOPROXY=off GOSUMDB=off GOTOOLCHAIN=local
(there is no network). The library's test suite is run with:  cd {wt} && go test -vet=off -count=1 ./...   (about 15-60 s; the machine is busy, allow more; the root-package test TestResponseToTimedOutIQ is known to hang occasionally on the unmodified tree under load - if only that one times out, run the suite again).

THE PROPERTY (id {id}) — "{p['title']}"

Statement: {p['statement']}

Quantifier (what it must hold for): {p['quantifier']}

Why ordinary tests cannot settle it: {p['why_tests_cant']}

Code anchors: {json.dumps(p.get('anchors'))}

YOUR TASK: produce TWO independent changes to the library (call them {a} and {b}), each of which
  (a) compiles, and the library's existing test suite (unedited) still passes with it (run the whole suite and make sure);
  (b) makes the library violate the property above — a real behavioural violation of the statement, for some input / schedule / fault / history inside the quantifier;
  (c) looks like a plausible change a developer might make (a refactoring, an optimisation, a 'simplification', a well-meant bug fix, an added fast path, a moved statement) — not sabotage such as `if x == "magic"`;
  (d) needs something SPECIFIC to manifest: a particular interleaving of goroutines, a fault or cancellation at a particular point, a multi-step sequence of operations (state left over from an earlier operation), an unusual but legal input shape or size (buffer boundary, rare code point, unusual namespace/prefix, an attribute order, an empty value), or two cooperating sites that each look fine alone. Not something ordinary use would expose at once, and not something the existing tests exercise.
  (e) the two changes should break DIFFERENT clauses of the statement or different parts of the quantifier, in different code if possible.

Changes of this kind have been made before for this property; do NOT repeat these, choose other code paths, other clauses, other dimensions of the quantifier (read the statement and the quantifier again and look for the parts none of these touch):
{chr(10).join(prev)}

For each change, also write a demonstration: a Go test file (package of your choice inside the library, external test package preferred where possible) that FAILS with the change applied and PASSES on the unchanged worktree. The demonstration must be deterministic (no dependence on real-time races: if an interleaving is needed, force it with channels, custom io.Reader/Writer/net.Conn implementations, contexts etc.), must finish in under 60 s, and must not hang without a timeout of its own.

DELIVERABLES, for N in {first}, {first+1}, in directory {out}/mN/ :
  patch.diff     — `git diff` of the library change only (no test files), made from the worktree root, applicable with `git apply` to a clean checkout;
  demo_test.go   — the demonstration; its FIRST line must be exactly a comment of the form
                     // place at: <path relative to the module root where the file must be copied, ending in _test.go>
                   e.g.  // place at: muc/zz_seed_{id.lower()}{a}_demo_test.go
  meta.json      — a JSON object with string keys: "property" ("{id}"), "summary" (what the change does and where, 2-4 sentences; first sentence a one-line description), "needs" (exactly what is needed for the violation to manifest), "clause" (which clause of the statement / part of the quantifier it breaks), and booleans "suite_passes_with_change", "demo_fails_with_change", "demo_passes_without_change" (all three must be true, verified by you by actually running them).

PROCEDURE: read the code behind the property; pick a change; apply it in the worktree; run the full suite; write the demo; run it with the change (must fail) ; save `git diff` (library files only) to patch.diff; `git stash` or `git checkout -- .` the library change (keep the demo file) and run the demo again (must pass); then clean the worktree completely (`git checkout -- . && git clean -fdq`) before starting the second change. At the end the worktree must be clean. If a candidate change makes an existing test fail, pick another — do not edit existing tests.

Finish with a 5-line report: for each of {a}/{b} the one-line summary and the three verification results.
"""
    open(f'{base}/prompt/{id}.txt', 'w').write(txt)
print('prompts in', base + '/prompt')
