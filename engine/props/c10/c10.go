// Package c10: closing is idempotent, final and observable.
package c10

import (
	"context"
	"encoding/xml"
	"errors"
	"fmt"
	"strings"
	"time"

	"mellium.im/xmlstream"
	"mellium.im/xmpp"
	"mellium.im/xmpp/stanza"
	"mellium.im/xmpp/stream"

	"verif/drv"
	"verif/nd"
	"verif/vs"
	"verif/vsess"
)

var peerModes = []string{"peer-closes-first", "peer-closes-after-us", "peer-stream-error", "peer-stream-error-with-long-text", "silent-until-close-deadline", "peer-closes-after-stanza-for-failing-handler", "close-deadline-extended-then-peer-closes-after-us", "close-deadline-set-while-serving-then-stanza-and-peer-closes"}
var transmitOps = []string{"Send", "SendElement", "Encode", "EncodeElement", "SendIQ-result", "SendMessage-error", "SendPresence-error", "TokenWriter", "EncodeIQ-result", "TokenWriter-opened-early"}

type msgStruct struct {
	XMLName xml.Name `xml:"message"`
	ID      string   `xml:"id,attr"`
	Body    string   `xml:"body"`
}

type iqStruct struct {
	stanza.IQ
	Payload struct{} `xml:"urn:t q"`
}

// transmit performs one transmit call whose element carries the given id.
func transmit(s *xmpp.Session, op int, id string, early xmlstream.TokenWriteFlushCloser) error {
	ctx := context.Background()
	body := func() xml.TokenReader {
		return xmlstream.Wrap(xmlstream.Token(xml.CharData("x")), xml.StartElement{Name: xml.Name{Local: "body"}})
	}
	msgStart := xml.StartElement{Name: xml.Name{Local: "message"}, Attr: []xml.Attr{{Name: xml.Name{Local: "id"}, Value: id}}}
	switch transmitOps[op] {
	case "Send":
		return s.Send(ctx, xmlstream.Wrap(body(), msgStart))
	case "SendElement":
		return s.SendElement(ctx, body(), msgStart)
	case "Encode":
		return s.Encode(ctx, msgStruct{ID: id, Body: "x"})
	case "EncodeElement":
		return s.EncodeElement(ctx, msgStruct{ID: id, Body: "x"}, msgStart)
	case "SendIQ-result":
		_, err := s.SendIQ(ctx, stanza.IQ{ID: id, Type: stanza.ResultIQ}.Wrap(nil))
		return err
	case "SendMessage-error":
		_, err := s.SendMessage(ctx, stanza.Message{ID: id, Type: stanza.ErrorMessage}.Wrap(nil))
		return err
	case "SendPresence-error":
		_, err := s.SendPresence(ctx, stanza.Presence{ID: id, Type: stanza.ErrorPresence}.Wrap(nil))
		return err
	case "TokenWriter", "TokenWriter-opened-early":
		w := early
		if w == nil {
			w = s.TokenWriter()
		}
		err := w.EncodeToken(msgStart)
		if err == nil {
			err = w.EncodeToken(msgStart.End())
		}
		cerr := w.Close()
		if err == nil {
			err = cerr
		}
		return err
	case "EncodeIQ-result":
		_, err := s.EncodeIQ(ctx, iqStruct{IQ: stanza.IQ{ID: id, Type: stanza.ResultIQ}})
		return err
	}
	return nil
}

func body(c *nd.Ctx) nd.Result {
	peer := peerModes[c.Choose(len(peerModes), "peer")]
	closers := []int{1, 2, 0}[c.Choose(3, "closers")]
	op := c.Choose(len(transmitOps), "transmit-op")
	handlerMode := c.Choose(4, "handler") // 0 nothing, 1 replies, 2 returns error, 3 returns a stream error whose text is longer than the encoder's buffer
	longText := strings.Repeat("0123456789", 500)
	tagWriteFails := c.Choose(2, "first-write-of-the-closing-tag-fails") == 1
	if tagWriteFails && peer != "peer-closes-first" && peer != "peer-stream-error" && peer != "peer-stream-error-with-long-text" {
		// with the closing tag refused by the connection only peers that end the
		// stream by themselves let Serve return
		return nd.Result{Skip: true}
	}
	if closers == 0 {
		// the application never calls Close: Serve's own shutdown is the only
		// closer, so only histories in which Serve ends by itself are meaningful
		switch {
		case peer == "peer-closes-after-us" || peer == "close-deadline-extended-then-peer-closes-after-us" || peer == "close-deadline-set-while-serving-then-stanza-and-peer-closes":
			return nd.Result{Skip: true}
		case peer == "peer-closes-after-stanza-for-failing-handler" && handlerMode < 2:
			return nd.Result{Skip: true}
		}
	}
	ns := stanza.NSClient
	type txOut struct {
		done         bool
		err          error
		afterClose   bool // the call started after some Close call had returned
		beforeClosed bool
	}
	var tx [2]txOut
	closeErrs := make([]error, closers)
	closeReturned := 0
	var env *vsess.Env
	var setupErr error
	var finalState xmpp.SessionState
	var readAfter, readAfterAgain error
	var deadlineErr error
	tagWrites := 0
	handlerCalls := 0
	handlerErr := errors.New("handler failed")
	if handlerMode == 3 {
		handlerErr = stream.Error{Err: "policy-violation", Text: []struct{ Lang, Value string }{{Lang: "en", Value: longText}}}
	}
	out := vs.Run(c, vs.Options{Horizon: 20000}, func() {
		env, setupErr = vsess.New(ns, 0)
		if setupErr != nil {
			return
		}
		var early xmlstream.TokenWriteFlushCloser
		switch peer {
		case "peer-closes-first":
			env.PeerWrite(`<message id='in1'><body>hi</body></message></stream:stream>`)
		case "peer-stream-error":
			env.PeerWrite(`<stream:error><host-gone xmlns='urn:ietf:params:xml:ns:xmpp-streams'/></stream:error></stream:stream>`)
		case "peer-stream-error-with-long-text":
			env.PeerWrite(`<stream:error><host-gone xmlns='urn:ietf:params:xml:ns:xmpp-streams'/><text xmlns='urn:ietf:params:xml:ns:xmpp-streams' xml:lang='en'>` + longText + `</text></stream:error></stream:stream>`)
		case "peer-closes-after-stanza-for-failing-handler":
			env.PeerWrite(`<message id='in1'><body>hi</body></message>`)
		}
		if peer == "close-deadline-extended-then-peer-closes-after-us" {
			// an expired close deadline is replaced by a later one before the
			// serve loop runs: the later one is the deadline in force
			if err := env.S.SetCloseDeadline(time.Unix(1, 0)); err != nil {
				deadlineErr = err
			}
			if err := env.S.SetCloseDeadline(time.Unix(1<<40, 0)); err != nil {
				deadlineErr = err
			}
		}
		if tagWriteFails {
			env.Lib.FailWriteIf = func(p []byte) bool {
				if !strings.Contains(string(p), "</stream:stream>") {
					return false
				}
				tagWrites++
				return tagWrites == 1
			}
		} else {
			env.Lib.FailWriteIf = func(p []byte) bool {
				if strings.Contains(string(p), "</stream:stream>") {
					tagWrites++
				}
				return false
			}
		}
		closedByPeer := false
		var seen strings.Builder
		env.Lib.OnWrite = func(p []byte) {
			seen.Write(p)
			if !closedByPeer && strings.Contains(seen.String(), "</stream:stream>") && peer == "close-deadline-set-while-serving-then-stanza-and-peer-closes" {
				closedByPeer = true
				env.PeerWrite(`<message id='in2'><body>one more</body></message></stream:stream>`)
			}
			if !closedByPeer && strings.Contains(seen.String(), "</stream:stream>") && (peer == "peer-closes-after-us" || peer == "peer-closes-after-stanza-for-failing-handler" || peer == "close-deadline-extended-then-peer-closes-after-us") {
				closedByPeer = true
				env.PeerWrite(`</stream:stream>`)
			}
		}
		env.Serve(xmpp.HandlerFunc(func(t xmlstream.TokenReadEncoder, start *xml.StartElement) error {
			handlerCalls++
			switch handlerMode {
			case 1:
				st := xml.StartElement{Name: xml.Name{Local: "message"}, Attr: []xml.Attr{{Name: xml.Name{Local: "id"}, Value: "reply1"}}}
				if err := t.EncodeToken(st); err != nil {
					return nil
				}
				t.EncodeToken(st.End())
			case 2, 3:
				return handlerErr
			}
			return nil
		}))
		if transmitOps[op] == "TokenWriter-opened-early" {
			// the writer is opened (and holds the output lock) before anything closes
			early = env.S.TokenWriter()
		}
		for i := 0; i < closers; i++ {
			i := i
			vs.GoNamed(fmt.Sprintf("closer%d", i+1), false, func() {
				closeErrs[i] = env.S.Close()
				vs.Atomically(func() { closeReturned++ })
			})
		}
		if peer == "silent-until-close-deadline" {
			vs.GoNamed("deadline", false, func() {
				deadlineErr = env.S.SetCloseDeadline(time.Unix(1, 0))
			})
		}
		if peer == "close-deadline-set-while-serving-then-stanza-and-peer-closes" {
			// the documented shutdown: a (distant) close deadline, then Close, while
			// Serve is running; the peer still sends a stanza before it closes
			vs.GoNamed("deadline", false, func() {
				deadlineErr = env.S.SetCloseDeadline(time.Unix(1<<40, 0))
			})
		}
		// transmit twice: once racing with the closers, once after everything
		tx[0].afterClose = closeReturned > 0
		tx[0].err = transmit(env.S, op, "tx1", early)
		tx[0].done = true
		vsess.Wait("closers-done", func() bool { return closeReturned == closers })
		if closers == 0 {
			// nobody called Close: the second transmit follows Serve's return
			vsess.Wait("serve-done", func() bool { return env.ServeDone })
		}
		tx[1].afterClose = true
		op2 := op
		if transmitOps[op] == "TokenWriter-opened-early" {
			op2 = 7
		}
		tx[1].err = transmit(env.S, op2, "tx2", nil)
		tx[1].done = true
		vsess.Wait("serve-done", func() bool { return env.ServeDone })
		finalState = env.S.State()
		r := env.S.TokenReader()
		_, readAfter = r.Token()
		r.Close()
		// and again: every later read fails the same way (and does not hang)
		for i := 0; i < 2; i++ {
			r2 := env.S.TokenReader()
			_, err := r2.Token()
			r2.Close()
			if !errors.Is(err, xmpp.ErrInputStreamClosed) && readAfterAgain == nil {
				readAfterAgain = fmt.Errorf("read %d after close: %v", i+2, err)
			}
		}
	})
	if setupErr != nil {
		panic("c10: setup: " + setupErr.Error())
	}
	desc := fmt.Sprintf("peer=%s closers=%d transmit=%s handler=%d closing-tag-write-fails=%v", peer, closers, transmitOps[op], handlerMode, tagWriteFails)
	c.Note("%s outcome=%s", desc, out.Kind)
	for _, t := range out.Trace {
		c.Note("  %s", t)
	}
	ec := func(err error) string {
		switch {
		case err == nil:
			return "nil"
		case errors.Is(err, xmpp.ErrOutputStreamClosed):
			return "output-closed"
		}
		return "error"
	}
	serveErr := error(nil)
	if env != nil {
		serveErr = env.ServeErr
	}
	res := nd.Result{Outcome: fmt.Sprintf("%s serve=%s tx1=%s(after-close=%v) tx2=%s", out.Kind, ec(serveErr), ec(tx[0].err), tx[0].afterClose, ec(tx[1].err)), NonTrivial: desc + fmt.Sprint(c.Vector())}
	wire := ""
	if env != nil {
		wire = string(env.Lib.Written())
	}
	fail := func(sig, f string, a ...any) nd.Result {
		res.Violation = &nd.Violation{Sig: sig, Msg: desc + fmt.Sprintf(" [wire=%q tx=%+v close-errors=%v serve-err=%v]: ", wire, tx, closeErrs, env.ServeErr) + fmt.Sprintf(f, a...)}
		return res
	}
	switch out.Kind {
	case "panic":
		return fail("close:"+out.Panic.Sig(), "panic in thread %s: %s\n%s", out.PanicIn, out.Panic.Value, out.Panic.Stack)
	case "deadlock":
		return fail("close:deadlock", "nothing can run; blocked threads: %v", out.Blocked)
	case "horizon":
		return fail("close:does-not-terminate", "blocked: %v", out.Blocked)
	}
	// the closing tag exactly once, nothing after it
	n := strings.Count(wire, "</stream:stream>")
	if tagWriteFails {
		// the one write of the closing tag failed: it is not on the wire, and it
		// is not attempted again (closing is final)
		if n != 0 || tagWrites != 1 {
			return fail("wire:closing-tag-rewritten-after-failed-write", "the connection refused the closing tag; it was written %d times in all and is on the wire %d times", tagWrites, n)
		}
	} else if n != 1 || tagWrites != 1 {
		return fail("wire:closing-tag-count", "the closing tag was written %d times (on the wire: %d)", tagWrites, n)
	}
	if i := strings.Index(wire, "</stream:stream>"); i >= 0 && wire[i+len("</stream:stream>"):] != "" {
		return fail("wire:bytes-after-closing-tag:"+opAfter(wire[i:]), "%q follows the closing tag", wire[i+len("</stream:stream>"):])
	}
	// transmit calls that started after a Close had returned fail and write nothing
	for i, t := range tx {
		id := fmt.Sprintf("tx%d", i+1)
		onWire := strings.Contains(wire, `id="`+id+`"`)
		if t.afterClose {
			if !errors.Is(t.err, xmpp.ErrOutputStreamClosed) {
				return fail("transmit:after-close-does-not-fail:"+transmitOps[op], "transmit %s started after Close had returned and returned %v", id, t.err)
			}
			if onWire {
				return fail("transmit:after-close-writes:"+transmitOps[op], "transmit %s started after Close had returned and is on the wire", id)
			}
		}
		if t.err == nil && !onWire {
			return fail("transmit:success-but-not-on-wire:"+transmitOps[op], "transmit %s returned nil but is not on the wire", id)
		}
	}
	// Serve's result (with the closing tag refused by the connection Serve may
	// well report that write error: not judged)
	servePeer := peer
	if tagWriteFails {
		servePeer = "not-judged"
	}
	switch servePeer {
	case "peer-closes-first", "peer-closes-after-us", "close-deadline-extended-then-peer-closes-after-us", "close-deadline-set-while-serving-then-stanza-and-peer-closes":
		if deadlineErr != nil {
			return fail("deadline:set-fails", "SetCloseDeadline returned %v", deadlineErr)
		}
		if handlerMode < 2 || (peer != "peer-closes-first" && peer != "close-deadline-set-while-serving-then-stanza-and-peer-closes") {
			// a handler whose reply is refused because the application closed the
			// output in the meantime legitimately ends Serve with that error
			if env.ServeErr != nil && !(handlerMode == 1 && errors.Is(env.ServeErr, xmpp.ErrOutputStreamClosed)) {
				return fail("serve:error-on-peer-close", "Serve returned %v although the peer closed its stream", env.ServeErr)
			}
		} else if !errors.Is(env.ServeErr, handlerErr) {
			return fail("serve:handler-error-not-returned", "Serve returned %v", env.ServeErr)
		}
	case "peer-stream-error", "peer-stream-error-with-long-text":
		var se stream.Error
		if !errors.As(env.ServeErr, &se) || se.Err != "host-gone" {
			return fail("serve:stream-error-not-returned", "Serve returned %v", env.ServeErr)
		}
	case "silent-until-close-deadline":
		if env.ServeErr == nil || deadlineErr != nil {
			return fail("serve:no-error-on-close-deadline", "Serve returned %v, SetCloseDeadline %v", env.ServeErr, deadlineErr)
		}
	case "peer-closes-after-stanza-for-failing-handler":
		if handlerMode >= 2 && !errors.Is(env.ServeErr, handlerErr) {
			return fail("serve:handler-error-not-returned", "Serve returned %v", env.ServeErr)
		}
	}
	// closing our side does not stop the peer's stanzas from being handled
	if peer == "close-deadline-set-while-serving-then-stanza-and-peer-closes" && handlerCalls != 1 {
		return fail("serve:stanza-after-local-close-not-handled", "the peer sent one stanza after our closing tag and before its own; the handler ran %d times", handlerCalls)
	}
	if finalState&xmpp.OutputStreamClosed == 0 || finalState&xmpp.InputStreamClosed == 0 {
		return fail("state:not-both-closed", "State() = %v after Serve returned", finalState)
	}
	if !errors.Is(readAfter, xmpp.ErrInputStreamClosed) {
		return fail("state:read-after-close", "reading a token after Serve returned gives %v", readAfter)
	}
	if readAfterAgain != nil {
		return fail("state:read-after-close", "%v", readAfterAgain)
	}
	return res
}

func opAfter(s string) string {
	switch {
	case strings.Contains(s, "<message"):
		return "message"
	case strings.Contains(s, "<iq"):
		return "iq"
	case strings.Contains(s, "<presence"):
		return "presence"
	case strings.Contains(s, "stream:error"):
		return "stream-error"
	}
	return "other"
}

func init() {
	drv.Register(&drv.Prop{
		ID:    "C10",
		Level: "model_checking",
		Rule: "real Session on an in-memory net.Conn under the controlled scheduler: serve loop (handler that does nothing / replies / returns an error) + 1-2 threads calling Close + a transmitter going through one of 10 transmit entry points (Send, SendElement, Encode, EncodeElement, reply-typed SendIQ/SendMessage/SendPresence/EncodeIQ, TokenWriter opened before or after the close) once racing with the closers and once after they returned + (silent peer) a SetCloseDeadline(past) caller; peer: closes first, closes after us, sends a stream error, stays silent, or sends a stanza to a failing handler. Every interleaving up to the preemption bound. " +
			"Oracle on the wire and results: closing tag exactly once and nothing after it; a transmit started after a Close returned fails with the output-closed error and writes nothing; a successful transmit is on the wire; Serve returns nil / the stream error / the handler's error / an error on close deadline; both closed bits set and reads fail with the input-closed error; no deadlock or panic. Non-trivial = every distinct schedule.",
		Assumptions: []string{"a transmit call that overlaps a Close may succeed or fail", "stream errors written by the session are not flushed (pinned by the repository's tests): their presence on the wire is not required", "WebSocket framing is not explored here (the serve-time reader of a session created through the public constructors is not in WebSocket mode)"},
		Parts: func(tier string) []drv.Part {
			pre, b := 1, 3*time.Minute
			if tier == "thorough" {
				pre, b = 2, 40*time.Minute
			}
			return []drv.Part{{Name: "close", Body: body, MaxDev: pre, ShardLevels: 3, Budget: b, Env: []string{"GOMAXPROCS=1"}},
				drv.RacePart(pre+2, pre, b, body)}
		},
	})
}
