package c18

import (
	"context"
	"errors"
	"fmt"
	"strings"

	"mellium.im/xmpp/muc"
	"mellium.im/xmpp/mux"
	"mellium.im/xmpp/stanza"

	"verif/nd"
	"verif/vs"
	"verif/vsess"
)

// failedRejoinBody: an occupant asks to join again (re-synchronisation, same
// nickname) and the room refuses, or the application gives the request up. It
// has not left: the room's unavailable presence that answers the Leave which
// follows must still end that Leave.
func failedRejoinBody(c *nd.Ctx) nd.Result {
	how := []string{"refused", "abandoned"}[c.Choose(2, "rejoin")]
	ns := stanza.NSClient
	var env *vsess.Env
	var setupErr, joinErr, rejoinErr, leaveErr error
	joins := 0
	out := vs.Run(c, vs.Options{Horizon: 60000, Canonical: quickTier}, func() {
		env, setupErr = vsess.New(ns, 0)
		if setupErr != nil {
			return
		}
		client := &muc.Client{}
		var seen strings.Builder
		answered := map[string]bool{}
		ctxR, cancelR := context.WithCancel(context.Background())
		defer cancelR()
		env.Lib.OnWrite = func(p []byte) {
			seen.Write(p)
			for _, el := range vsess.TopLevel(ns, seen.String()) {
				id := el.Attr("id")
				if el.Start.Name.Local != "presence" || answered[id] {
					continue
				}
				answered[id] = true
				switch {
				case el.Attr("type") == "":
					joins++
					switch {
					case joins == 1:
						env.PeerWrite(selfPresence("", el.Attr("to"), ""))
					case how == "refused":
						env.PeerWrite(fmt.Sprintf(`<presence from='%s' to='me@example.net/res' type='error' id='%s'><error type='wait'><resource-constraint xmlns='urn:ietf:params:xml:ns:xmpp-stanzas'/></error></presence>`, el.Attr("to"), id))
					default:
						cancelR() // no answer: the application gives up
					}
				case el.Attr("type") == "unavailable":
					env.PeerWrite(selfPresence("unavailable", el.Attr("to"), ""))
				}
			}
		}
		env.Serve(mux.New(ns, muc.HandleClient(client)))
		vs.SetCanonical(true)
		var ch *muc.Channel
		ch, joinErr = client.Join(context.Background(), room, env.S)
		vs.SetCanonical(quickTier)
		if joinErr == nil {
			rejoinErr = ch.Join(ctxR)
			leaveErr = ch.Leave(context.Background(), "bye")
		}
		env.PeerWrite(`</stream:stream>`)
		vsess.Wait("serve-done", func() bool { return env.ServeDone })
	})
	if setupErr != nil {
		panic(setupErr)
	}
	desc := fmt.Sprintf("join, join again (%s), Leave (answered by the unavailable presence)", how)
	c.Note("%s outcome=%s", desc, out.Kind)
	for _, t := range out.Trace {
		c.Note("  %s", t)
	}
	res := nd.Result{Outcome: out.Kind, NonTrivial: desc + fmt.Sprint(c.Vector())}
	fail := func(sig, f string, a ...any) nd.Result {
		res.Violation = &nd.Violation{Sig: "failed-rejoin:" + sig, Msg: desc + fmt.Sprintf(" [join %v rejoin %v leave %v]: ", joinErr, rejoinErr, leaveErr) + fmt.Sprintf(f, a...)}
		return res
	}
	switch out.Kind {
	case "panic":
		return fail(out.Panic.Sig(), "panic in thread %s: %s\n%s", out.PanicIn, out.Panic.Value, out.Panic.Stack)
	case "deadlock":
		return fail("leave-never-returns-although-unavailable-presence-arrived", "blocked threads: %v", out.Blocked)
	case "horizon":
		return fail("does-not-terminate", "blocked: %v", out.Blocked)
	}
	if joinErr != nil {
		return fail("setup-failed", "join %v", joinErr)
	}
	var se stanza.Error
	if how == "refused" && !errors.As(rejoinErr, &se) {
		return fail("rejoin-result", "the room refused the second join, it returned %v", rejoinErr)
	}
	if how == "abandoned" && !errors.Is(rejoinErr, context.Canceled) {
		return fail("rejoin-result", "the second join was given up, it returned %v", rejoinErr)
	}
	if leaveErr != nil {
		return fail("leave-fails-although-unavailable-presence-arrived", "Leave returned %v", leaveErr)
	}
	return res
}

// invitesBody: a history of two or three mediated invitations, from the same
// or from different rooms and inviters, whose message ids are equal, absent or
// different (ids are chosen by the originators: nothing makes them unique
// across rooms): each one is handed to the callback exactly once, in order.
func invitesBody(c *nd.Ctx) nd.Result {
	n := 2 + c.Choose(2, "invitations")
	type inv struct{ room, id, reason string }
	var sent []inv
	for i := 0; i < n; i++ {
		iv := inv{room: []string{"room@conf.example.net", "other@conf.example.net"}[c.Choose(2, "room")], reason: fmt.Sprintf("r%d", i)}
		iv.id = []string{"", "1", "2"}[c.Choose(3, "message-id")]
		sent = append(sent, iv)
	}
	ns := stanza.NSClient
	var env *vsess.Env
	var setupErr error
	var got []string
	out := vs.Run(c, vs.Options{Horizon: 60000, Canonical: true}, func() {
		env, setupErr = vsess.New(ns, 0)
		if setupErr != nil {
			return
		}
		client := &muc.Client{HandleInvite: func(i muc.Invitation) { got = append(got, i.Reason) }}
		env.Serve(mux.New(ns, muc.HandleClient(client)))
		for i, iv := range sent {
			idAttr := ""
			if iv.id != "" {
				idAttr = " id='" + iv.id + "'"
			}
			env.PeerWrite(fmt.Sprintf(`<message from='%s' to='me@example.net/res'%s><x xmlns='%s'><invite from='inviter%d@example.net/x'><reason>%s</reason></invite></x></message>`, iv.room, idAttr, userNS, i, iv.reason))
		}
		env.PeerWrite(`</stream:stream>`)
		vsess.Wait("serve-done", func() bool { return env.ServeDone })
	})
	if setupErr != nil {
		panic(setupErr)
	}
	var want []string
	for _, iv := range sent {
		want = append(want, iv.reason) // (the reason identifies the invitation: the decoded value does not name the room)
	}
	desc := fmt.Sprintf("mediated invitations %+v", sent)
	c.Note("%s outcome=%s", desc, out.Kind)
	res := nd.Result{Outcome: out.Kind, NonTrivial: desc}
	switch {
	case out.Kind == "panic":
		res.Violation = &nd.Violation{Sig: "invites:" + out.Panic.Sig(), Msg: fmt.Sprintf("%s: panic in thread %s: %s\n%s", desc, out.PanicIn, out.Panic.Value, out.Panic.Stack)}
	case out.Kind != "complete":
		res.Violation = &nd.Violation{Sig: "invites:" + out.Kind, Msg: fmt.Sprintf("%s: %v", desc, out.Blocked)}
	case fmt.Sprint(got) != fmt.Sprint(want):
		res.Violation = &nd.Violation{Sig: "invite:history-not-delivered-exactly-once-each", Msg: fmt.Sprintf("%s: the callback saw %v, want %v", desc, got, want)}
	}
	return res
}

// joinErrorBody: the room refuses the join with an error presence that carries
// the request's id and whose from names the requested occupant in an
// equivalent spelling (another case of the domain or of the room's localpart),
// or the room itself: the Join ends with that stanza error, it does not wait
// for its context.
func joinErrorBody(c *nd.Ctx) nd.Result {
	from := []string{"room@conf.example.net/me", "room@CONF.EXAMPLE.NET/me", "Room@conf.example.net/me", "room@conf.example.net"}[c.Choose(4, "error-from")]
	ns := stanza.NSClient
	var env *vsess.Env
	var setupErr, joinErr error
	out := vs.Run(c, vs.Options{Horizon: 60000, Canonical: quickTier}, func() {
		env, setupErr = vsess.New(ns, 0)
		if setupErr != nil {
			return
		}
		client := &muc.Client{}
		var seen strings.Builder
		answered := map[string]bool{}
		env.Lib.OnWrite = func(p []byte) {
			seen.Write(p)
			for _, el := range vsess.TopLevel(ns, seen.String()) {
				id := el.Attr("id")
				if el.Start.Name.Local != "presence" || answered[id] || el.Attr("type") != "" {
					continue
				}
				answered[id] = true
				env.PeerWrite(fmt.Sprintf(`<presence from='%s' to='me@example.net/res' type='error' id='%s'><x xmlns='http://jabber.org/protocol/muc'/><error type='auth'><forbidden xmlns='urn:ietf:params:xml:ns:xmpp-stanzas'/></error></presence>`, from, id))
			}
		}
		env.Serve(mux.New(ns, muc.HandleClient(client)))
		_, joinErr = client.Join(context.Background(), room, env.S)
		env.PeerWrite(`</stream:stream>`)
		vsess.Wait("serve-done", func() bool { return env.ServeDone })
	})
	if setupErr != nil {
		panic(setupErr)
	}
	desc := fmt.Sprintf("join of %s refused by an error presence from %s", room, from)
	c.Note("%s outcome=%s", desc, out.Kind)
	for _, t := range out.Trace {
		c.Note("  %s", t)
	}
	res := nd.Result{Outcome: out.Kind, NonTrivial: desc + fmt.Sprint(c.Vector())}
	fail := func(sig, f string, a ...any) nd.Result {
		res.Violation = &nd.Violation{Sig: "join-error:" + sig, Msg: desc + fmt.Sprintf(" [join %v]: ", joinErr) + fmt.Sprintf(f, a...)}
		return res
	}
	switch out.Kind {
	case "panic":
		return fail(out.Panic.Sig(), "panic in thread %s: %s\n%s", out.PanicIn, out.Panic.Value, out.Panic.Stack)
	case "deadlock":
		return fail("join-never-returns-although-the-room-refused", "blocked threads: %v", out.Blocked)
	case "horizon":
		return fail("does-not-terminate", "blocked: %v", out.Blocked)
	}
	var se stanza.Error
	if !errors.As(joinErr, &se) || se.Condition != stanza.Forbidden {
		return fail("join-result", "the room refused the join with <forbidden/>, Join returned %v", joinErr)
	}
	return res
}
