// Package c18: MUC membership follows the room's presence exactly.
package c18

import (
	"context"
	"errors"
	"fmt"
	"strings"
	"time"

	"mellium.im/xmpp/jid"
	"mellium.im/xmpp/muc"
	"mellium.im/xmpp/mux"
	"mellium.im/xmpp/stanza"

	"verif/drv"
	"verif/nd"
	"verif/vs"
	"verif/vsess"
)

const userNS = "http://jabber.org/protocol/muc#user"

var joinPlans = []string{"self-presence", "error-presence", "other-occupant-then-self", "foreign-room-then-self", "nothing", "self-presence-then-error", "error-then-self-presence", "foreign-room-undecodable-then-self"}
var leavePlans = []string{"unavailable", "error-reply", "nothing", "no-leave"}
var rejoinPlans = []string{"self-presence", "error-presence", "nothing"}
var roomsJoinPlans = []string{"self", "first-room-occupant-then-self", "kicked-from-first-room-then-self", "error"}
var roomsLeavePlans = []string{"unavailable", "second-room-unavailable-then-unavailable"}

var roomB = jid.MustParse("other@conf.example.net/me")

var room = jid.MustParse("room@conf.example.net/me")

// unavailableShape: what else the room puts into the unavailable presence of
// our own occupant address. 0: nothing; 1: further status codes and the item's
// nick attribute (as for a nickname change or a removal with a reason).
// Whatever it carries, it is the occupant's unavailable presence.
var unavailableShape int

func selfPresence(typ string, from string, extra string) string {
	t := ""
	if typ != "" {
		t = " type='" + typ + "'"
	}
	if typ == "unavailable" && unavailableShape == 1 {
		return fmt.Sprintf(`<presence from='%s' to='me@example.net/res'%s%s><x xmlns='%s'><item affiliation='member' role='participant' nick='renamed'><reason>r</reason></item><status code='110'/><status code='303'/><status code='307'/></x></presence>`, from, t, extra, userNS)
	}
	return fmt.Sprintf(`<presence from='%s' to='me@example.net/res'%s%s><x xmlns='%s'><item affiliation='member' role='participant'/><status code='110'/></x></presence>`, from, t, extra, userNS)
}

func invitation(n int, shape int) string {
	x := fmt.Sprintf(`<x xmlns='%s'><invite from='inviter%d@example.net/x'><reason>r%d</reason></invite></x>`, userNS, n, n)
	switch shape {
	case 1: // another payload before the invitation
		x = `<body>you are invited</body>` + x
	case 2: // and after it
		x = x + `<x xmlns='jabber:x:conference' jid='room@conf.example.net'/>`
	}
	return fmt.Sprintf(`<message from='room@conf.example.net' to='me@example.net/res' id='inv%d'>%s</message>`, n, x)
}

func body(phase string) nd.Body {
	return func(c *nd.Ctx) nd.Result { return run(c, phase) }
}

var quickTier bool

// leaveErrorCancel restricts the leave phase to a refused Leave with the
// canceller thread present (the one slice of the leave phase with a canceller
// that fits the quick tier).
var leaveErrorCancel bool

func leaveErrorCancelBody(c *nd.Ctx) nd.Result {
	leaveErrorCancel = true
	defer func() { leaveErrorCancel = false }()
	return run(c, "leave")
}

func run(c *nd.Ctx, phase string) nd.Result {
	// phase "join": every join answer, no leave; phase "leave": the join is
	// answered by the self-presence and every leave answer is explored
	jp, lp := "self-presence", "no-leave"
	ninv, invShape := 0, 0
	rp, afterLeave, newNick := "", false, false
	bp, lp2 := "", ""
	if phase == "join" {
		jp = joinPlans[c.Choose(len(joinPlans), "room-answers-join")]
		ninv = c.Choose(3, "invitations")
		if ninv > 0 {
			invShape = c.Choose(3, "invitation-shape")
		}
	} else if phase == "leave" {
		lp = leavePlans[c.Choose(len(leavePlans)-1, "room-answers-leave")]
		unavailableShape = 0
		if lp == "unavailable" {
			unavailableShape = c.Choose(2, "unavailable-presence-carries-status-codes-and-nick")
		}
		defer func() { unavailableShape = 0 }()
	} else if phase == "rooms" {
		// one step of the history is explored, the steps before it are set-up
		// (run on the canonical schedule)
		bp = roomsJoinPlans[c.Choose(len(roomsJoinPlans), "second-room-answers-join")]
		if c.Choose(2, "explored-step") == 1 {
			if bp == "error" {
				return nd.Result{Skip: true}
			}
			lp2 = roomsLeavePlans[c.Choose(len(roomsLeavePlans), "first-room-answers-leave")]
		}
	} else {
		// phase "rejoin": join (set-up), optionally leave (set-up), then join
		// the same channel again, optionally under a new nickname
		rp = rejoinPlans[c.Choose(len(rejoinPlans), "room-answers-rejoin")]
		afterLeave = c.Choose(2, "rejoin-after-leave") == 1
		newNick = c.Choose(2, "rejoin-with-new-nick") == 1
		if afterLeave {
			lp = "unavailable"
		}
	}
	// without a canceller nothing but the room's answer can end the call: a lost
	// notification then shows up as a deadlock instead of hiding behind the
	// cancellation
	withCanceller := phase != "rooms" && c.Choose(2, "canceller") == 0
	if leaveErrorCancel && (!withCanceller || lp != "error-reply" || ninv != 0) {
		return nd.Result{Skip: true}
	}
	if quickTier && phase != "join" && withCanceller && !leaveErrorCancel {
		// quick tier: the leave and rejoin phases are explored without the canceller thread
		// (the interleaving space with it does not fit the quick budget)
		return nd.Result{Skip: true}
	}
	if quickTier && ninv == 2 && (invShape > 0 || withCanceller) {
		// quick tier: two invitations only in the plain shape and without the
		// canceller thread; the thorough tier explores the full product
		return nd.Result{Skip: true}
	}
	if !withCanceller && (jp == "nothing" || (phase == "leave" && lp == "nothing") || rp == "nothing") {
		return nd.Result{Skip: true}
	}
	ns := stanza.NSClient
	var env *vsess.Env
	var setupErr, joinErr, leaveErr error
	joinCancelled, leaveCancelled := false, false
	joinReturned, leaveReturned, left := false, false, false
	var rejoinErr, joinBErr error
	joinBReturned := false
	rejoinStarted, rejoinReturned, rejoinCancelled := false, false, false
	rejoinMe := ""
	joinedAfterJoin, joinedAfterLeave := false, false
	var invites []string
	userPresences := 0
	out := vs.Run(c, vs.Options{Horizon: 40000}, func() {
		env, setupErr = vsess.New(ns, 0)
		if setupErr != nil {
			return
		}
		client := &muc.Client{
			HandleInvite:       func(i muc.Invitation) { invites = append(invites, i.Reason) },
			HandleUserPresence: func(p stanza.Presence, i muc.Item) { userPresences++ },
		}
		var seen strings.Builder
		answered := map[string]bool{}
		joinsSeen := 0
		env.Lib.OnWrite = func(p []byte) {
			seen.Write(p)
			for _, el := range vsess.TopLevel(ns, seen.String()) {
				id := el.Attr("id")
				if el.Start.Name.Local != "presence" || answered[id] {
					continue
				}
				answered[id] = true
				idAttr := fmt.Sprintf(" id='%s'", id)
				if phase == "rooms" {
					to := el.Attr("to")
					switch {
					case to == room.String() && el.Attr("type") == "":
						env.PeerWrite(selfPresence("", room.String(), ""))
					case to == roomB.String() && el.Attr("type") == "":
						switch bp {
						case "self":
							env.PeerWrite(selfPresence("", roomB.String(), ""))
						case "first-room-occupant-then-self":
							env.PeerWrite(selfPresence("", "room@conf.example.net/other", "") + selfPresence("", roomB.String(), ""))
						case "kicked-from-first-room-then-self":
							env.PeerWrite(selfPresence("unavailable", room.String(), "") + selfPresence("", roomB.String(), ""))
						case "error":
							env.PeerWrite(fmt.Sprintf(`<presence from='%s' type='error'%s><error type='auth'><forbidden xmlns='urn:ietf:params:xml:ns:xmpp-stanzas'/></error></presence>`, roomB.String(), idAttr))
						}
					case to == room.String():
						if lp2 == "second-room-unavailable-then-unavailable" {
							env.PeerWrite(selfPresence("unavailable", roomB.String(), ""))
						}
						env.PeerWrite(selfPresence("unavailable", room.String(), ""))
					}
					continue
				}
				if el.Attr("type") == "unavailable" {
					switch lp {
					case "unavailable":
						env.PeerWrite(selfPresence("unavailable", room.String(), ""))
					case "error-reply":
						env.PeerWrite(fmt.Sprintf(`<presence from='%s' type='error'%s><error type='cancel'><not-acceptable xmlns='urn:ietf:params:xml:ns:xmpp-stanzas'/></error></presence>`, room.String(), idAttr))
					}
					continue
				}
				joinsSeen++
				if joinsSeen > 1 {
					// the rejoin: answered for the occupant address it asks for
					switch rp {
					case "self-presence":
						env.PeerWrite(selfPresence("", el.Attr("to"), ""))
					case "error-presence":
						env.PeerWrite(fmt.Sprintf(`<presence from='%s' type='error'%s><error type='cancel'><conflict xmlns='urn:ietf:params:xml:ns:xmpp-stanzas'/></error></presence>`, el.Attr("to"), idAttr))
					}
					continue
				}
				switch jp {
				case "self-presence":
					env.PeerWrite(selfPresence("", room.String(), ""))
				case "error-presence":
					env.PeerWrite(fmt.Sprintf(`<presence from='%s' type='error'%s><error type='auth'><forbidden xmlns='urn:ietf:params:xml:ns:xmpp-stanzas'/></error></presence>`, room.String(), idAttr))
				case "other-occupant-then-self":
					env.PeerWrite(selfPresence("", "room@conf.example.net/other", "") + selfPresence("", room.String(), ""))
				case "foreign-room-undecodable-then-self":
					// a presence from a room that was never joined whose payload the
					// library cannot decode (unknown role, non-numeric status code): it is
					// none of our business and must be ignored like any other
					env.PeerWrite(`<presence from='elsewhere@conf.example.net/me' to='me@example.net/res'><x xmlns='` + userNS + `'><item affiliation='member' role='observer'/><status code='abc'/></x></presence>` + selfPresence("", room.String(), ""))
				case "foreign-room-then-self":
					env.PeerWrite(selfPresence("", "elsewhere@conf.example.net/me", "") + selfPresence("", room.String(), ""))
				case "self-presence-then-error":
					env.PeerWrite(selfPresence("", room.String(), "") + fmt.Sprintf(`<presence from='%s' type='error'%s><error type='cancel'><conflict xmlns='urn:ietf:params:xml:ns:xmpp-stanzas'/></error></presence>`, room.String(), idAttr))
				case "error-then-self-presence":
					// the join is refused; a (contradictory or late) self-presence follows
					env.PeerWrite(fmt.Sprintf(`<presence from='%s' type='error'%s><error type='cancel'><conflict xmlns='urn:ietf:params:xml:ns:xmpp-stanzas'/></error></presence>`, room.String(), idAttr) + selfPresence("", room.String(), ""))
				case "nothing":
				}
			}
		}
		env.Serve(mux.New(ns, muc.HandleClient(client)))
		for i := 0; i < ninv; i++ {
			env.PeerWrite(invitation(i, invShape))
		}
		ctxJ, cancelJ := context.WithCancel(context.Background())
		ctxL, cancelL := context.WithCancel(context.Background())
		ctxR, cancelR := context.WithCancel(context.Background())
		defer cancelR()
		vs.GoNamed("canceller", false, func() {
			if !withCanceller {
				return
			}
			if phase == "join" {
				vs.Yield("cancel-join")
				if !joinReturned {
					joinCancelled = true
				}
				cancelJ()
				return
			}
			if phase == "rejoin" {
				vs.Block("rejoin-started", func() bool { return rejoinStarted })
				vs.Yield("cancel-rejoin")
				if !rejoinReturned {
					rejoinCancelled = true
				}
				cancelR()
				return
			}
			vs.Block("join-returned", func() bool { return joinReturned })
			vs.Yield("cancel-leave")
			if !leaveReturned {
				leaveCancelled = true
			}
			cancelL()
			cancelJ()
		})
		var ch *muc.Channel
		if phase != "join" {
			vs.SetCanonical(true) // the join is only the set-up here
		}
		ch, joinErr = client.Join(ctxJ, room, env.S)
		if phase != "rejoin" && phase != "rooms" {
			vs.SetCanonical(false)
		}
		vs.Atomically(func() { joinReturned = true })
		if phase == "rooms" {
			if lp2 == "" {
				vs.SetCanonical(false)
			}
			if joinErr == nil {
				_, joinBErr = client.Join(ctxR, roomB, env.S)
				joinBReturned = true
				vs.SetCanonical(false)
				if lp2 != "" {
					leaveErr = ch.Leave(ctxL, "bye")
					left = true
				}
			}
		} else if phase == "rejoin" {
			if joinErr == nil && afterLeave {
				leaveErr = ch.Leave(ctxL, "bye")
				left = true
			}
			vs.SetCanonical(false)
			if joinErr == nil && leaveErr == nil {
				vs.Atomically(func() { rejoinStarted = true })
				if newNick {
					rejoinErr = ch.Join(ctxR, muc.Nick("me2"))
				} else {
					rejoinErr = ch.Join(ctxR)
				}
				rejoinReturned = true
				if rejoinErr == nil {
					rejoinMe = ch.Me().String()
				}
			}
		} else if joinErr == nil {
			joinedAfterJoin = ch.Joined()
			if lp != "no-leave" {
				leaveErr = ch.Leave(ctxL, "bye")
				left = true
				if leaveErr == nil {
					joinedAfterLeave = ch.Joined()
				}
			}
		}
		leaveReturned = true
		env.PeerWrite(`</stream:stream>`)
		vsess.Wait("serve-done", func() bool { return env.ServeDone })
	})
	if setupErr != nil {
		panic(setupErr)
	}
	desc := fmt.Sprintf("join answered by %s, leave answered by %s, %d invitations (shape %d), canceller=%v", jp, lp, ninv, invShape, withCanceller)
	if unavailableShape == 1 {
		desc += ", the unavailable presence carries status codes 303/307 and a nick"
	}
	if phase == "rooms" {
		desc = fmt.Sprintf("two rooms: second join answered by %s, leaving the first answered by %s", bp, lp2)
	}
	rejoinKind := ""
	if phase == "rejoin" {
		rejoinKind = "resync"
		if afterLeave {
			rejoinKind = "after-leave"
		}
		if newNick {
			rejoinKind += ":new-nick"
		} else {
			rejoinKind += ":same-nick"
		}
		desc = fmt.Sprintf("rejoin (%s) answered by %s, canceller=%v", rejoinKind, rp, withCanceller)
	}
	c.Note("%s outcome=%s", desc, out.Kind)
	for _, t := range out.Trace {
		c.Note("  %s", t)
	}
	cls := func(returned, cancelled bool, err error) string {
		switch {
		case !returned:
			return "not-called"
		case cancelled:
			return "cancelled"
		case err != nil:
			return "error"
		}
		return "ok"
	}
	res := nd.Result{Outcome: fmt.Sprintf("%s join=%s joined=%v leave=%s joined-after=%v invites=%d", out.Kind, cls(joinReturned, joinCancelled, joinErr), joinedAfterJoin, cls(leaveReturned, leaveCancelled, leaveErr), joinedAfterLeave, len(invites)), NonTrivial: desc + fmt.Sprint(c.Vector())}
	fail := func(sig, f string, a ...any) nd.Result {
		res.Violation = &nd.Violation{Sig: sig, Msg: desc + fmt.Sprintf(" [join err=%v cancelled=%v; leave err=%v cancelled=%v; invitations delivered=%v]: ", joinErr, joinCancelled, leaveErr, leaveCancelled, invites) + fmt.Sprintf(f, a...)}
		return res
	}
	switch out.Kind {
	case "panic":
		return fail("muc:"+out.Panic.Sig(), "panic in thread %s: %s\n%s", out.PanicIn, out.Panic.Value, out.Panic.Stack)
	case "deadlock":
		sig := "muc:deadlock"
		if phase == "rooms" {
			switch {
			case joinReturned && !joinBReturned && bp != "error":
				sig = "rooms:second-join-never-returns-although-self-presence-arrived"
			case joinBReturned && !leaveReturned:
				sig = "rooms:leave-never-returns-although-unavailable-presence-arrived"
			}
		}
		if phase == "rejoin" && rejoinStarted && !rejoinReturned && rp == "self-presence" {
			return fail("rejoin:never-returns-although-self-presence-arrived:"+rejoinKind, "blocked threads: %v", out.Blocked)
		}
		if joinReturned && joinErr == nil && !leaveReturned && lp == "unavailable" {
			sig = "leave:never-returns-although-unavailable-presence-arrived"
		} else if !joinReturned && jp != "nothing" && jp != "error-presence" {
			sig = "join:never-returns-although-self-presence-arrived"
		}
		return fail(sig, "blocked threads: %v", out.Blocked)
	case "horizon":
		return fail("muc:does-not-terminate", "blocked: %v", out.Blocked)
	}
	if phase == "rooms" {
		if joinErr != nil {
			return fail("rooms:setup-failed", "join %v", joinErr)
		}
		var se stanza.Error
		switch {
		case joinBErr == nil:
			if bp == "error" {
				return fail("rooms:second-join-succeeds-on-error", "Join returned nil")
			}
		case errors.As(joinBErr, &se):
			if bp != "error" {
				return fail("rooms:second-join-stanza-error-without-error-reply", "Join returned %v", joinBErr)
			}
		default:
			return fail("rooms:second-join-unexpected-error", "Join returned %v", joinBErr)
		}
		if leaveErr != nil {
			return fail("rooms:leave-fails-although-unavailable-presence-arrived", "Leave returned %v", leaveErr)
		}
		return res
	}
	// Join
	selfSent := jp == "self-presence" || jp == "other-occupant-then-self" || jp == "foreign-room-then-self" || jp == "foreign-room-undecodable-then-self" || jp == "self-presence-then-error" || jp == "error-then-self-presence"
	var se stanza.Error
	switch {
	case joinErr == nil:
		if !selfSent {
			return fail("join:success-without-self-presence", "Join returned nil but the room never sent the self-presence")
		}
	case errors.As(joinErr, &se):
		if jp != "error-presence" && jp != "self-presence-then-error" && jp != "error-then-self-presence" {
			return fail("join:stanza-error-without-error-reply", "Join returned %v", joinErr)
		}
	case errors.Is(joinErr, context.Canceled):
		if !joinCancelled {
			return fail("join:context-error-without-cancellation", "Join returned %v", joinErr)
		}
	default:
		return fail("join:unexpected-error", "Join returned %v", joinErr)
	}
	if joinErr != nil && !joinCancelled {
		switch jp {
		case "self-presence", "other-occupant-then-self", "foreign-room-then-self", "foreign-room-undecodable-then-self":
			return fail("join:fails-although-self-presence-arrived", "Join returned %v, its context was not cancelled", joinErr)
		}
	}
	// Leave
	if left {
		switch {
		case leaveErr == nil:
			if lp != "unavailable" {
				return fail("leave:success-without-unavailable-presence", "Leave returned nil")
			}
			if joinedAfterLeave {
				return fail("joined:true-after-leave", "Joined() reports true after the unavailable presence was processed")
			}
		case errors.As(leaveErr, &se):
			if lp != "error-reply" {
				return fail("leave:stanza-error-without-error-reply", "Leave returned %v", leaveErr)
			}
		case errors.Is(leaveErr, context.Canceled):
			if !leaveCancelled {
				return fail("leave:context-error-without-cancellation", "Leave returned %v", leaveErr)
			}
		default:
			return fail("leave:unexpected-error", "Leave returned %v", leaveErr)
		}
		if leaveErr != nil && !leaveCancelled && lp == "unavailable" {
			return fail("leave:fails-although-unavailable-presence-arrived", "Leave returned %v", leaveErr)
		}
	}
	// Rejoin
	if phase == "rejoin" {
		if !rejoinStarted {
			return fail("rejoin:setup-failed", "join %v leave %v", joinErr, leaveErr)
		}
		switch {
		case rejoinErr == nil:
			if rp != "self-presence" {
				return fail("rejoin:success-without-self-presence:"+rejoinKind, "Join returned nil but the room never sent the self-presence")
			}
			want := room.String()
			if newNick {
				want = "room@conf.example.net/me2"
			}
			if rejoinMe != want {
				return fail("rejoin:wrong-occupant-address:"+rejoinKind, "the channel reports %q after rejoining as %q", rejoinMe, want)
			}
		case errors.As(rejoinErr, &se):
			if rp != "error-presence" {
				return fail("rejoin:stanza-error-without-error-reply:"+rejoinKind, "Join returned %v", rejoinErr)
			}
		case errors.Is(rejoinErr, context.Canceled):
			if !rejoinCancelled {
				return fail("rejoin:context-error-without-cancellation:"+rejoinKind, "Join returned %v", rejoinErr)
			}
		default:
			return fail("rejoin:unexpected-error:"+rejoinKind, "Join returned %v", rejoinErr)
		}
		return res
	}
	// invitations exactly once each
	if len(invites) != ninv {
		return fail("invite:delivery-count", "%d mediated invitations were sent, the callback ran %d times", ninv, len(invites))
	}
	for i, r := range invites {
		if r != fmt.Sprintf("r%d", i) {
			return fail("invite:wrong-invitation", "delivered %v", invites)
		}
	}
	if joinErr == nil && !joinedAfterJoin {
		return fail("joined:false-after-successful-join", "Joined() reports false right after Join returned nil")
	}
	// presences for rooms that were never joined are ignored
	if jp == "foreign-room-then-self" && userPresences > 1 {
		return fail("presence:foreign-room-not-ignored", "HandleUserPresence ran %d times", userPresences)
	}
	return res
}

func init() {
	drv.Register(&drv.Prop{
		ID:    "C18",
		Level: "model_checking",
		Rule: "real Session + muc.Client on the controlled scheduler: the application joins room/nick and (if joined) leaves, a canceller thread cancels the join context and then the leave context at instants chosen by the scheduler; the room (reactive script) answers the join with one of {self-presence, error presence for the request id, another occupant's presence then self-presence, a presence from a never-joined room then self-presence, nothing, self-presence then error} and the leave with {unavailable self-presence, error reply, nothing, (no leave)}; 0-2 mediated invitations are delivered before. Every interleaving of application, canceller, serve loop and the library's own goroutines up to the preemption bound. " +
			"Oracle: Join nil only after the self-presence (and never failing when it arrived uncancelled), the room's stanza error on error, the context error only after cancellation; Joined() true right after a successful join and false after the unavailable presence; Leave nil on the unavailable presence, stanza error on error reply, context error only after cancellation; each invitation delivered exactly once; no deadlock or panic. Non-trivial = every distinct schedule.",
		Assumptions: []string{"one room; histories are join, join+leave, join(+leave)+rejoin (same or new nickname); the rejoin part runs one preemption level below the others", "a thread about to block on a channel is not yet visible as a waiter, so lossy notifications are reachable"},
		Parts: func(tier string) []drv.Part {
			pre, b := 1, 3*time.Minute
			quickTier = tier == "quick"
			rejoinPre, roomsPre := 0, 1
			if tier == "thorough" {
				pre, b = 2, 25*time.Minute
				rejoinPre, roomsPre = 1, 1
			}
			env := []string{"GOMAXPROCS=1"}
			return []drv.Part{
				{Name: "join", Desc: "every answer to the join, cancellation of the join, invitations", Body: body("join"), MaxDev: pre, ShardLevels: 3, Budget: b, Env: env},
				{Name: "leave", Desc: "every answer to the leave after a successful join, cancellation of the leave", Body: body("leave"), MaxDev: pre, ShardLevels: 3, Budget: b, Env: env},
				{Name: "leave-refused-cancelled", Desc: "a Leave that the room refuses while a canceller gives it up at any instant", Body: leaveErrorCancelBody, MaxDev: 1, ShardLevels: 3, Budget: b, Env: env},
				{Name: "rooms", Desc: "two rooms on one client: joining a second room while presences of the first arrive (another occupant, being kicked), leaving the first while the second sends an unavailable presence", Body: body("rooms"), MaxDev: roomsPre, ShardLevels: 2, Budget: b, Env: env},
				{Name: "kick", Desc: "removed by the room, rejoin (no / same / new nickname option), then leave (answered, unanswered+cancelled) or removed again followed by a late presence", Body: kickBody, MaxDev: 0, ShardLevels: 2, Budget: b, Env: env},
				{Name: "leave-twice", Desc: "a refused or abandoned Leave followed by a Leave that the room grants", Body: leaveTwiceBody, MaxDev: 0, ShardLevels: 2, Budget: b, Env: env},
				{Name: "failed-rejoin", Desc: "a successful join, a second join of the same channel that the room refuses or the application gives up, then a Leave that the room grants", Body: failedRejoinBody, MaxDev: 0, ShardLevels: 2, Budget: b, Env: env},
				{Name: "join-error-from", Desc: "the join refused by an error presence whose from is an equivalent spelling of the requested occupant address, or the room itself", Body: joinErrorBody, MaxDev: 1, CutDepth: 1, Workers: 4, Budget: b, Env: env},
				{Name: "invitations", Desc: "two or three mediated invitations from one or two rooms with equal, absent or different message ids", Body: invitesBody, MaxDev: 0, CutDepth: 2, Workers: 4, Budget: b, Env: env},
				{Name: "two-sessions", Desc: "one Client on two sessions: a second Join of the same room names the other session", Body: twoSessionsBody, MaxDev: 0, CutDepth: 1, Workers: 2, Budget: b, Env: env},
				{Name: "overlapping-joins", Desc: "an unanswered join, a second join of the same room through the same client while it waits, the first given up at any instant", Body: overlapBody, MaxDev: pre - 1, ShardLevels: 2, Budget: b, Env: env},
				{Name: "rejoin", Desc: "joining the same channel again (re-synchronisation or after a leave, same or new nickname), every answer, cancellation", Body: body("rejoin"), MaxDev: rejoinPre, ShardLevels: 2, Budget: b, Env: env},
				drv.RacePart(8*pre, pre, b, body("join"), body("leave"), body("rooms"), kickBody, leaveTwiceBody, twoSessionsBody, body("rejoin"), overlapBody, failedRejoinBody, joinErrorBody),
			}
		},
	})
}
