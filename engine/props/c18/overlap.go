package c18

import (
	"context"
	"fmt"
	"strings"

	"mellium.im/xmpp/muc"
	"mellium.im/xmpp/mux"
	"mellium.im/xmpp/stanza"

	"verif/nd"
	"verif/vs"
	"verif/vsess"
)

// overlapBody: two overlapping joins of the same room. The first join is not
// answered; while it waits, the application tries again (through the client -
// a new channel - or through the channel the first call would have returned,
// had it any: only the client entry point is available before a join has
// succeeded), and gives the first attempt up at an instant of the scheduler's
// choosing. The room answers the second request with the self-presence.
//
// Oracle: the second join succeeds (its context is never cancelled and the
// self-presence for its occupant address arrives after its request); the first
// returns its context's error or success; nothing is parked for good.
func overlapBody(c *nd.Ctx) nd.Result {
	giveUp := c.Choose(2, "first-attempt-given-up") == 1
	ns := stanza.NSClient
	var env *vsess.Env
	var setupErr error
	var errs [2]error
	var returned [2]bool
	joinsSeen := 0
	out := vs.Run(c, vs.Options{Horizon: 60000}, func() {
		env, setupErr = vsess.New(ns, 0)
		if setupErr != nil {
			return
		}
		client := &muc.Client{}
		var seen strings.Builder
		answered := map[string]bool{}
		env.Lib.OnWrite = func(p []byte) {
			seen.Write(p)
			for _, el := range vsess.TopLevel(ns, seen.String()) {
				id := el.Attr("id")
				if el.Start.Name.Local != "presence" || answered[id] || el.Attr("type") != "" {
					continue
				}
				answered[id] = true
				vs.Atomically(func() { joinsSeen++ })
				if joinsSeen == 2 {
					env.PeerWrite(selfPresence("", el.Attr("to"), ""))
				}
			}
		}
		env.Serve(mux.New(ns, muc.HandleClient(client)))
		ctx1, cancel1 := context.WithCancel(context.Background())
		defer cancel1()
		vs.GoNamed("first-join", false, func() {
			_, errs[0] = client.Join(ctx1, room, env.S)
			vs.Atomically(func() { returned[0] = true })
		})
		// the retry starts once the first request is on the wire
		vsess.Wait("first-request-sent", func() bool { return joinsSeen >= 1 })
		if giveUp {
			vs.GoNamed("canceller", false, func() {
				vs.Yield("give-up")
				cancel1()
			})
		}
		_, errs[1] = client.Join(context.Background(), room, env.S)
		returned[1] = true
		cancel1()
		vsess.Wait("first-returned", func() bool { return returned[0] })
		env.PeerWrite(`</stream:stream>`)
		vsess.Wait("serve-done", func() bool { return env.ServeDone })
	})
	if setupErr != nil {
		panic(setupErr)
	}
	desc := fmt.Sprintf("a join that is not answered, a second join of the same room while it waits (answered by the self-presence), first attempt given up concurrently=%v", giveUp)
	c.Note("%s outcome=%s", desc, out.Kind)
	for _, t := range out.Trace {
		c.Note("  %s", t)
	}
	res := nd.Result{Outcome: out.Kind, NonTrivial: desc + fmt.Sprint(c.Vector())}
	fail := func(sig, f string, a ...any) nd.Result {
		res.Violation = &nd.Violation{Sig: "overlap:" + sig, Msg: desc + fmt.Sprintf(" [first %v second %v]: ", errs[0], errs[1]) + fmt.Sprintf(f, a...)}
		return res
	}
	switch out.Kind {
	case "panic":
		return fail(out.Panic.Sig(), "panic in thread %s: %s\n%s", out.PanicIn, out.Panic.Value, out.Panic.Stack)
	case "deadlock":
		if !returned[1] {
			return fail("second-join-never-returns-although-self-presence-arrived", "blocked threads: %v", out.Blocked)
		}
		return fail("parked-for-good", "blocked threads: %v", out.Blocked)
	case "horizon":
		return fail("does-not-terminate", "blocked: %v", out.Blocked)
	}
	if errs[1] != nil {
		return fail("second-join-fails-although-self-presence-arrived", "Join returned %v", errs[1])
	}
	return res
}
