package c18

import (
	"context"
	"errors"
	"fmt"
	"strings"

	"mellium.im/xmpp/muc"
	"mellium.im/xmpp/mux"
	"mellium.im/xmpp/stanza"

	"verif/nd"
	"verif/vs"
	"verif/vsess"
)

// leaveTwiceBody: a Leave that the room refuses (or that the application gives
// up) leaves the occupant in the room: a second Leave, answered by the
// unavailable presence, must succeed.
func leaveTwiceBody(c *nd.Ctx) nd.Result {
	first := []string{"refused", "abandoned"}[c.Choose(2, "first-leave")]
	ns := stanza.NSClient
	var env *vsess.Env
	var setupErr, joinErr, leave1Err, leave2Err error
	leaves := 0
	out := vs.Run(c, vs.Options{Horizon: 60000, Canonical: quickTier}, func() {
		env, setupErr = vsess.New(ns, 0)
		if setupErr != nil {
			return
		}
		client := &muc.Client{}
		var seen strings.Builder
		answered := map[string]bool{}
		ctx1, cancel1 := context.WithCancel(context.Background())
		defer cancel1()
		env.Lib.OnWrite = func(p []byte) {
			seen.Write(p)
			for _, el := range vsess.TopLevel(ns, seen.String()) {
				id := el.Attr("id")
				if el.Start.Name.Local != "presence" || answered[id] {
					continue
				}
				answered[id] = true
				switch {
				case el.Attr("type") == "":
					env.PeerWrite(selfPresence("", el.Attr("to"), ""))
				case el.Attr("type") == "unavailable":
					leaves++
					switch {
					case leaves == 1 && first == "refused":
						env.PeerWrite(fmt.Sprintf(`<presence from='%s' type='error' id='%s'><error type='cancel'><not-acceptable xmlns='urn:ietf:params:xml:ns:xmpp-stanzas'/></error></presence>`, el.Attr("to"), id))
					case leaves == 1:
						cancel1() // no answer: the application gives up
					default:
						env.PeerWrite(selfPresence("unavailable", el.Attr("to"), ""))
					}
				}
			}
		}
		env.Serve(mux.New(ns, muc.HandleClient(client)))
		vs.SetCanonical(true)
		var ch *muc.Channel
		ch, joinErr = client.Join(context.Background(), room, env.S)
		vs.SetCanonical(quickTier)
		if joinErr == nil {
			leave1Err = ch.Leave(ctx1, "bye")
			leave2Err = ch.Leave(context.Background(), "bye again")
		}
		env.PeerWrite(`</stream:stream>`)
		vsess.Wait("serve-done", func() bool { return env.ServeDone })
	})
	if setupErr != nil {
		panic(setupErr)
	}
	desc := fmt.Sprintf("join, Leave (%s), Leave again (answered by the unavailable presence)", first)
	c.Note("%s outcome=%s", desc, out.Kind)
	for _, t := range out.Trace {
		c.Note("  %s", t)
	}
	res := nd.Result{Outcome: out.Kind, NonTrivial: desc + fmt.Sprint(c.Vector())}
	fail := func(sig, f string, a ...any) nd.Result {
		res.Violation = &nd.Violation{Sig: "leave-twice:" + sig, Msg: desc + fmt.Sprintf(" [join %v first leave %v second leave %v]: ", joinErr, leave1Err, leave2Err) + fmt.Sprintf(f, a...)}
		return res
	}
	switch out.Kind {
	case "panic":
		return fail(out.Panic.Sig(), "panic in thread %s: %s\n%s", out.PanicIn, out.Panic.Value, out.Panic.Stack)
	case "deadlock":
		return fail("second-leave-never-returns-although-unavailable-presence-arrived", "blocked threads: %v", out.Blocked)
	case "horizon":
		return fail("does-not-terminate", "blocked: %v", out.Blocked)
	}
	if joinErr != nil {
		return fail("setup-failed", "join %v", joinErr)
	}
	var se stanza.Error
	if first == "refused" && !errors.As(leave1Err, &se) {
		return fail("first-leave-result", "the room refused the Leave, it returned %v", leave1Err)
	}
	if first == "abandoned" && !errors.Is(leave1Err, context.Canceled) {
		return fail("first-leave-result", "the Leave was given up, it returned %v", leave1Err)
	}
	if leave2Err != nil {
		return fail("second-leave-fails-although-unavailable-presence-arrived", "Leave returned %v", leave2Err)
	}
	return res
}

// twoSessionsBody: one Client serves two sessions (eg. before and after a
// reconnect). A Join names the session it is for: its request goes out on that
// session and is answered there.
func twoSessionsBody(c *nd.Ctx) nd.Result {
	firstClosed := c.Choose(2, "first-session-closed-before-the-second-join") == 1
	ns := stanza.NSClient
	var envs [2]*vsess.Env
	var setupErr error
	var joinErrs [2]error
	out := vs.Run(c, vs.Options{Horizon: 60000, Canonical: true}, func() {
		client := &muc.Client{}
		for i := range envs {
			env, err := vsess.New(ns, 0)
			if err != nil {
				setupErr = err
				return
			}
			envs[i] = env
			var seen strings.Builder
			answered := map[string]bool{}
			env.Lib.OnWrite = func(p []byte) {
				seen.Write(p)
				for _, el := range vsess.TopLevel(ns, seen.String()) {
					id := el.Attr("id")
					if el.Start.Name.Local != "presence" || answered[id] || el.Attr("type") != "" {
						continue
					}
					answered[id] = true
					env.PeerWrite(selfPresence("", el.Attr("to"), ""))
				}
			}
			env.Serve(mux.New(ns, muc.HandleClient(client)))
		}
		_, joinErrs[0] = client.Join(context.Background(), room, envs[0].S)
		if firstClosed {
			envs[0].PeerWrite(`</stream:stream>`)
			vsess.Wait("first-serve-done", func() bool { return envs[0].ServeDone })
		}
		_, joinErrs[1] = client.Join(context.Background(), room, envs[1].S)
		for i, env := range envs {
			if i == 0 && firstClosed {
				continue
			}
			env.PeerWrite(`</stream:stream>`)
			env := env
			vsess.Wait("serve-done", func() bool { return env.ServeDone })
		}
	})
	if setupErr != nil {
		panic(setupErr)
	}
	desc := fmt.Sprintf("one muc.Client, two sessions: Join on the first, (first closed: %v), Join of the same room on the second", firstClosed)
	c.Note("%s outcome=%s", desc, out.Kind)
	res := nd.Result{Outcome: out.Kind, NonTrivial: desc}
	fail := func(sig, f string, a ...any) nd.Result {
		res.Violation = &nd.Violation{Sig: "two-sessions:" + sig, Msg: desc + fmt.Sprintf(" [join errors %v / %v]: ", joinErrs[0], joinErrs[1]) + fmt.Sprintf(f, a...)}
		return res
	}
	switch out.Kind {
	case "panic":
		return fail(out.Panic.Sig(), "panic in thread %s: %s\n%s", out.PanicIn, out.Panic.Value, out.Panic.Stack)
	case "deadlock":
		return fail("second-join-never-returns", "blocked threads: %v", out.Blocked)
	case "horizon":
		return fail("does-not-terminate", "blocked: %v", out.Blocked)
	}
	if joinErrs[0] != nil {
		return fail("setup-failed", "first join %v", joinErrs[0])
	}
	if joinErrs[1] != nil {
		return fail("second-join-fails-although-self-presence-arrived", "Join returned %v", joinErrs[1])
	}
	n1 := strings.Count(string(envs[0].Lib.Written()), "<presence")
	n2 := strings.Count(string(envs[1].Lib.Written()), "<presence")
	if n1 != 1 || n2 != 1 {
		return fail("join-request-on-the-wrong-session", "the first session carried %d join requests, the second %d (one each was asked for)", n1, n2)
	}
	return res
}
