package c18

import (
	"context"
	"encoding/xml"
	"errors"
	"fmt"
	"strings"

	"mellium.im/xmlstream"
	"mellium.im/xmpp/muc"
	"mellium.im/xmpp/mux"
	"mellium.im/xmpp/stanza"

	"verif/nd"
	"verif/vs"
	"verif/vsess"
)

var kickPlans = []string{"leave-answered", "leave-unanswered-then-cancelled", "kicked-again-then-presence", "first-join-refused-then-rejoin", "first-join-cancelled-then-rejoin"}

func sentinelMsg(id string) string {
	return fmt.Sprintf(`<message id='%s' from='someone@example.net/x' to='me@example.net/res'><body>x</body></message>`, id)
}

// kickBody: membership ended by the room (an unavailable presence nobody asked
// for), then the application joins the same channel again (with or without a
// Nick option) and either leaves or is removed a second time. What was left
// behind by the first removal must not leak into the second membership.
func kickBody(c *nd.Ctx) nd.Result {
	plan := kickPlans[c.Choose(len(kickPlans), "after-the-rejoin")]
	nick := []string{"no-option", "same-nick-option", "new-nick-option"}[c.Choose(3, "rejoin-nick")]
	unavailableShape = c.Choose(2, "unavailable-presences-carry-status-codes-and-nick")
	defer func() { unavailableShape = 0 }()
	ns := stanza.NSClient
	var env *vsess.Env
	var setupErr, joinErr, rejoinErr, leaveErr error
	leaveStarted, leaveReturned, leaveCancelled := false, false, false
	userPresences, userBefore, userAfter := 0, -1, -1
	firstFailed, rejoined := false, false
	var cancelFirst context.CancelFunc
	me := room.String()
	if nick == "new-nick-option" {
		me = "room@conf.example.net/me2"
	}
	out := vs.Run(c, vs.Options{Horizon: 60000, Canonical: quickTier}, func() {
		env, setupErr = vsess.New(ns, 0)
		if setupErr != nil {
			return
		}
		client := &muc.Client{HandleUserPresence: func(p stanza.Presence, i muc.Item) { userPresences++ }}
		seenSentinel := map[string]bool{}
		sentinel := func(m stanza.Message, t xmlstream.TokenReadEncoder) error {
			// published as one step: the application acts on what the serve loop did before it
			vs.Atomically(func() { seenSentinel[m.ID] = true })
			return nil
		}
		var seen strings.Builder
		answered := map[string]bool{}
		env.Lib.OnWrite = func(p []byte) {
			seen.Write(p)
			for _, el := range vsess.TopLevel(ns, seen.String()) {
				id := el.Attr("id")
				if el.Start.Name.Local != "presence" || answered[id] {
					continue
				}
				answered[id] = true
				switch {
				case el.Attr("type") == "" && len(answered) == 1 && plan == "first-join-refused-then-rejoin":
					env.PeerWrite(fmt.Sprintf(`<presence from='%s' type='error' id='%s'><error type='cancel'><conflict xmlns='urn:ietf:params:xml:ns:xmpp-stanzas'/></error></presence>`, el.Attr("to"), id))
				case el.Attr("type") == "" && len(answered) == 1 && plan == "first-join-cancelled-then-rejoin":
					// no answer: the application gives up
					cancelFirst()
				case el.Attr("type") == "":
					env.PeerWrite(selfPresence("", el.Attr("to"), ""))
				case el.Attr("type") == "unavailable" && plan == "leave-answered":
					env.PeerWrite(selfPresence("unavailable", el.Attr("to"), ""))
				}
			}
		}
		env.Serve(mux.New(ns, muc.HandleClient(client), mux.MessageFunc("", xml.Name{}, sentinel), mux.MessageFunc(stanza.NormalMessage, xml.Name{}, sentinel)))
		ctx := context.Background()
		ctxFirst, cf := context.WithCancel(ctx)
		cancelFirst = cf
		defer cf()
		ctxL, cancelL := context.WithCancel(ctx)
		defer cancelL()
		vs.GoNamed("canceller", false, func() {
			if plan != "leave-unanswered-then-cancelled" {
				return
			}
			vs.Block("leave-started", func() bool { return leaveStarted })
			vs.Yield("cancel-leave")
			if !leaveReturned {
				leaveCancelled = true
			}
			cancelL()
		})
		// set-up: join, then the room removes us
		vs.SetCanonical(true)
		var ch *muc.Channel
		ch, joinErr = client.Join(ctxFirst, room, env.S)
		if plan == "first-join-refused-then-rejoin" || plan == "first-join-cancelled-then-rejoin" {
			// the first join fails (refused by the room / given up); a later join
			// of the same channel must work like a first one
			firstFailed = joinErr != nil
			joinErr = nil
			vs.SetCanonical(quickTier)
			if firstFailed && ch != nil {
				switch nick {
				case "no-option":
					rejoinErr = ch.Join(ctx)
				case "same-nick-option":
					rejoinErr = ch.Join(ctx, muc.Nick("me"))
				default:
					rejoinErr = ch.Join(ctx, muc.Nick("me2"))
				}
				rejoined = true
			}
			vs.Atomically(func() { leaveStarted = true })
			env.PeerWrite(`</stream:stream>`)
			vsess.Wait("serve-done", func() bool { return env.ServeDone })
			return
		}
		if joinErr != nil {
			vs.SetCanonical(quickTier)
			vs.Atomically(func() { leaveStarted = true })
			return
		}
		env.PeerWrite(selfPresence("unavailable", room.String(), "") + sentinelMsg("k1"))
		vsess.Wait("first-removal-processed", func() bool { return seenSentinel["k1"] })
		vs.SetCanonical(quickTier)
		// explored from here (thorough tier; the quick tier runs the one canonical schedule per history)
		switch nick {
		case "no-option":
			rejoinErr = ch.Join(ctx)
		case "same-nick-option":
			rejoinErr = ch.Join(ctx, muc.Nick("me"))
		default:
			rejoinErr = ch.Join(ctx, muc.Nick("me2"))
		}
		if rejoinErr == nil {
			switch plan {
			case "kicked-again-then-presence":
				env.PeerWrite(selfPresence("unavailable", me, "") + sentinelMsg("k2"))
				vsess.Wait("second-removal-processed", func() bool { return seenSentinel["k2"] })
				userBefore = userPresences
				env.PeerWrite(selfPresence("", me, "") + sentinelMsg("k3"))
				vsess.Wait("late-presence-processed", func() bool { return seenSentinel["k3"] })
				userAfter = userPresences
			default:
				vs.Atomically(func() { leaveStarted = true })
				leaveErr = ch.Leave(ctxL, "bye")
				leaveReturned = true
			}
		}
		vs.Atomically(func() { leaveStarted = true })
		env.PeerWrite(`</stream:stream>`)
		vsess.Wait("serve-done", func() bool { return env.ServeDone })
	})
	if setupErr != nil {
		panic(setupErr)
	}
	desc := fmt.Sprintf("join, removed by the room, rejoin (%s), then %s", nick, plan)
	c.Note("%s outcome=%s", desc, out.Kind)
	for _, t := range out.Trace {
		c.Note("  %s", t)
	}
	res := nd.Result{Outcome: fmt.Sprintf("%s rejoin-err=%v leave-err=%v cancelled=%v", out.Kind, rejoinErr != nil, leaveErr != nil, leaveCancelled), NonTrivial: desc + fmt.Sprint(c.Vector())}
	fail := func(sig, f string, a ...any) nd.Result {
		res.Violation = &nd.Violation{Sig: "kick:" + sig, Msg: desc + fmt.Sprintf(" [join %v rejoin %v leave %v cancelled=%v]: ", joinErr, rejoinErr, leaveErr, leaveCancelled) + fmt.Sprintf(f, a...)}
		return res
	}
	switch out.Kind {
	case "panic":
		return fail(out.Panic.Sig(), "panic in thread %s: %s\n%s", out.PanicIn, out.Panic.Value, out.Panic.Stack)
	case "deadlock":
		if firstFailed && !rejoined {
			return fail("rejoin-after-failed-join-never-returns:"+nick, "blocked threads: %v", out.Blocked)
		}
		return fail("deadlock:"+nick, "blocked threads: %v", out.Blocked)
	case "horizon":
		return fail("does-not-terminate", "blocked: %v", out.Blocked)
	}
	if joinErr != nil {
		return fail("setup-failed", "join %v", joinErr)
	}
	if plan == "first-join-refused-then-rejoin" || plan == "first-join-cancelled-then-rejoin" {
		if !firstFailed || !rejoined {
			return fail("setup-failed", "the first join did not fail as scripted (failed=%v)", firstFailed)
		}
		if rejoinErr != nil {
			return fail("rejoin-after-failed-join-fails-although-self-presence-arrived:"+nick, "Join returned %v", rejoinErr)
		}
		return res
	}
	if rejoinErr != nil {
		return fail("rejoin-fails-although-self-presence-arrived:"+nick, "Join returned %v", rejoinErr)
	}
	switch plan {
	case "leave-answered":
		if leaveErr != nil {
			return fail("leave-fails-although-unavailable-presence-arrived", "Leave returned %v", leaveErr)
		}
	case "leave-unanswered-then-cancelled":
		switch {
		case leaveErr == nil:
			return fail("leave-succeeds-without-unavailable-presence", "Leave returned nil although the room never answered it (the only unavailable presence belonged to the earlier membership)")
		case !errors.Is(leaveErr, context.Canceled) || !leaveCancelled:
			return fail("leave-unexpected-error", "Leave returned %v", leaveErr)
		}
	case "kicked-again-then-presence":
		if userAfter != userBefore {
			return fail("presence-after-removal-not-ignored", "a presence for the room arrived after the occupant had been removed and reached HandleUserPresence (%d -> %d calls)", userBefore, userAfter)
		}
	}
	return res
}
