// Package c11: JIDs are canonical.
package c11

import (
	"encoding/xml"
	"fmt"
	"strings"
	"time"
	"unicode/utf8"

	"mellium.im/xmpp/jid"

	"verif/drv"
	"verif/nd"
)

// refSplit: first '/', then first '@' of what is left.
func refSplit(s string) (l, d, r string, hasAt, hasSlash bool) {
	if i := strings.IndexByte(s, '/'); i >= 0 {
		r = s[i+1:]
		s = s[:i]
		hasSlash = true
	}
	if i := strings.IndexByte(s, '@'); i >= 0 {
		l = s[:i]
		s = s[i+1:]
		hasAt = true
	}
	return l, s, r, hasAt, hasSlash
}

func join(l, d, r string) string {
	s := d
	if l != "" {
		s = l + "@" + s
	}
	if r != "" {
		s += "/" + r
	}
	return s
}

func viol(sig, format string, a ...any) *nd.Violation {
	return &nd.Violation{Sig: sig, Msg: fmt.Sprintf(format, a...)}
}

// class gives a coarse input class for signatures, from the string that was
// handed to the constructor.
func class(in string) string {
	switch {
	case strings.Contains(in, "..") || strings.Contains(in, "。") || strings.Contains(in, "．") || strings.Contains(in, "｡"):
		return "dots"
	case strings.ContainsAny(in, "＠／"):
		return "fullwidth-separator"
	case strings.Contains(in, "‍") || strings.Contains(in, "́"):
		return "joiner-or-combining"
	case strings.Contains(strings.ToLower(in), "xn--"):
		return "a-label"
	case strings.ContainsAny(in, "[]:"):
		return "ip-literal"
	}
	return "other"
}

type attrDoc struct {
	XMLName xml.Name `xml:"x"`
	J       jid.JID  `xml:"j,attr"`
}
type elemDoc struct {
	XMLName xml.Name `xml:"x"`
	J       jid.JID  `xml:"j"`
}

// checkJID applies the canonical-form laws to an address the package returned
// without error. how describes the call that produced it.
func checkJID(j jid.JID, how, in string) *nd.Violation {
	var v *nd.Violation
	if p := nd.Catch(func() { v = checkJID1(j, how, in) }); p != nil {
		return viol("accessors:"+p.Sig(), "%s: %s", how, p.Value)
	}
	return v
}

func checkJID1(j jid.JID, how, in string) *nd.Violation {
	l, d, r := j.Localpart(), j.Domainpart(), j.Resourcepart()
	s := j.String()
	cl := class(in)
	if !utf8.ValidString(l) || !utf8.ValidString(d) || !utf8.ValidString(r) {
		return viol("parts:invalid-utf8", "%s returned parts %q %q %q", how, l, d, r)
	}
	if len(l) > 1023 || len(r) > 1023 || len(d) > 1023 {
		return viol("parts:too-long", "%s returned parts of length %d %d %d", how, len(l), len(d), len(r))
	}
	if d == "" {
		return viol("parts:empty-domain", "%s returned an empty domainpart (string form %q)", how, s)
	}
	if strings.ContainsAny(l, `"&'/:<>@`) {
		return viol("parts:forbidden-localpart-char", "%s returned localpart %q", how, l)
	}
	if s != join(l, d, r) {
		return viol("string:disagrees-with-parts", "%s: String()=%q parts %q %q %q", how, s, l, d, r)
	}
	b := j.Bare()
	if b.Localpart() != l || b.Domainpart() != d || b.Resourcepart() != "" || b.String() != join(l, d, "") {
		return viol("bare:disagrees", "%s: Bare()=%q of %q", how, b.String(), s)
	}
	dm := j.Domain()
	if dm.Localpart() != "" || dm.Domainpart() != d || dm.Resourcepart() != "" || dm.String() != d {
		return viol("domain:disagrees", "%s: Domain()=%q of %q", how, dm.String(), s)
	}
	if !j.Equal(j) || !j.Equal(j.Copy()) || j.Equal(b) != (r == "") || j.Equal(dm) != (r == "" && l == "") {
		return viol("equal:inconsistent", "%s: Equal inconsistent for %q", how, s)
	}
	// canonical: parsing the string form yields an equal address
	j2, err := jid.Parse(s)
	if err != nil {
		return viol("canonical:string-form-does-not-parse:"+cl, "%s = %q (parts %q %q %q) but Parse of that fails: %v", how, s, l, d, r, err)
	}
	if !j2.Equal(j) || j2.String() != s {
		return viol("canonical:reparse-differs:"+cl, "%s = %q (parts %q %q %q) but Parse(%q) = %q (parts %q %q %q)", how, s, l, d, r, s, j2.String(), j2.Localpart(), j2.Domainpart(), j2.Resourcepart())
	}
	// rebuilding from its own parts is the identity
	j3, err := jid.New(l, d, r)
	if err != nil || !j3.Equal(j) {
		return viol("canonical:new-of-parts-differs:"+cl, "%s = %q but New(%q,%q,%q) = %q, %v", how, s, l, d, r, j3.String(), err)
	}
	// XML encodings round-trip
	ab, err := xml.Marshal(attrDoc{J: j})
	if err != nil {
		return viol("xml:attr-marshal-error", "%s: %v", how, err)
	}
	var ad attrDoc
	if err := xml.Unmarshal(ab, &ad); err != nil || !ad.J.Equal(j) {
		return viol("xml:attr-roundtrip", "%s = %q: attr encoding %s decodes to %q, %v", how, s, ab, ad.J.String(), err)
	}
	eb, err := xml.Marshal(elemDoc{J: j})
	if err != nil {
		return viol("xml:elem-marshal-error", "%s: %v", how, err)
	}
	var ed elemDoc
	if err := xml.Unmarshal(eb, &ed); err != nil || !ed.J.Equal(j) {
		return viol("xml:elem-roundtrip", "%s = %q: element encoding %s decodes to %q, %v", how, s, eb, ed.J.String(), err)
	}
	return nil
}

var alphabet = []string{"a", "A", "ß", "ǅ", "ſ", "ａ", "é", "é", "‍", "@", "＠", "/", "／", ".", "。", "-", "xn--", "Xn--4ca", "[", "]", ":", "1", "'", "&", "<", " ", " ", "\xff", "\u00ad"}

func parseBody(maxLen int) nd.Body {
	return func(c *nd.Ctx) nd.Result {
		n := c.Choose(maxLen+1, "len")
		var sb strings.Builder
		for i := 0; i < n; i++ {
			sb.WriteString(alphabet[c.Choose(len(alphabet), "sym")])
		}
		s := sb.String()
		c.Note("Parse(%q)", s)
		res := nd.Result{Outcome: "rejected"}
		// splitting law (holds for accepted and rejected strings alike)
		var sl, sd, sr string
		var serr error
		if p := nd.Catch(func() { sl, sd, sr, serr = jid.SplitString(s) }); p != nil {
			res.Violation = viol("split:"+p.Sig(), "SplitString(%q) panics: %s", s, p.Value)
			return res
		}
		rl, rd, rr, hasAt, hasSlash := refSplit(s)
		wantErr := (hasSlash && rr == "") || (hasAt && rl == "")
		if wantErr != (serr != nil) || (serr == nil && (sl != rl || sd != rd || sr != rr)) {
			res.Violation = viol("split:differs-from-reference", "SplitString(%q) = %q,%q,%q,%v; reference %q,%q,%q err=%v", s, sl, sd, sr, serr, rl, rd, rr, wantErr)
			return res
		}
		var j jid.JID
		var err error
		if p := nd.Catch(func() { j, err = jid.Parse(s) }); p != nil {
			res.Violation = viol("parse:"+p.Sig(), "Parse(%q) panics: %s", s, p.Value)
			return res
		}
		if err != nil {
			if serr == nil {
				// New on the split parts must agree with Parse
				if _, e2 := jid.New(sl, sd, sr); e2 == nil {
					res.Violation = viol("parse:disagrees-with-new", "Parse(%q) fails (%v) but New(%q,%q,%q) succeeds", s, err, sl, sd, sr)
				}
			}
			return res
		}
		res.Outcome = "accepted"
		if j.String() != s {
			res.Outcome = "accepted-normalised"
			res.NonTrivial = s
		}
		jn, e2 := jid.New(sl, sd, sr)
		if e2 != nil || !jn.Equal(j) {
			res.Violation = viol("parse:disagrees-with-new", "Parse(%q) = %q but New(%q,%q,%q) = %q,%v", s, j.String(), sl, sd, sr, jn.String(), e2)
			return res
		}
		res.Violation = checkJID(j, fmt.Sprintf("Parse(%q)", s), s)
		if u, err := jid.ParseUnsafe(s); err != nil || u.Localpart() != rl || u.Domainpart() != rd || u.Resourcepart() != rr {
			res.Violation = viol("unsafe:split-differs", "ParseUnsafe(%q) = %q,%q,%q,%v", s, u.Localpart(), u.Domainpart(), u.Resourcepart(), err)
		}
		return res
	}
}

var long1023 = strings.Repeat("a", 1023)
var long1024 = strings.Repeat("a", 1024)
var longDom = strings.Repeat("a.", 511) + "a"   // 1023 bytes
var longDom2 = strings.Repeat("a.", 511) + "aa" // 1024 bytes

var expandLocal = strings.Repeat("Ⱥ", 511) // 1022 bytes, lower-cases to 1533 bytes
var expandDomain = strings.TrimSuffix(strings.Repeat("xn--wgv"+strings.Repeat("a", 56)+".", 15), ".") // 959 bytes of A-labels, > 1023 bytes as U-labels

var localPool = []string{expandLocal, "\u00ad", "", "a", "A", "a\tb", "\x1b", "ß", "ǅ", "ａ", "é", "a@b", "＠", "a/b", "a b", "a'", "a‍", "\xff", long1023, long1024, "ſ", "1"}
var domainPool = []string{expandDomain, "\u00ad", "a\u00ad", "\u200b", "", "a", "A.b", "example.com", "example.com.", "example.com..", "EXAMPLE。com", "a。", "xn--bcher-kva.example", "XN--BCHER-KVA.example", "Xn--Bcher-Kva.EXAMPLE", "xn--a", "xn--", "bücher.example", "[::1]", "[::A]", "[::1", "[fe80::1%eth0]", "[fe80::1%eth0/1]", "[fe80::1%a@b]", "127.0.0.1", "127.0.0.1.", "1.2.3", "a@b", "a/b", "a／b", "a＠b", "-a", "a-", "a b", "a‍b", ".", "..", "\xff", longDom, longDom2, "ß.example", "ǅ.example", "ａ.example", "[127.0.0.1]", "a_b",
	"\u03b2\u03cc\u03bb\u03bf\u03c2.example", "\u03b2\u03cc\u03bb\u03bf\u03c3.example"} // final and medial sigma: equal under simple case folding, distinct domains under non-transitional IDNA
var resPool = []string{"", "a", "A", "a/b", "a@b", "/", "@", " ", "a\tb", "a\nb", "a\x00", "\x7f", "a b", "a b", "ａ", "é", "it's<&>\"", "\xff", long1023, long1024, "‍", "ß"}

// pairsBody: Equal on pairs of addresses agrees with the part accessors. The
// pools are chosen so that many pairs have identical concatenated bytes with
// different part boundaries (a@b/c and a@bc, example.net/org and
// example.netorg, ab and a@b ...).
var pairLocals = []string{"", "a", "ab", "example"}
var pairDomains = []string{"b", "bc", "ab", "example.net", "example.netorg", "net"}
var pairResources = []string{"", "c", "org", "bc", "net"}

func pairsBody(c *nd.Ctx) nd.Result {
	var js [2]jid.JID
	var parts [2][3]string
	for i := range js {
		l := pairLocals[c.Choose(len(pairLocals), "local")]
		d := pairDomains[c.Choose(len(pairDomains), "domain")]
		r := pairResources[c.Choose(len(pairResources), "resource")]
		j, err := jid.New(l, d, r)
		if err != nil {
			panic(fmt.Sprintf("c11: pair pool entry %q %q %q is not a valid address: %v", l, d, r, err))
		}
		js[i] = j
		parts[i] = [3]string{j.Localpart(), j.Domainpart(), j.Resourcepart()}
	}
	desc := fmt.Sprintf("%q vs %q", js[0].String(), js[1].String())
	c.Note("%s", desc)
	res := nd.Result{Outcome: "pair", NonTrivial: desc}
	want := parts[0] == parts[1]
	if got := js[0].Equal(js[1]); got != want || js[1].Equal(js[0]) != want {
		res.Violation = viol("equal:disagrees-with-parts", "%s: Equal reports %v / %v, the part accessors say %v (parts %q and %q)", desc, got, js[1].Equal(js[0]), want, parts[0], parts[1])
		return res
	}
	if (js[0].String() == js[1].String()) != want {
		res.Violation = viol("equal:string-forms", "%s: string forms equal=%v, parts equal=%v", desc, js[0].String() == js[1].String(), want)
	}
	return res
}

func partsBody(c *nd.Ctx) (res nd.Result) {
	l := localPool[c.Choose(len(localPool), "local")]
	d := domainPool[c.Choose(len(domainPool), "domain")]
	r := resPool[c.Choose(len(resPool), "resource")]
	in := join(l, d, r)
	how := fmt.Sprintf("New(%s,%s,%s)", ab(l), ab(d), ab(r))
	c.Note("%s", how)
	res = nd.Result{Outcome: "rejected"}
	var j jid.JID
	var err error
	if p := nd.Catch(func() { j, err = jid.New(l, d, r) }); p != nil {
		res.Violation = viol("new:"+p.Sig(), "%s panics: %s", how, p.Value)
		return res
	}
	// Parse of the assembled string agrees when it re-splits to the same parts
	rl, rd, rr, _, _ := refSplit(in)
	if rl == l && rd == d && rr == r {
		jp, perr := jid.Parse(in)
		if (perr == nil) != (err == nil) || (err == nil && !jp.Equal(j)) {
			res.Violation = viol("new:disagrees-with-parse", "%s = %q,%v but Parse(%s) = %q,%v", how, j.String(), err, ab(in), jp.String(), perr)
			return res
		}
	}
	if err != nil {
		return res
	}
	res.Outcome = "accepted"
	res.NonTrivial = how
	if v := checkJID(j, how, in); v != nil {
		res.Violation = v
		return res
	}
	// values are immutable: whatever is derived from an address later, the
	// address and everything derived from it earlier keep their value
	type kept struct {
		j    jid.JID
		s    string
		what string
	}
	keep := []kept{{j, j.String(), how}}
	remember := func(v jid.JID, what string) { keep = append(keep, kept{v, v.String(), what}) }
	defer func() {
		if res.Violation != nil {
			return
		}
		for _, k := range keep {
			if k.j.String() != k.s {
				res.Violation = viol("with:changes-an-earlier-value", "%s was %s and reads %s after later calls on values derived from the same address", k.what, ab(k.s), ab(k.j.String()))
				return
			}
		}
	}()
	if p := nd.Catch(func() {
		b, dm := j.Bare(), j.Domain()
		remember(b, how+".Bare()")
		remember(dm, how+".Domain()")
		for _, nr := range []string{"bobby", "zo\u00e9", "x"} {
			if v, err := b.WithResource(nr); err == nil {
				remember(v, how+".Bare().WithResource("+nr+")")
			}
			if v, err := dm.WithResource(nr); err == nil {
				remember(v, how+".Domain().WithResource("+nr+")")
			}
		}
		for _, nl := range []string{"carol", "\uff43"} {
			if v, err := dm.WithLocal(nl); err == nil {
				remember(v, how+".Domain().WithLocal("+nl+")")
			}
		}
	}); p != nil {
		res.Violation = viol("with:"+p.Sig(), "%s: deriving from Bare()/Domain() panics: %s", how, p.Value)
		return res
	}
	// replacing one part agrees with building from parts
	x := c.Choose(3, "which-part")
	switch x {
	case 0:
		for _, nl := range localPool {
			var jw, jn jid.JID
			var ew, en error
			if p := nd.Catch(func() { jw, ew = j.WithLocal(nl); jn, en = jid.New(nl, j.Domainpart(), j.Resourcepart()) }); p != nil {
				res.Violation = viol("with-local:"+p.Sig(), "%s .WithLocal(%s) panics: %s", how, ab(nl), p.Value)
				return res
			}
			if (ew == nil) != (en == nil) || (ew == nil && !jw.Equal(jn)) {
				res.Violation = viol("with-local:disagrees-with-new", "%s .WithLocal(%s) = %s,%v but New = %s,%v", how, ab(nl), ab(jw.String()), ew, ab(jn.String()), en)
				return res
			}
			if ew == nil {
				if v := checkJID(jw, how+".WithLocal("+ab(nl)+")", join(nl, d, r)); v != nil {
					res.Violation = v
					return res
				}
			}
		}
	case 1:
		for _, ndm := range domainPool {
			var jw, jn jid.JID
			var ew, en error
			if p := nd.Catch(func() { jw, ew = j.WithDomain(ndm); jn, en = jid.New(j.Localpart(), ndm, j.Resourcepart()) }); p != nil {
				res.Violation = viol("with-domain:"+p.Sig(), "%s .WithDomain(%s) panics: %s", how, ab(ndm), p.Value)
				return res
			}
			if (ew == nil) != (en == nil) || (ew == nil && !jw.Equal(jn)) {
				res.Violation = viol("with-domain:disagrees-with-new", "%s .WithDomain(%s) = %s,%v but New = %s,%v", how, ab(ndm), ab(jw.String()), ew, ab(jn.String()), en)
				return res
			}
			if ew == nil {
				if v := checkJID(jw, how+".WithDomain("+ab(ndm)+")", join(l, ndm, r)); v != nil {
					res.Violation = v
					return res
				}
			}
		}
	case 2:
		for _, nr := range resPool {
			var jw, jn jid.JID
			var ew, en error
			if p := nd.Catch(func() { jw, ew = j.WithResource(nr); jn, en = jid.New(j.Localpart(), j.Domainpart(), nr) }); p != nil {
				res.Violation = viol("with-resource:"+p.Sig(), "%s .WithResource(%s) panics: %s", how, ab(nr), p.Value)
				return res
			}
			if (ew == nil) != (en == nil) || (ew == nil && !jw.Equal(jn)) {
				res.Violation = viol("with-resource:disagrees-with-new", "%s .WithResource(%s) = %s,%v but New = %s,%v", how, ab(nr), ab(jw.String()), ew, ab(jn.String()), en)
				return res
			}
			if ew == nil {
				if v := checkJID(jw, how+".WithResource("+ab(nr)+")", join(l, d, nr)); v != nil {
					res.Violation = v
					return res
				}
			}
		}
	}
	// the original must be untouched by WithX (no aliasing of its buffer)
	if j.String() != join(j.Localpart(), j.Domainpart(), j.Resourcepart()) {
		res.Violation = viol("with:aliases-receiver", "%s changed after WithX calls: %q", how, j.String())
	}
	return res
}

func ab(s string) string {
	if len(s) > 40 {
		return fmt.Sprintf("%q…(%d bytes)", s[:12], len(s))
	}
	return fmt.Sprintf("%q", s)
}

func init() {
	drv.Register(&drv.Prop{
		ID:    "C11",
		Level: "exploration",
		Rule: "Parse/SplitString/ParseUnsafe on every string over a 29-symbol alphabet (ASCII, case/width variants, combining marks, ZWJ, both separators and their fullwidth forms, dots, xn--, brackets, invalid UTF-8) up to the tier's length; New and WithLocal/WithDomain/WithResource on the full cross product of part pools (incl. 1023/1024-byte parts, IP literals, A-labels, trailing dots); " +
			"every returned address is checked for canonical form (re-parse equality), part rules, accessor consistency and XML attr/element round trip. Non-trivial = distinct accepted input that the package normalised (string form differs from input) or a distinct accepted parts triple.",
		Assumptions: []string{"Unicode outside the alphabet and pools is not covered", "encoding/xml is the XML judge"},
		Parts: func(tier string) []drv.Part {
			l, budget := 5, 100*time.Second
			if tier == "thorough" {
				l, budget = 6, 25*time.Minute
			}
			return []drv.Part{
				{Name: "parse", Desc: fmt.Sprintf("all strings of length <= %d symbols", l), Body: parseBody(l), CutDepth: 3, Budget: budget},
				{Name: "parts", Desc: "cross product of part pools through New and WithX", Body: partsBody, CutDepth: 2, Budget: budget},
				{Name: "pairs", Desc: "Equal on every pair of 120 addresses, many with identical bytes and different part boundaries", Body: pairsBody, CutDepth: 3, Budget: budget},
			}
		},
	})
}
