// Package c01: stream features are negotiated only when allowed, in order, at most once.
package c01

import (
	"context"
	"encoding/xml"
	"fmt"
	"io"
	"sort"
	"strings"
	"time"

	"mellium.im/xmlstream"
	"mellium.im/xmpp"
	"mellium.im/xmpp/jid"
	"mellium.im/xmpp/stanza"
	"mellium.im/xmpp/websocket"

	"verif/drv"
	"verif/nd"
	"verif/sess"
	"verif/vs"
)

const streamNS = "http://etherx.jabber.org/streams"
const tlsNS = "urn:ietf:params:xml:ns:xmpp-tls"

type arch struct {
	name       string
	ns         string
	necessary  xmpp.SessionState
	prohibited xmpp.SessionState
	mandatory  bool
	restart    bool
	negotiable bool
	mask       xmpp.SessionState
	fail       bool
}

var archs = []arch{
	{name: "T", ns: tlsNS, prohibited: xmpp.Secure, mandatory: true, restart: true, negotiable: true, mask: xmpp.Secure},
	{name: "A", ns: "urn:a", necessary: xmpp.Secure, prohibited: xmpp.Authn, mandatory: true, restart: true, negotiable: true, mask: xmpp.Authn},
	{name: "B", ns: "urn:b", necessary: xmpp.Authn, prohibited: xmpp.Ready, mandatory: true, negotiable: true, mask: xmpp.Ready},
	{name: "V", ns: "urn:v", negotiable: true},
	{name: "VR", ns: "urn:vr", restart: true, negotiable: true},
	{name: "I", ns: "urn:i"},
	{name: "VM", ns: "urn:vm", negotiable: true, mask: xmpp.Secure},
	{name: "VF", ns: "urn:vf", negotiable: true, fail: true},
	{name: "MF", ns: "urn:mf", mandatory: true, negotiable: true, fail: true},
	{name: "W", ns: "urn:w", negotiable: true, prohibited: xmpp.Secure},
	{name: "S", ns: "urn:s", negotiable: true, necessary: xmpp.Secure}, // voluntary, becomes eligible once another feature of the same list has set the bit
	// masks that overlap: a bit that is both necessary and prohibited can never be satisfied
	{name: "O", ns: "urn:o", negotiable: true, necessary: xmpp.Secure, prohibited: xmpp.Secure | xmpp.Authn},
}

type event struct {
	kind   string // negotiate
	ns     string
	state  xmpp.SessionState
	outLen int // bytes the library had written when the call was made
	stream int // advertisement index at the time
	strm   int // stream (header) index at the time: several advertisements may arrive on one stream
	err    bool
}

type world struct {
	recv    bool
	events  []event
	conn    *sess.Reactive
	adIndex int // index of the current advertisement
	strmNo  int // index of the current stream
}

func (w *world) feature(a arch) xmpp.StreamFeature {
	f := xmpp.StreamFeature{
		Name:       xml.Name{Space: a.ns, Local: "f"},
		Necessary:  a.necessary,
		Prohibited: a.prohibited,
		List: func(ctx context.Context, e xmlstream.TokenWriter, start xml.StartElement) (bool, error) {
			if err := e.EncodeToken(start); err != nil {
				return a.mandatory, err
			}
			return a.mandatory, e.EncodeToken(start.End())
		},
		Parse: func(ctx context.Context, d *xml.Decoder, start *xml.StartElement) (bool, interface{}, error) {
			v := struct {
				Required *struct{} `xml:"required"`
			}{}
			err := d.DecodeElement(&v, start)
			return v.Required != nil, nil, err
		},
	}
	if a.negotiable {
		f.Negotiate = func(ctx context.Context, s *xmpp.Session, data interface{}) (xmpp.SessionState, io.ReadWriter, error) {
			if len(w.events) > 40 {
				// far more calls than the peer script can justify: the negotiation
				// loop does not terminate; abort this execution
				panic(fmt.Sprintf("c01: negotiation does not terminate (%d Negotiate calls)", len(w.events)))
			}
			w.events = append(w.events, event{kind: "negotiate", ns: a.ns, state: s.State(), outLen: len(w.conn.Written()), stream: w.adIndex, strm: w.strmNo, err: a.fail})
			if w.recv {
				// consume the selection (bare element or iq-wrapped)
				r := s.TokenReader()
				tok, err := r.Token()
				if err == nil {
					if _, ok := tok.(xml.StartElement); ok {
						err = xmlstream.Skip(r)
					}
				}
				r.Close()
				if err != nil {
					return 0, nil, err
				}
			}
			if a.fail {
				return 0, nil, fmt.Errorf("feature %s failed", a.name)
			}
			if a.restart {
				return a.mask, s.Conn(), nil
			}
			return a.mask, nil, nil
		}
	}
	return f
}

type adItem struct {
	ns       string
	required bool
	local    string // "" : the feature's own element name; otherwise another element in the feature's namespace (not that feature)
}

func renderAd(items []adItem) string {
	var b strings.Builder
	b.WriteString(`<stream:features xmlns:stream='` + streamNS + `'>`)
	for _, it := range items {
		l := "f"
		if it.local != "" {
			l = it.local
		}
		if it.required {
			fmt.Fprintf(&b, `<%s xmlns='%s'><required/></%s>`, l, it.ns, l)
		} else {
			fmt.Fprintf(&b, `<%s xmlns='%s'/>`, l, it.ns)
		}
	}
	b.WriteString(`</stream:features>`)
	return b.String()
}

func header(ws bool, ns, from, to string) string {
	if ws {
		return fmt.Sprintf(`<open xmlns='urn:ietf:params:xml:ns:xmpp-framing' version='1.0' id='x1' from='%s' to='%s'/>`, from, to)
	}
	return fmt.Sprintf(`<stream:stream xmlns='%s' xmlns:stream='%s' version='1.0' id='x1' from='%s' to='%s'>`, ns, streamNS, from, to)
}

func stateName(s xmpp.SessionState) string {
	var p []string
	if s&xmpp.Secure != 0 {
		p = append(p, "Secure")
	}
	if s&xmpp.Authn != 0 {
		p = append(p, "Authn")
	}
	if s&xmpp.Ready != 0 {
		p = append(p, "Ready")
	}
	if len(p) == 0 {
		return "0"
	}
	return strings.Join(p, "|")
}

// chooseConfig picks a set of at most maxK archetypes (ascending indices).
func chooseConfig(c *nd.Ctx, maxK int) []arch {
	var cfg []arch
	last := -1
	for len(cfg) < maxK {
		// 0 = stop, i>0 = archetype last+i
		n := len(archs) - last - 1
		if n <= 0 {
			break
		}
		k := c.Choose(n+1, "config-feature")
		if k == 0 {
			break
		}
		last += k
		cfg = append(cfg, archs[last])
	}
	return cfg
}

// dependentPool: features whose eligibility changes while one list is worked
// through without a restart (VM sets Secure and goes on): a voluntary and a
// mandatory feature that both wait for that bit, and a voluntary one that the
// bit rules out.
var dependentPool = []arch{
	{name: "VM", ns: "urn:vm", negotiable: true, mask: xmpp.Secure},
	{name: "S", ns: "urn:s", negotiable: true, necessary: xmpp.Secure},
	{name: "MS", ns: "urn:ms", negotiable: true, mandatory: true, necessary: xmpp.Secure},
	{name: "W", ns: "urn:w", negotiable: true, prohibited: xmpp.Secure},
	{name: "SA", ns: "urn:sa", negotiable: true, necessary: xmpp.Secure | xmpp.Authn}, // needs two bits: one of them is not enough
}

// withPool runs body with the archetype list replaced.
func withPool(pool []arch, body nd.Body) nd.Body {
	return func(c *nd.Ctx) nd.Result {
		saved := archs
		archs = pool
		// these lists are ranged over once per negotiated feature: a changed
		// iteration order is a deviation here (bounded), not a free choice
		vs.MapOrderCost = 1
		defer func() { archs = saved; vs.MapOrderCost = 0 }()
		return body(c)
	}
}

var initialStates = []xmpp.SessionState{0, xmpp.Secure, xmpp.Secure | xmpp.Authn, xmpp.Authn} // the last one: authenticated by other means before any security layer

func negotiatorFor(ws bool, feats []xmpp.StreamFeature) xmpp.Negotiator {
	cfg := func(*xmpp.Session, *xmpp.StreamConfig) xmpp.StreamConfig { return xmpp.StreamConfig{Features: feats} }
	if ws {
		return websocket.Negotiator(cfg)
	}
	return xmpp.NewNegotiator(cfg)
}

func cfgNames(cfg []arch) string {
	var n []string
	for _, a := range cfg {
		n = append(n, a.name)
	}
	return strings.Join(n, "+")
}

func byNS(cfg []arch, ns string) (arch, bool) {
	for _, a := range cfg {
		if a.ns == ns {
			return a, true
		}
	}
	return arch{}, false
}

func eligible(a arch, st xmpp.SessionState) bool {
	return st&a.necessary == a.necessary && st&a.prohibited == 0
}

// ---------------------------------------------------------------- initiator

func initiatorBody(maxK, maxStreams int, twice bool) nd.Body {
	return func(c *nd.Ctx) nd.Result {
		cfg := chooseConfig(c, maxK)
		if len(cfg) == 0 {
			return nd.Result{Skip: true}
		}
		st0 := initialStates[c.Choose(len(initialStates), "initial-state")]
		s2s := c.Choose(2, "s2s") == 1
		ws := c.Choose(2, "framing") == 1
		w := &world{}
		var feats []xmpp.StreamFeature
		for _, a := range cfg {
			feats = append(feats, w.feature(a))
		}
		origin, location := jid.MustParse("me@example.com/r"), jid.MustParse("example.com")
		ns := stanza.NSClient
		state := st0
		if s2s {
			ns = stanza.NSServer
			state |= xmpp.S2S
		}
		var ads [][]adItem
		cands := append(append([]arch{}, cfg...), arch{name: "U", ns: "urn:unknown"})
		opts := 3
		if twice {
			opts = 4
		}
		w.conn = sess.NewReactive(func(step int, written string) (string, error) {
			if len(ads) >= maxStreams {
				return "", nil
			}
			// a new stream: the peer answers the header and advertises
			var ad []adItem
			for i, a := range cands {
				n := opts
				if i == 0 && len(ads) == 0 {
					n++ // in the first list the first configured feature may also meet an unknown element that shares its namespace
				}
				switch k := c.Choose(n, "advertise-"+a.name); {
				case k == n-1 && i == 0 && len(ads) == 0:
					ad = append(ad, adItem{a.ns, true, "g"})
				case k == 1:
					ad = append(ad, adItem{ns: a.ns})
				case k == 2:
					ad = append(ad, adItem{ns: a.ns, required: true})
				case k == 3:
					ad = append(ad, adItem{ns: a.ns}, adItem{ns: a.ns, required: true})
				}
			}
			ads = append(ads, ad)
			w.adIndex = len(ads) - 1
			if len(ads) > 1 && !strings.Contains(written, "<stream:stream") && !strings.Contains(written, "<open") {
				// the library went on reading without restarting the stream (a
				// required feature that neither restarts nor completes the session
				// was negotiated): the next list arrives on the same stream
				return renderAd(ad), nil
			}
			w.strmNo++
			return header(ws, ns, location.String(), origin.String()) + renderAd(ad), nil
		})
		var s *xmpp.Session
		var err error
		var pn *nd.Panic
		vs.WithChooser(c, func() {
			pn = nd.Catch(func() {
				s, err = xmpp.NewSession(context.Background(), location, origin, w.conn, state, negotiatorFor(ws, feats))
			})
		})
		desc := fmt.Sprintf("initiator config=%s initial=%s s2s=%v ws=%v advertisements=%v", cfgNames(cfg), stateName(st0), s2s, ws, ads)
		c.Note("%s", desc)
		for _, e := range w.events {
			c.Note("  negotiate %s at state %s (advertisement %d)", e.ns, stateName(e.state), e.stream)
		}
		res := nd.Result{Outcome: "error", NonTrivial: desc}
		if pn != nil {
			if strings.Contains(pn.Value, "negotiation does not terminate") {
				res.Violation = &nd.Violation{Sig: "initiator:negotiation-does-not-terminate", Msg: desc + ": " + pn.Value + " events=" + fmtEvents(w.events)}
				return res
			}
			res.Violation = &nd.Violation{Sig: "initiator:" + pn.Sig(), Msg: desc + ": panic " + pn.Value + "\n" + pn.Stack}
			return res
		}
		fail := func(sig, f string, a ...any) nd.Result {
			res.Violation = &nd.Violation{Sig: "initiator:" + sig, Msg: desc + fmt.Sprintf(" events=%s err=%v: ", fmtEvents(w.events), err) + fmt.Sprintf(f, a...)}
			return res
		}
		out := w.conn.Written()
		// invariants over the callback log
		prev := state
		negotiated := map[int]map[string]bool{}
		for i, e := range w.events {
			a, _ := byNS(cfg, e.ns)
			if !eligible(a, e.state) {
				return fail("prerequisites-violated", "%s negotiated at state %s (necessary %s, prohibited %s)", a.name, stateName(e.state), stateName(a.necessary), stateName(a.prohibited))
			}
			if e.state&prev&^xmpp.S2S != prev&^xmpp.S2S {
				return fail("state-bits-lost", "state went from %s to %s", stateName(prev), stateName(e.state))
			}
			prev = e.state
			ad := ads[e.stream]
			advertised, required := false, false
			for _, it := range ad {
				if it.ns == e.ns && it.local == "" {
					advertised = true
					required = required || it.required
				}
			}
			forcedTLS := e.ns == tlsNS && e.stream == 0 && e.state&xmpp.Secure == 0
			if !advertised && !forcedTLS {
				return fail("not-advertised", "%s negotiated but advertisement %d is %v", a.name, e.stream, ad)
			}
			if negotiated[e.strm] == nil {
				negotiated[e.strm] = map[string]bool{}
			}
			if negotiated[e.strm][e.ns] {
				return fail("negotiated-twice", "%s negotiated twice on stream %d (advertisement %d)", a.name, e.strm, e.stream)
			}
			// voluntary before mandatory: when a feature the peer requires is
			// taken, no eligible un-negotiated voluntary feature of that list remains
			if required || forcedTLS {
				for _, it := range ad {
					if it.local != "" {
						continue
					}
					b, ok := byNS(cfg, it.ns)
					isReq := false
					for _, jt := range ad {
						if jt.ns == it.ns && jt.required && jt.local == "" {
							isReq = true
						}
					}
					if ok && !isReq && b.negotiable && it.ns != e.ns && !negotiated[e.strm][it.ns] && eligible(b, e.state) && !forcedTLS {
						return fail("mandatory-before-voluntary", "%s (required) negotiated while voluntary %s was still eligible on stream %d", a.name, b.name, e.stream)
					}
				}
			}
			negotiated[e.strm][e.ns] = true
			// a restart begins with a fresh stream header
			if a.restart && !a.fail {
				rest := out[e.outLen:]
				if i+1 < len(w.events) && w.events[i+1].strm == e.strm {
					return fail("no-restart-after-restarting-feature", "%s restarts the stream but %s was negotiated on the same stream", a.name, w.events[i+1].ns)
				}
				if rest != "" && !strings.HasPrefix(rest, "<?xml") && !strings.HasPrefix(rest, "<open") && !strings.HasPrefix(rest, "<stream:stream") {
					return fail("restart-without-header", "after %s the library wrote %q", a.name, rest)
				}
			}
		}
		if err == nil {
			res.Outcome = "established"
			fin := s.State()
			if fin&xmpp.Ready == 0 {
				return fail("established-without-ready", "state %s", stateName(fin))
			}
			// a restart always begins with a fresh stream header: the session must
			// not be handed over right after a restarting feature
			if n := len(w.events); n > 0 {
				last := w.events[n-1]
				if a, _ := byNS(cfg, last.ns); a.restart && !a.fail && !strings.Contains(out[last.outLen:], "<stream:stream") && !strings.Contains(out[last.outLen:], "<open") {
					return fail("established-after-restart-without-header", "%s restarts the stream but the session was reported established without a new stream header", a.name)
				}
			}
			if fin&prev&^xmpp.S2S != prev&^xmpp.S2S {
				return fail("state-bits-lost", "state went from %s to %s", stateName(prev), stateName(fin))
			}
			// no eligible mandatory feature of the last advertisement left
			if len(ads) > 0 {
				last := len(ads) - 1
				for _, it := range ads[last] {
					a, ok := byNS(cfg, it.ns)
					if ok && it.local == "" && it.required && a.negotiable && !negotiated[w.strmNo][it.ns] && eligible(a, fin&^xmpp.Ready) {
						sig := "established-with-pending-mandatory"
						if n := len(w.events); n > 0 {
							if l, _ := byNS(cfg, w.events[n-1].ns); l.mask&xmpp.Ready != 0 {
								sig += ":after-a-feature-that-sets-ready"
							}
						}
						return fail(sig, "%s is required by the last advertisement %v and eligible at %s but was not negotiated", a.name, ads[last], stateName(fin))
					}
				}
			}
		}
		return res
	}
}

func fmtEvents(ev []event) string {
	var p []string
	for _, e := range ev {
		p = append(p, fmt.Sprintf("%s@%s/ad%d", e.ns, stateName(e.state), e.stream))
	}
	return "[" + strings.Join(p, " ") + "]"
}

// ---------------------------------------------------------------- receiver

// advertisedLists extracts, in order, the namespaces of the children of every
// features element the library wrote.
func advertisedLists(out string) [][]string {
	d := xml.NewDecoder(strings.NewReader(out))
	d.Strict = false
	var lists [][]string
	depth := 0
	inFeatures := -1
	for {
		t, err := d.Token()
		if err != nil {
			return lists
		}
		switch tt := t.(type) {
		case xml.StartElement:
			depth++
			if tt.Name.Local == "features" && (tt.Name.Space == streamNS || tt.Name.Space == "stream") {
				inFeatures = depth
				lists = append(lists, []string{})
			} else if inFeatures > 0 && depth == inFeatures+1 {
				lists[len(lists)-1] = append(lists[len(lists)-1], tt.Name.Space)
			}
		case xml.EndElement:
			if depth == inFeatures {
				inFeatures = -1
			}
			depth--
		}
	}
}

func receiverBody(maxK, maxSel int) nd.Body {
	return func(c *nd.Ctx) nd.Result {
		cfg := chooseConfig(c, maxK)
		if len(cfg) == 0 {
			return nd.Result{Skip: true}
		}
		st0 := initialStates[c.Choose(len(initialStates), "initial-state")]
		s2s := c.Choose(2, "s2s") == 1
		ws := c.Choose(2, "framing") == 1
		w := &world{recv: true}
		var feats []xmpp.StreamFeature
		for _, a := range cfg {
			feats = append(feats, w.feature(a))
		}
		ns := stanza.NSClient
		state := st0
		if s2s {
			// a receiving s2s session refuses first headers that name a peer; leave from out
			ns = stanza.NSServer
			state |= xmpp.S2S
		}
		from := "me@example.com"
		if s2s {
			from = ""
		}
		hdr := header(ws, ns, from, "example.com")
		if s2s {
			hdr = strings.Replace(hdr, " from=''", "", 1)
		}
		cands := append(append([]arch{}, cfg...), arch{name: "U", ns: "urn:unknown"})
		type selection struct {
			a       arch
			wrapped bool
		}
		var sels []selection
		needHeader := true
		w.conn = sess.NewReactive(func(step int, written string) (string, error) {
			if needHeader {
				needHeader = false
				return hdr, nil
			}
			if len(sels) >= maxSel {
				return "", nil
			}
			k := c.Choose(len(cands)+1, "select")
			if k == 0 {
				return "", nil // the client goes away
			}
			sel := selection{a: cands[k-1], wrapped: c.Choose(2, "iq-wrapped") == 1}
			sels = append(sels, sel)
			w.adIndex = len(sels) - 1
			el := fmt.Sprintf(`<f xmlns='%s'/>`, sel.a.ns)
			if sel.wrapped {
				el = fmt.Sprintf(`<iq xmlns='%s' type='set' id='s%d'>%s</iq>`, ns, len(sels), el)
			}
			if sel.a.restart && sel.a.negotiable && !sel.a.fail {
				needHeader = true
			}
			return el, nil
		})
		var s *xmpp.Session
		var err error
		pn := nd.Catch(func() {
			s, err = xmpp.ReceiveSession(context.Background(), w.conn, state, negotiatorFor(ws, feats))
		})
		var selNames []string
		for _, sl := range sels {
			n := sl.a.name
			if sl.wrapped {
				n += "(iq)"
			}
			selNames = append(selNames, n)
		}
		desc := fmt.Sprintf("receiver config=%s initial=%s s2s=%v ws=%v selections=%v", cfgNames(cfg), stateName(st0), s2s, ws, selNames)
		c.Note("%s", desc)
		res := nd.Result{Outcome: "error", NonTrivial: desc}
		if pn != nil {
			if strings.Contains(pn.Value, "negotiation does not terminate") {
				res.Violation = &nd.Violation{Sig: "receiver:negotiation-does-not-terminate", Msg: desc + ": " + pn.Value + " events=" + fmtEvents(w.events)}
				return res
			}
			res.Violation = &nd.Violation{Sig: "receiver:" + pn.Sig(), Msg: desc + ": panic " + pn.Value + "\n" + pn.Stack}
			return res
		}
		out := w.conn.Written()
		lists := advertisedLists(out)
		fail := func(sig, f string, a ...any) nd.Result {
			res.Violation = &nd.Violation{Sig: "receiver:" + sig, Msg: desc + fmt.Sprintf(" advertised=%v events=%s err=%v: ", lists, fmtEvents(w.events), err) + fmt.Sprintf(f, a...)}
			return res
		}
		// replay the run against the reference: walk selections and events
		cur := state
		ei := 0
		li := 0 // index of the advertisement in force
		negotiatedOnStream := map[string]bool{}
		checkAd := func(idx int, st xmpp.SessionState) *nd.Result {
			if idx >= len(lists) {
				return nil
			}
			var want []string
			for _, a := range cfg {
				if eligible(a, st) {
					want = append(want, a.ns)
				}
			}
			got := append([]string{}, lists[idx]...)
			sort.Strings(got)
			sort.Strings(want)
			if fmt.Sprint(got) != fmt.Sprint(want) {
				r := fail("advertises-wrong-features", "advertisement %d at state %s is %v, the configured features whose prerequisites hold are %v", idx, stateName(st), lists[idx], want)
				return &r
			}
			return nil
		}
		if r := checkAd(0, cur); r != nil {
			return *r
		}
		for i, sl := range sels {
			inAd := false
			if li < len(lists) {
				for _, n := range lists[li] {
					if n == sl.a.ns {
						inAd = true
					}
				}
			}
			_, configured := byNS(cfg, sl.a.ns)
			mustRefuse := !inAd || !configured || !sl.a.negotiable || negotiatedOnStream[sl.a.ns]
			called := ei < len(w.events) && w.events[ei].stream == i
			if mustRefuse {
				if called {
					return fail("refused-selection-was-run", "selection %d (%s) was not advertised, already negotiated or informational, but its Negotiate ran", i, sl.a.name)
				}
				if err == nil {
					return fail("invalid-selection-accepted", "selection %d (%s) must be refused but the session was established", i, sl.a.name)
				}
				res.Outcome = "refused"
				return res
			}
			if !called {
				// the library may have failed earlier for an unrelated reason (EOF); only
				// a nil error without running the selected feature is wrong
				if err == nil && i == len(sels)-1 && cur&xmpp.Ready == 0 {
					return fail("selection-not-run", "selection %d (%s) was valid but never negotiated", i, sl.a.name)
				}
				break
			}
			e := w.events[ei]
			ei++
			if e.ns != sl.a.ns {
				return fail("wrong-feature-run", "selection %d is %s but %s was negotiated", i, sl.a.name, e.ns)
			}
			if !eligible(sl.a, e.state) {
				return fail("prerequisites-violated", "%s negotiated at state %s", sl.a.name, stateName(e.state))
			}
			if e.state&cur&^xmpp.S2S&^xmpp.Received != cur&^xmpp.S2S&^xmpp.Received {
				return fail("state-bits-lost", "state went from %s to %s", stateName(cur), stateName(e.state))
			}
			negotiatedOnStream[sl.a.ns] = true
			if sl.a.fail {
				continue
			}
			cur |= sl.a.mask
			if sl.a.restart {
				// restart: the next thing the library writes is a header, then a new advertisement
				rest := out[e.outLen:]
				if rest != "" && !strings.HasPrefix(rest, "<?xml") && !strings.HasPrefix(rest, "<open") && !strings.HasPrefix(rest, "<stream:stream") {
					return fail("restart-without-header", "after %s the library wrote %q", sl.a.name, rest)
				}
				negotiatedOnStream = map[string]bool{}
				li++
				if r := checkAd(li, cur); r != nil {
					return *r
				}
			} else if sl.a.mandatory {
				// a mandatory feature ends the round: if the session is not ready a
				// new advertisement follows on the same stream
				if cur&xmpp.Ready == 0 && li+1 < len(lists) {
					li++
					if r := checkAd(li, cur); r != nil {
						return *r
					}
				}
			}
		}
		if ei < len(w.events) {
			return fail("unselected-feature-run", "%d Negotiate calls but only %d were selected", len(w.events), ei)
		}
		if err == nil {
			res.Outcome = "established"
			if s.State()&xmpp.Ready == 0 {
				return fail("established-without-ready", "state %s", stateName(s.State()))
			}
		}
		return res
	}
}

func init() {
	drv.Register(&drv.Prop{
		ID:    "C01",
		Level: "model_checking",
		Rule: "instrumented StreamFeature values (10 archetypes: TLS-like, SASL-like, bind-like, voluntary, voluntary+restart, informational, voluntary setting a bit another feature prohibits, failing voluntary, failing mandatory, voluntary prohibited once secure) log every Negotiate call with the session state; every configuration of up to K archetypes x initial state {plain, secure, authenticated} x c2s/s2s x TCP/WebSocket; initiator: every sequence of up to N advertisements, each feature (and an unknown one) absent / present / required (/ twice), with the map iteration order of the selection loop enumerated through the instrumented build; receiver: every sequence of up to N selections from configured/unadvertised/unknown/repeated/informational features, bare or IQ-wrapped. " +
			"Oracle: invariants over the callback log and the transcript (prerequisites, advertised on the current stream, at most once, voluntary before mandatory, monotone state, restart => fresh header, established => ready and no pending mandatory, receiver advertises exactly the eligible features and refuses invalid selections without running them). Non-trivial = every distinct (configuration, peer script).",
		Assumptions: []string{"the peer is a reactive script; feature Negotiate functions do no I/O on the initiating side", "s2s receiving sessions are driven without a from address in the peer's header"},
		Parts: func(tier string) []drv.Part {
			k, n, twice, b := 2, 2, false, 3*time.Minute
			if tier == "thorough" {
				k, n, twice, b = 3, 3, true, 30*time.Minute
			}
			return []drv.Part{
				{Name: "initiator", Desc: fmt.Sprintf("<= %d features, <= %d advertisements", k, n), Body: initiatorBody(k, n, twice), CutDepth: 5, Budget: b},
				{Name: "receiver", Desc: fmt.Sprintf("<= %d features, <= %d selections", k, n+1), Body: receiverBody(k, n+1), CutDepth: 5, Budget: b},
				{Name: "initiator-dependent", Desc: fmt.Sprintf("<= 3 of 5 features whose eligibility depends on a bit another feature of the same list sets without a restart, <= %d advertisements", n-1), Body: withPool(dependentPool, initiatorBody(3, n-1, twice)), MaxDev: 2, CutDepth: 5, Budget: b},
				{Name: "receiver-dependent", Desc: fmt.Sprintf("the same configurations on the receiving side, <= %d selections", n+1), Body: withPool(dependentPool, receiverBody(3, n+1)), MaxDev: 2, CutDepth: 5, Budget: b},
			}
		},
	})
}
