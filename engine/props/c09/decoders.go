package c09

// The pure decoders behind every error reply: stanza.UnmarshalError,
// stanza.UnmarshalIQError, encoding/xml into stanza.Error and stream.Error.
// No session is needed; they are driven over (1) an explicit product of
// <error/> shapes and (2) every tree over the error vocabulary up to a node
// bound.

import (
	"encoding/xml"
	"fmt"
	"strings"

	"mellium.im/xmpp/stanza"
	"mellium.im/xmpp/stream"

	"verif/nd"
)

const nsStreamErr = "urn:ietf:params:xml:ns:xmpp-streams"

var decoderNames = []string{"stanza.UnmarshalError", "stanza.UnmarshalIQError", "xml.Unmarshal(stanza.Error)", "xml.Unmarshal(stream.Error)"}

var streamErrPkg = &pkgSpec{
	name: "stream-error",
	elems: []elemSpec{
		el(nsStreamErr, "host-gone"),
		el(nsStreamErr, "see-other-host"),
		el(nsStreamErr, "text", at("xml:lang", "en")),
		el("urn:app:errors", "too-many", at("limit", "3")),
	},
	texts: []string{"example.org:5222"},
}

var streamErrorRoot = el("http://etherx.jabber.org/streams", "error", at("type", "cancel"))

// runDecoder feeds one <error/> document (and what precedes it inside the
// stanza) to decoder dec.
func runDecoder(c *nd.Ctx, dec int, before, errXML, family string) nd.Result {
	name := decoderNames[dec]
	doc := `<iq xmlns="jabber:client" type="error" id="i1" from="example.net" to="` + ownFull + `">` + before + errXML + `</iq>`
	c.Note("%s over %s", name, doc)
	res := nd.Result{NonTrivial: name + "|" + before + errXML}
	var derr error
	var shown string
	p := nd.Catch(func() {
		switch dec {
		case 0, 1:
			r := xml.NewDecoder(strings.NewReader(doc))
			tok, err := r.Token()
			if err != nil {
				panic("c09: generated document does not parse: " + err.Error())
			}
			start := tok.(xml.StartElement)
			var se stanza.Error
			if dec == 0 {
				se, derr = stanza.UnmarshalError(r)
			} else {
				_, derr = stanza.UnmarshalIQError(r, start)
				if e, ok := derr.(stanza.Error); ok {
					se, derr = e, nil
				}
			}
			if derr == nil {
				shown = se.Error()
			}
		case 2:
			var se stanza.Error
			derr = xml.Unmarshal([]byte(strings.Replace(errXML, "<error", `<error xmlns="jabber:client"`, 1)), &se)
			if derr == nil {
				shown = se.Error()
			}
		case 3:
			var se stream.Error
			derr = xml.Unmarshal([]byte(errXML), &se)
			if derr == nil {
				shown = se.Error()
			}
		}
	})
	if p != nil {
		res.Outcome = "violation"
		res.Violation = &nd.Violation{Sig: "decoder:" + name + ":" + p.Sig(), Msg: fmt.Sprintf("%s over %q (%s): panic: %s\n%s", name, before+errXML, family, p.Value, p.Stack)}
		return res
	}
	c.Note("decoded: err=%v value=%q", derr, shown)
	if derr != nil {
		res.Outcome = "error"
	} else {
		res.Outcome = "value"
	}
	return res
}

// shapesBody: the explicit product of <error/> shapes.
func shapesBody(maxTexts int) nd.Body {
	langs := []string{absent, "en", "de"}
	return func(c *nd.Ctx) nd.Result {
		dec := c.Choose(len(decoderNames), "decoder")
		condNS, textNS := nsStanzaErr, nsStanzaErr
		rootOpen := "<error"
		if dec == 3 {
			condNS, textNS = nsStreamErr, nsStreamErr
			rootOpen = `<error xmlns="http://etherx.jabber.org/streams"`
		}
		switch c.Choose(3, "type") {
		case 1:
			rootOpen += ` type="cancel"`
		case 2:
			rootOpen += ` type="bogus"`
		}
		switch c.Choose(4, "by") {
		case 1:
			rootOpen += ` by="example.org"`
		case 2:
			rootOpen += ` by="@@"`
		case 3:
			rootOpen += ` by=""`
		}
		var kids []string
		switch c.Choose(5, "condition") {
		case 1:
			kids = append(kids, `<item-not-found xmlns="`+condNS+`"/>`)
		case 2:
			kids = append(kids, `<item-not-found xmlns="urn:unknown"/>`)
		case 3:
			kids = append(kids, `<item-not-found xmlns="`+condNS+`"/>`, `<gone xmlns="`+condNS+`">xmpp:a@example.org</gone>`)
		case 4:
			kids = append(kids, `<see-other-host xmlns="`+condNS+`">example.org:5222</see-other-host>`)
		}
		ntext := c.Choose(maxTexts+1, "texts")
		for i := 0; i < ntext; i++ {
			t := `<text xmlns="` + textNS + `"`
			if l := langs[c.Choose(3, "xml:lang")]; l != absent {
				t += ` xml:lang="` + l + `"`
			}
			if c.Choose(2, "text-content") == 1 {
				t += ">words" + fmt.Sprint(i) + "</text>"
			} else {
				t += "/>"
			}
			kids = append(kids, t)
		}
		switch c.Choose(3, "application-condition") {
		case 1:
			kids = append(kids, `<too-many xmlns="urn:app:errors"/>`)
		case 2:
			kids = append(kids, `<too-many xmlns="urn:app:errors"><text xmlns="`+textNS+`">nested</text><limit>3</limit></too-many>`)
		}
		if c.Choose(2, "unknown-child") == 1 {
			kids = append([]string{`<unknown xmlns="urn:unknown"/>`}, kids...)
		}
		sep := []string{"", "x", " \n"}[c.Choose(3, "chardata-between-children")]
		before := []string{"", `<q xmlns="urn:q"/>`, "x"}[c.Choose(3, "before-error")]
		errXML := rootOpen + ">" + sep + strings.Join(kids, sep) + sep + "</error>"
		if len(kids) == 0 && sep == "" {
			errXML = rootOpen + "/>"
		}
		return runDecoder(c, dec, before, errXML, "shapes")
	}
}

// errTreesBody: every tree over the error vocabulary with <= n nodes.
func errTreesBody(n int) nd.Body {
	return func(c *nd.Ctx) nd.Result {
		dec := c.Choose(len(decoderNames), "decoder")
		pk, root := errPkg, errorRoot
		if dec == 3 {
			pk, root = streamErrPkg, streamErrorRoot
		}
		g := &hgen{c: c, p: pk, left: n}
		tree := g.element(&root, true)
		if g.dup {
			return nd.Result{Skip: true}
		}
		var b strings.Builder
		tree.write(&b, stanza.NSClient, stanza.NSClient)
		return runDecoder(c, dec, "", b.String(), "trees")
	}
}
