// Package c09: no peer input can panic or wedge the library (first half: peer
// input delivered to a served session whose multiplexer carries every handler
// the library itself provides).
package c09

import (
	"fmt"
	"strings"
	"time"

	"mellium.im/xmpp"
	"mellium.im/xmpp/stanza"

	"verif/drv"
	"verif/nd"
	"verif/sess"
	"verif/xu"
)

// panicSig names the panic site and, when the site is not itself a handler,
// the library handler the panic came through.
func panicSig(p *nd.Panic) string {
	top := p.Frame
	if top == "" {
		top = "outside-library"
	}
	handler := ""
	for _, line := range strings.Split(p.Stack, "\n") {
		if !strings.HasPrefix(line, "mellium.im/xmpp") || !strings.Contains(line, ".Handle") {
			continue
		}
		if strings.HasPrefix(line, "mellium.im/xmpp/mux.") || strings.HasPrefix(line, "mellium.im/xmpp.") {
			continue
		}
		handler = line
		break
	}
	kind := p.Kind()
	if strings.HasPrefix(p.Value, "jid: Parse(") {
		kind = "MustParse"
	}
	sig := "serve:panic@" + top
	if handler != "" && handler != top {
		sig += "<-" + handler
	}
	return sig + ":" + kind
}

// rank charges a later part a fixed number of deviations (more than any
// earlier part can spend), so that the violation the driver keeps per
// signature (lowest cost first) always comes from the earliest part that shows
// it, which is also the part the driver replays it in.  The alternative 0 of
// the point is not an execution (skipped).
func rank(c *nd.Ctx, r int) bool {
	return c.ChooseCost(2, "part-rank", r) == 1
}

// check runs one input and applies the oracle.
func check(c *nd.Ctx, rc runCfg, what, input string) nd.Result {
	c.Note("%s ns=%s cfg=%d cb=%d app=%d", what, rc.ns, rc.cfg, rc.cb, rc.app)
	if c.Keeping() {
		in := input
		if len(in) > 2000 {
			in = in[:1000] + "…(" + fmt.Sprint(len(in)) + " bytes)…" + in[len(in)-200:]
		}
		c.Note("input after the stream header: %s", in)
	}
	res := nd.Result{NonTrivial: fmt.Sprintf("%s|%d|%d|%d|%s", rc.ns, rc.cfg, rc.cb, rc.app, input)}
	show := input
	if len(show) > 600 {
		show = show[:400] + "…(" + fmt.Sprint(len(input)) + " bytes)…" + show[len(show)-100:]
	}
	fail := func(sig, f string, a ...any) nd.Result {
		res.Outcome = "violation"
		res.Violation = &nd.Violation{Sig: sig, Msg: fmt.Sprintf("%s ns=%s cfg=%d cb=%d app=%d input=%q: ", what, rc.ns, rc.cfg, rc.cb, rc.app, show) + fmt.Sprintf(f, a...)}
		return res
	}
	var pn *nd.Panic
	var blockedAt, dump string
	ro := rc.run(input, func(s *xmpp.Session, h xmpp.Handler) (err error, wedged bool) {
		done := make(chan struct{})
		go func() {
			defer close(done)
			pn = nd.Catch(func() { err = s.Serve(h) })
		}()
		blockedAt, dump = await(done)
		if blockedAt != "" {
			return nil, true // err belongs to the parked goroutine
		}
		return err, false
	})
	if blockedAt != "" {
		return fail("serve:blocked-forever@"+blockedAt, "Serve never returns: every goroutine is parked and nothing is left that could wake one of them\n%s", dump)
	}
	if pn != nil {
		return fail(panicSig(pn), "Serve panicked: %s\n%s", pn.Value, pn.Stack)
	}
	res.Outcome = errClass(ro.serveErr)
	c.Note("Serve returned %v; wrote %q", ro.serveErr, ro.out)
	if _, err := xu.Parse([]byte(sess.Header(rc.ns) + ro.out)); err != nil {
		return fail("wire:output-malformed:"+what, "the session wrote %q: %v (Serve returned %v)", ro.out, err, ro.serveErr)
	}
	return res
}

var nss = []string{stanza.NSClient, stanza.NSServer}

// stanzaDoc renders header + pre + payload + post.
func stanzaDoc(h header, ns string, pre string, nodes []*tnode) string {
	var b strings.Builder
	h.open(&b)
	b.WriteString(pre)
	for _, n := range nodes {
		n.write(&b, ns, ns)
	}
	h.close(&b)
	return b.String()
}

var preVals = []string{"", "x", " \n", `<unknown xmlns="urn:unknown"/>`}

// treeBody: every registered (kind, type, payload) pattern with the default
// header, content = every forest of <= n nodes.
func treeBody(only func(p *pkgSpec) bool) nd.Body {
	var idx []int
	for i := range pkgs {
		if only(&pkgs[i]) {
			idx = append(idx, i)
		}
	}
	return func(c *nd.Ctx) nd.Result {
		p := &pkgs[idx[c.Choose(len(idx), "package")]]
		r := &p.roots[c.Choose(len(p.roots), "pattern")]
		typ := r.types[c.Choose(len(r.types), "type")]
		tg := &treeGen{c: c, p: p}
		pre := preVals[c.ChooseCost(len(preVals), "before-payload", 1)]
		nodes := []*tnode{tg.element(&r.el, true)}
		// what follows the payload: text, an unknown element or another payload
		// of the same package and stanza kind
		var post []*elemSpec
		post = append(post, &unknownElem)
		for i := range p.roots {
			if p.roots[i].kind == r.kind {
				dupe := false
				for _, q := range post {
					if q.name == p.roots[i].el.name {
						dupe = true
					}
				}
				if !dupe {
					post = append(post, &p.roots[i].el)
				}
			}
		}
		lastText := false
		for tg.left() > 0 {
			k := c.ChooseCost(3+len(post), "after-payload", 1)
			if k == 0 {
				break
			}
			switch k {
			case 1, 2:
				if lastText {
					tg.dup = true
				}
				lastText = true
				nodes = append(nodes, &tnode{text: []string{"x", " \n"}[k-1]})
			default:
				lastText = false
				nodes = append(nodes, tg.element(post[k-3], true))
			}
		}
		if tg.dup {
			return nd.Result{Skip: true}
		}
		h := header{kind: r.kind, typ: typeAttr(typ), from: peerFull, to: ownFull, id: "i1"}
		rc := runCfg{ns: stanza.NSClient, cfg: cfgFull, app: p.app}
		return check(c, rc, p.name+"/"+r.kind+"/"+r.el.name.Local, stanzaDoc(h, rc.ns, pre, nodes)+streamEnd)
	}
}

// headerBody: every payload x every stanza type x from x to x id x namespace x
// handler configuration x payload spelling; content of <= n nodes where
// namespace, configuration and spelling are the defaults.
func headerBody(r0 int) nd.Body {
	type hc struct {
		cfg, cb int
		unaddr  bool
	}
	hcs := []hc{{cfgFull, 0, false}, {cfgFull, 1, false}, {cfgNil, 0, false}, {cfgEmpty, 0, false}, {cfgNil, 0, true}, {cfgFull, 0, true}, {cfgFull, 2, false}}
	return func(c *nd.Ctx) nd.Result {
		if !rank(c, r0) {
			return nd.Result{Skip: true}
		}
		p := &pkgs[c.Choose(len(pkgs), "package")]
		r := &p.roots[c.Choose(len(p.roots), "pattern")]
		types := allTypes[r.kind]
		h := header{kind: r.kind}
		h.typ = types[c.Choose(len(types), "type")]
		h.from = fromVals[c.Choose(len(fromVals), "from")]
		h.to = toVals[c.Choose(len(toVals), "to")]
		h.id = idVals[c.Choose(len(idVals), "id")]
		h.lang = []string{absent, "en", "empty"}[c.Choose(3, "xml:lang")]
		ns := nss[c.Choose(2, "ns")]
		cf := hcs[c.Choose(len(hcs), "handler-config")]
		spelling := c.Choose(3, "payload-spelling") // 0 default namespace, 1 prefixed, 2 no payload at all
		tg := &treeGen{c: c, p: p, off: !(ns == stanza.NSClient && cf.cfg == cfgFull && cf.cb == 0 && spelling == 0)}
		var nodes []*tnode
		if spelling != 2 {
			root := tg.element(&r.el, true)
			root.prefixed = spelling == 1
			nodes = append(nodes, root)
		}
		if tg.dup {
			return nd.Result{Skip: true}
		}
		rc := runCfg{ns: ns, cfg: cf.cfg, cb: cf.cb, unaddr: cf.unaddr}
		if cf.cfg == cfgFull && !cf.unaddr {
			rc.app = p.app
		}
		return check(c, rc, p.name+"/"+r.kind+"/"+r.el.name.Local, stanzaDoc(h, ns, "", nodes)+streamEnd)
	}
}

var genericPool = func() []string {
	for i := range pkgs {
		if pkgs[i].name == "generic" {
			return pkgs[i].pool
		}
	}
	panic("c09: no generic package")
}()

// seqBody: sequences of k stanzas from the package's reduced pool (plus the
// generic pool), with and without the application state the package's tables
// depend on.
func seqBody(k, r0 int, only string, app int) nd.Body {
	var idx []int
	for i := range pkgs {
		if only == "" || pkgs[i].name == only {
			idx = append(idx, i)
		}
	}
	return func(c *nd.Ctx) nd.Result {
		if !rank(c, r0) {
			return nd.Result{Skip: true}
		}
		p := &pkgs[idx[c.Choose(len(idx), "package")]]
		pool := p.pool
		if p.name != "generic" {
			pool = append(append([]string{}, p.pool...), genericPool...)
		}
		rc := runCfg{cfg: cfgFull}
		rc.ns = nss[c.Choose(2, "ns")]
		rc.cb = c.Choose(3, "callbacks") // 0 present, 1 present and failing, 2 optional callbacks not configured at all
		if p.app != 0 && c.Choose(2, "application-state") == 0 {
			rc.app = p.app | app
		}
		var b strings.Builder
		for i := 0; i < k; i++ {
			b.WriteString(pool[c.Choose(len(pool), "stanza")])
		}
		b.WriteString(streamEnd)
		return check(c, rc, p.name+"/sequence", b.String())
	}
}

// Children of one message / presence drawn from all packages: the mux calls a
// handler per child, each over the whole stanza.
var msgSnips = []string{
	"",
	"x",
	`<body>hi</body>`,
	`<unknown xmlns='urn:unknown'><data xmlns='` + nsIBB + `'/></unknown>`,
	`<data xmlns='` + nsIBB + `' seq='0' sid='s1'>aGk=</data>`,
	`<result xmlns='` + nsMAM + `' queryid='q1' id='a1'>` + fwdMsg + `</result>`,
	`<result xmlns='` + nsMAM + `' queryid='other'>` + fwdMsg + `</result>`,
	`<received xmlns='` + nsReceipts + `' id='r1'/>`,
	`<request xmlns='` + nsReceipts + `'/>`,
	`<x xmlns='` + nsMUCUser + `'><invite to='a@example.org'><reason>why</reason></invite></x>`,
	`<x xmlns='` + nsConf + `' jid='room@conf.example.net'/>`,
	`<received xmlns='` + nsCarbons + `'>` + fwdMsg + `</received>`,
	`<sent xmlns='` + nsCarbons + `'/>`,
	`<error type='cancel'><item-not-found xmlns='` + nsStanzaErr + `'/></error>`,
}

var presSnips = []string{
	"",
	"x",
	`<show>away</show>`,
	`<unknown xmlns='urn:unknown'/>`,
	`<x xmlns='` + nsMUCUser + `'><item affiliation='owner' role='moderator'/><status code='110'/></x>`,
	`<x xmlns='` + nsMUCUser + `'><item jid='@@'/></x>`,
	`<c xmlns='` + nsCaps + `' hash='sha-1' node='http://example.org/c' ver='QgayPKawpkPSDYmwT/WM94uAlu0='/>`,
	`<c xmlns='` + nsCaps + `' hash='bogus'/>`,
	`<error type='cancel'><item-not-found xmlns='` + nsStanzaErr + `'/></error>`,
}

func mixedBody(k, r0 int) nd.Body {
	return func(c *nd.Ctx) nd.Result {
		if !rank(c, r0) {
			return nd.Result{Skip: true}
		}
		h := header{kind: []string{"message", "presence"}[c.Choose(2, "kind")], from: peerFull, to: ownFull, id: "i1"}
		snips := msgSnips
		if h.kind == "presence" {
			snips = presSnips
		}
		types := allTypes[h.kind]
		h.typ = types[c.Choose(len(types), "type")]
		rc := runCfg{ns: stanza.NSClient, cfg: cfgFull}
		if c.Choose(2, "application-state") == 0 {
			rc.app = appIBB | appHistory | appReceipts | appMUC
		}
		var b strings.Builder
		h.open(&b)
		prev := "<"
		for i := 0; i < k; i++ {
			sn := snips[c.Choose(len(snips), "child")]
			if sn == "x" && prev == "x" {
				return nd.Result{Skip: true} // adjacent text is one text node
			}
			if sn != "" {
				prev = sn
			}
			b.WriteString(sn)
		}
		h.close(&b)
		b.WriteString(streamEnd)
		return check(c, rc, h.kind+"/mixed-children", b.String())
	}
}

// Malformed endings and stream-level constructs inside a payload.
var inserts = []string{
	`<!-- c -->`,
	`<?pi x?>`,
	`<!DOCTYPE x>`,
	`<stream:error><host-gone xmlns='urn:ietf:params:xml:ns:xmpp-streams'/></stream:error>`,
	`<stream:stream xmlns='jabber:client' xmlns:stream='http://etherx.jabber.org/streams' version='1.0'>`,
	`<stream:features/>`,
	`</stream:stream>`,
	`</nope>`,
	`<![CDATA[x]]>`,
	`&bogus;`,
	`<q:r/>`,
	"\x00",
	`<a b='1' b='2'/>`,
	`<a b=c/>`,
}

const follow = `<iq type='get' id='after' from='` + peerFull + `'><ping xmlns='urn:xmpp:ping'/></iq>` + streamEnd

// positions returns the offsets at which an item is cut or a construct is
// inserted: every offset for short items, the head and the tail of long ones.
func cutPositions(s string) []int {
	var ps []int
	for i := 0; i <= len(s); i++ {
		if len(s) > 1200 && i > 500 && i < len(s)-300 {
			continue
		}
		ps = append(ps, i)
	}
	return ps
}

func tagPositions(s string) []int {
	var ps []int
	for i := 0; i <= len(s); i++ {
		if len(s) > 1200 && i > 500 && i < len(s)-300 {
			continue
		}
		if (i < len(s) && s[i] == '<') || (i > 0 && s[i-1] == '>') {
			if n := len(ps); n == 0 || ps[n-1] != i {
				ps = append(ps, i)
			}
		}
	}
	return ps
}

func endTags(s string) [][2]int {
	var out [][2]int
	for i := 0; i+1 < len(s); i++ {
		if s[i] == '<' && s[i+1] == '/' {
			if len(s) > 1200 && i > 500 && i < len(s)-300 {
				continue
			}
			j := strings.IndexByte(s[i:], '>')
			if j > 0 {
				out = append(out, [2]int{i + 2, i + j})
			}
		}
	}
	return out
}

func malformedBody(r0 int) nd.Body {
	return func(c *nd.Ctx) nd.Result {
		if !rank(c, r0) {
			return nd.Result{Skip: true}
		}
		p := &pkgs[c.Choose(len(pkgs), "package")]
		item := p.pool[c.Choose(len(p.pool), "stanza")]
		rc := runCfg{ns: stanza.NSClient, cfg: cfgFull, app: p.app}
		var input string
		switch c.Choose(3, "mutation") {
		case 0: // the input ends inside the stanza
			ps := cutPositions(item)
			input = item[:ps[c.Choose(len(ps), "cut-at")]]
		case 1: // a construct that may not appear there is inserted at a tag boundary
			ps := tagPositions(item)
			if len(ps) == 0 {
				return nd.Result{Skip: true}
			}
			at := ps[c.Choose(len(ps), "insert-at")]
			ins := inserts[c.Choose(len(inserts), "construct")]
			input = item[:at] + ins + item[at:] + follow
		default: // an end tag is replaced by a different one
			ets := endTags(item)
			if len(ets) == 0 {
				return nd.Result{Skip: true}
			}
			et := ets[c.Choose(len(ets), "end-tag")]
			input = item[:et[0]] + "nope" + item[et[1]:] + follow
		}
		return check(c, rc, p.name+"/malformed", input)
	}
}

// sizeBody: large and deeply nested payloads.
func sizeBody(scale, r0 int) nd.Body {
	shapes := []string{"deep-unknown", "deep-own", "siblings", "text", "attributes", "attribute-value", "name", "deep-text"}
	return func(c *nd.Ctx) nd.Result {
		if !rank(c, r0) {
			return nd.Result{Skip: true}
		}
		p := &pkgs[c.Choose(len(pkgs), "package")]
		r := &p.roots[c.Choose(len(p.roots), "pattern")]
		typ := r.types[c.Choose(len(r.types), "type")]
		shape := shapes[c.Choose(len(shapes), "shape")]
		root := &tnode{name: r.el.name}
		for _, a := range r.el.attrs {
			root.attrs = append(root.attrs, wattr{a.name, a.valid})
		}
		ns := stanza.NSClient
		var b strings.Builder
		h := header{kind: r.kind, typ: typeAttr(typ), from: peerFull, to: ownFull, id: "i1"}
		h.open(&b)
		var open strings.Builder
		root.write(&open, ns, ns)
		start := strings.TrimSuffix(open.String(), "/>")
		b.WriteString(start)
		deep := 10100 * scale
		wide := 5000 * scale
		switch shape {
		case "deep-unknown":
			b.WriteString(">" + strings.Repeat(`<u xmlns="urn:unknown">`, 1) + strings.Repeat("<u>", deep-1) + strings.Repeat("</u>", deep))
		case "deep-own":
			b.WriteString(">" + strings.Repeat("<"+r.el.name.Local+">", deep) + strings.Repeat("</"+r.el.name.Local+">", deep))
		case "deep-text":
			b.WriteString(">" + strings.Repeat("<"+r.el.name.Local+">x", deep) + strings.Repeat("y</"+r.el.name.Local+">", deep))
		case "siblings":
			child := "<" + r.el.name.Local + "/>"
			if len(p.elems) > 0 {
				var cb strings.Builder
				(&tnode{name: p.elems[0].name}).write(&cb, r.el.name.Space, ns)
				child = cb.String()
			}
			b.WriteString(">" + strings.Repeat(child, wide))
		case "text":
			b.WriteString(">" + strings.Repeat("aGk=", 100000*scale))
		case "attributes":
			for i := 0; i < wide; i++ {
				fmt.Fprintf(&b, ` a%d="x"`, i)
			}
			b.WriteString(">")
		case "attribute-value":
			b.WriteString(` big="` + strings.Repeat("x", 400000*scale) + `">`)
		case "name":
			n := strings.Repeat("n", 100000*scale)
			b.WriteString("><" + n + "/>")
		}
		b.WriteString("</" + r.el.name.Local + ">")
		h.close(&b)
		b.WriteString(follow)
		rc := runCfg{ns: ns, cfg: cfgFull, app: p.app}
		return check(c, rc, p.name+"/"+r.kind+"/"+r.el.name.Local+"/size:"+shape, b.String())
	}
}

func withApp(p *pkgSpec) bool    { return p.app != 0 }
func withoutApp(p *pkgSpec) bool { return p.app == 0 }

func init() {
	drv.Register(&drv.Prop{
		ID:    "C09",
		Level: "model_checking",
		Rule: "first half of C09 (peer input to a served session). Every case is one real xmpp.Session (public API) over a finite scripted input, served by a mux carrying every handler the library provides " +
			"(ibb, history, receipts, muc client + direct invites, disco info/items with the whole-mux feature/identity/item/form walk, disco caps, roster, blocklist, carbons, xtime, version, ping, bin, a nested mux; bookmarks/crypto/commands/forward/oob/upload/styling feature iterators) with trivial application callbacks. " +
			"tree: for every registered (kind, type, payload) pattern, the stanza whose children are [text|white space|unknown element]? payload [text|white space|unknown element|another payload of the package]* where payloads carry every tree of the package's own elements (each with its own attributes set to valid/empty/junk, an unknown attribute, at the payload root also xml:lang and a prefixed attribute), an unknown element, text, white space and package specific text, all together <= N nodes (quick 3, thorough 4), duplicate attributes and adjacent text nodes excluded. " +
			"header: every payload x every stanza type (also missing, empty, undefined) x from {peer, missing, own bare, not a JID, empty} x to {own, missing, not a JID} x id {set, missing, empty} x xml:lang {missing, en, empty} x client/server namespace x {full mux, full mux with failing callbacks, nil handler, empty mux} x {default-namespace payload, prefixed payload, no payload}, with payload trees of <= M nodes (quick 1, thorough 2) under the default namespace/config/spelling. " +
			"sequence: every sequence of K (quick 2, thorough 3) stanzas from the package's reduced pool plus the generic pool, x namespace x callbacks x application state (IBB listener being accepted on / history query q1 being iterated / receipt r1 awaited / room being joined) on or off; every message/presence with K+1 children drawn from the payloads of all packages (text, body, error included) x every type x application state; pairs of the IBB pool also with a listener whose application earlier gave up Listener.Expect for (peer, s1). " +
			"malformed: every pool stanza cut at every byte offset (EOF inside), with each of 14 constructs (comment, PI, directive, stream error, stream restart, stream features, closing stream tag, stray end tag, CDATA, undefined entity, unbound prefix, NUL, duplicate attribute, unquoted attribute) inserted at every tag boundary, and with every end tag replaced by a different one. " +
			"size: every pattern x {10100-deep nesting (unknown / own element / with text), 5000 siblings, 400 kB text, 5000 attributes, 400 kB attribute value, 100 kB element name}. " +
			"Oracle: no panic (recovered around Serve; library goroutines and runtime fatal errors through worker crash isolation), Serve returns (nil or any error) - judged without a clock: Serve runs in its own goroutine and is declared blocked forever when a stop-the-world snapshot shows every goroutine other than the observer parked on a channel/select/mutex/condition (no timers, no real I/O exist in the harness, so nothing can wake them) -, everything the session wrote parses as XML after the stream header. Non-trivial = distinct (configuration, input). " + helpersRule,
		Assumptions: []string{
			"'any byte string' is covered through this structured alphabet (token trees over each package's vocabulary), the byte-offset truncations and the listed malformed constructs only",
			"application callbacks are trivial: they read the token stream they are handed to its end and return nil, a stanza error or a plain error; the application accepts IBB connections, iterates its history query without reading the message streams, and does nothing after a join or a receipt",
			"a Serve that never returns is not judged by a clock but by a goroutine snapshot in which everything is parked (signature serve:blocked-forever@<library frame>); a Serve that spins, or waits on a goroutine that spins, would show as a hung worker (engine error) and be investigated by hand",
			"request helpers (second half): the reply alphabet is the structured one of the rule (token trees over each helper's vocabulary plus ready-made typical subtrees, the listed ill-formed shapes); one fixed (canonical) schedule per reply, since the quantifier is the reply; the application consumes what a helper returns as documented (drains iterators, closes them once, closes raw responses), does not read the message streams of a history iterator, and cancels the context of outstanding calls when Serve has returned; later requests of the same call (next page, walk, next command stage) are answered by an empty result or one of two error replies; a non-reply <iq type='get'/> carrying a disco query is left out for the disco helpers (disco's handler answers through an un-instrumented xmlstream.Pipe and cannot run under the scheduler)",
		},
		Parts: func(tier string) []drv.Part {
			n, m, k, scale := 3, 1, 2, 1
			b := 80 * time.Second
			if tier == "thorough" {
				n, m, k, scale = 4, 2, 3, 2
				b = 18 * time.Minute
			}
			// deviation accounting: a tree node costs 1; later parts start at a
			// rank above everything an earlier part can spend (see rank)
			rh := n + 1
			rs := rh + m + 1
			rm := rs + 1
			rz := rm + 1
			rx := rz + 1
			rq := rx + 1
			// one P per worker: the observer's Gosched hands the processor straight
			// to Serve's goroutine (the 16 workers are the parallelism)
			oneP := []string{"GOMAXPROCS=1"}
			histPre := 1
			if tier == "thorough" {
				histPre = 2
			}
			return append(helperParts(tier), []drv.Part{
				{Name: "tree-stateless", Desc: fmt.Sprintf("payload forests of <= %d nodes, handlers without application state", n), Body: treeBody(withoutApp), MaxDev: n, CutDepth: 4, Budget: b, CrashIsolate: true, Env: oneP},
				{Name: "tree-stateful", Desc: fmt.Sprintf("payload forests of <= %d nodes, handlers with tables (ibb, history, receipts, muc) and their application state", n), Body: treeBody(withApp), MaxDev: n, CutDepth: 4, Budget: b, CrashIsolate: true, Env: oneP},
				{Name: "header", Desc: fmt.Sprintf("stanza types x from x to x id x namespace x handler configuration x spelling; payload trees of <= %d nodes (deviations = %d for the part + nodes)", m, rh), Body: headerBody(rh), MaxDev: rh + m, CutDepth: 5, Budget: b, CrashIsolate: true, Env: oneP},
				{Name: "sequence", Desc: fmt.Sprintf("sequences of %d pool stanzas (deviations = %d for the part)", k, rs), Body: seqBody(k, rs, "", 0), MaxDev: rs, CutDepth: 5, Budget: b, CrashIsolate: true, Env: oneP},
				{Name: "mixed", Desc: fmt.Sprintf("messages and presences with %d children drawn from the payloads of all packages, every type, with and without application state (deviations = %d for the part)", k+1, rq), Body: mixedBody(k+1, rq), MaxDev: rq, CutDepth: 5, Budget: b, CrashIsolate: true, Env: oneP},
				{Name: "malformed", Desc: fmt.Sprintf("truncations, inserted stream-level/ill-formed constructs, mismatched end tags (deviations = %d for the part)", rm), Body: malformedBody(rm), MaxDev: rm, CutDepth: 4, Budget: b, CrashIsolate: true, Env: oneP},
				{Name: "size", Desc: fmt.Sprintf("large and deeply nested payloads (deviations = %d for the part)", rz), Body: sizeBody(scale, rz), MaxDev: rz, CutDepth: 4, Budget: b, CrashIsolate: true, Env: oneP},
				{Name: "history-iterator", Desc: "a tracked archive query (history.Handler.Fetch): 0-2 result messages + result, the application takes 0-2 / all messages and closes the iterator, the context is cancelled at any instant; every interleaving of serve loop, application, canceller and the library's fetch goroutine up to the preemption bound", Body: historyIterBody, MaxDev: histPre, ShardLevels: 2, Budget: 2 * b, Env: oneP},
				drv.RacePart(8*histPre, histPre, b, historyIterBody),
				{Name: "ibb-expect", Desc: fmt.Sprintf("sequences of 2 pool stanzas (both tiers: every execution found blocked leaves its goroutines behind) for an IBB listener whose application earlier gave up an Expect call for stream s1 of the peer (deviations = %d for the part)", rx), Body: seqBody(2, rx, "ibb", appIBBGaveUp), MaxDev: rx, CutDepth: 5, Budget: b, CrashIsolate: true, Env: oneP},
			}...)
		},
	})
}
