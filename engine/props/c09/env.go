package c09

import (
	"bytes"
	"context"
	_ "crypto/sha256"
	"encoding/xml"
	"errors"
	"io"
	"strings"
	"sync"
	"time"

	"mellium.im/xmlstream"
	"mellium.im/xmpp"
	"mellium.im/xmpp/bin"
	"mellium.im/xmpp/blocklist"
	"mellium.im/xmpp/bookmarks"
	"mellium.im/xmpp/carbons"
	"mellium.im/xmpp/commands"
	xcrypto "mellium.im/xmpp/crypto"
	"mellium.im/xmpp/disco"
	"mellium.im/xmpp/disco/info"
	"mellium.im/xmpp/disco/items"
	"mellium.im/xmpp/form"
	"mellium.im/xmpp/forward"
	"mellium.im/xmpp/history"
	"mellium.im/xmpp/ibb"
	"mellium.im/xmpp/jid"
	"mellium.im/xmpp/muc"
	"mellium.im/xmpp/mux"
	"mellium.im/xmpp/oob"
	"mellium.im/xmpp/ping"
	"mellium.im/xmpp/receipts"
	"mellium.im/xmpp/roster"
	"mellium.im/xmpp/stanza"
	"mellium.im/xmpp/styling"
	"mellium.im/xmpp/upload"
	"mellium.im/xmpp/version"
	"mellium.im/xmpp/xtime"

	"verif/sess"
	"verif/vs"
)

// Handler configurations.
const (
	cfgFull  = iota // mux with every library handler + disco aggregation
	cfgNil          // Serve(nil): the bare library default
	cfgEmpty        // mux.New(ns) without any registration
	nCfg
)

var (
	roomJID    = jid.MustParse(peerFull)
	archiveJID = jid.MustParse("example.net")
	peerJID    = jid.MustParse("a@example.org/r")
)

// drain is what the trivial application callbacks do with a token reader they
// are handed: read it to the end (bounded).
func drain(r xml.TokenReader) error {
	if r == nil {
		return nil
	}
	for i := 0; i < 1<<22; i++ {
		tok, err := r.Token()
		if err == io.EOF {
			return nil
		}
		if err != nil {
			return err
		}
		if tok == nil {
			return errors.New("c09: nil token with nil error")
		}
	}
	return errors.New("c09: token reader does not end")
}

var errApp = errors.New("c09: application callback error")
var stanzaErrApp = stanza.Error{Type: stanza.Cancel, Condition: stanza.NotAllowed}

// appIters is an application handler that contributes identities, items and
// forms to the disco walk of the mux.
type appIters struct{}

func (appIters) HandleXMPP(t xmlstream.TokenReadEncoder, start *xml.StartElement) error {
	return drain(t)
}
func (appIters) ForIdentities(node string, f func(info.Identity) error) error {
	return f(info.Identity{Category: "client", Type: "bot", Name: "c09", Lang: "en"})
}
func (appIters) ForItems(node string, f func(items.Item) error) error {
	if err := f(items.Item{JID: archiveJID, Node: "urn:app:node", Name: "n"}); err != nil {
		return err
	}
	return f(items.Item{JID: archiveJID, Node: node})
}
func (appIters) ForForms(node string, f func(*form.Data) error) error {
	return f(form.New(form.Hidden("FORM_TYPE", form.Value("urn:app:form")), form.Text("t", form.Value("v"))))
}
func (appIters) ForFeatures(node string, f func(info.Feature) error) error {
	for _, ft := range []info.Feature{commands.Feature, forward.Feature, oob.Feature, oob.FeatureIQ, upload.Feature, styling.Feature, version.Feature, form.Feature, jid.FeatureEscaping} {
		if err := f(ft); err != nil {
			return err
		}
	}
	return nil
}

// world is everything one execution sets up around the session.
type world struct {
	ibbH  *ibb.Handler
	histH *history.Handler
	recH  *receipts.Handler
	mucC  *muc.Client
	calls int // application callbacks invoked (diagnostic)
}

// fullMux registers every handler the library provides.  cb selects what the
// application callbacks answer: 0 success, 1 a stanza error / plain error.
func (w *world) fullMux(ns string, cb int) *mux.ServeMux {
	w.ibbH = &ibb.Handler{}
	inner := mux.MessageHandlerFunc(func(m stanza.Message, t xmlstream.TokenReadEncoder) error {
		w.calls++
		if err := drain(t); err != nil {
			return err
		}
		if cb == 1 {
			return errApp
		}
		return nil
	})
	w.histH = history.NewHandler(inner)
	w.recH = &receipts.Handler{Unhandled: func(string) { w.calls++ }}
	w.mucC = &muc.Client{
		HandleInvite:       func(muc.Invitation) { w.calls++ },
		HandleUserPresence: func(stanza.Presence, muc.Item) { w.calls++ },
	}
	if cb == 2 {
		// an application that does not care: the optional callbacks are absent
		w.recH = &receipts.Handler{}
		w.mucC = &muc.Client{}
	}
	innerMux := mux.New(ns, ping.Handle(), mux.Feature(bookmarks.Handler{}))
	return mux.New(ns,
		ibb.Handle(w.ibbH),
		history.Handle(w.histH),
		receipts.Handle(w.recH),
		muc.HandleClient(w.mucC),
		muc.HandleInvite(func(muc.Invitation) { w.calls++ }),
		disco.Handle(),
		disco.HandleCaps(func(stanza.Presence, disco.Caps) { w.calls++ }),
		roster.Handle(roster.Handler{Push: func(ver string, item roster.Item) error {
			w.calls++
			switch {
			case cb == 1 && ver == "":
				return stanzaErrApp
			case cb == 1:
				return errApp
			}
			return nil
		}}),
		blocklist.Handle(blocklist.Handler{
			Block:      func(blocklist.Item) { w.calls++ },
			Unblock:    func(jid.JID) { w.calls++ },
			UnblockAll: func() { w.calls++ },
			List: func(c chan<- jid.JID) {
				if cb == 0 {
					// (scheduling points when a controlled run is active, plain sends otherwise)
					vs.Send(c, archiveJID)
					vs.Send(c, peerJID)
				}
			},
		}),
		carbons.Handle(carbons.Handler{F: func(m stanza.Message, sent bool, inner xml.TokenReader) error {
			w.calls++
			if err := drain(inner); err != nil {
				return err
			}
			if cb == 1 {
				return errApp
			}
			return nil
		}}),
		xtime.Handle(xtime.Handler{TimeFunc: func() time.Time { return time.Unix(1577836800, 0).UTC() }}),
		version.Handle(version.Query{Name: "c09", Version: "1", OS: "none"}),
		ping.Handle(),
		bin.Handle(bin.Handler{Get: func(cid string) (*bin.Data, error) {
			w.calls++
			switch {
			case cb == 1 && cid == "":
				return nil, errApp
			case cb == 1:
				return nil, stanzaErrApp
			}
			return &bin.Data{CID: cid, Type: "text/plain", Data: []byte("hi")}, nil
		}}),
		// what is not a handler but takes part in the disco walk
		mux.Feature(bookmarks.Handler{}),
		mux.Feature(xcrypto.Features(xcrypto.SHA256)),
		mux.Ident(appIters{}),
		mux.Handle(xml.Name{Space: "urn:app"}, appIters{}),
		mux.Handle(xml.Name{Space: "urn:inner"}, innerMux),
	)
}

// syncRW is a scripted connection whose output can be awaited.
type syncRW struct {
	mu   sync.Mutex
	cond *sync.Cond
	in   *bytes.Reader
	out  bytes.Buffer
}

func newSyncRW(input string) *syncRW {
	rw := &syncRW{in: bytes.NewReader([]byte(input))}
	rw.cond = sync.NewCond(&rw.mu)
	return rw
}

func (rw *syncRW) Read(p []byte) (int, error) { return rw.in.Read(p) }
func (rw *syncRW) Write(p []byte) (int, error) {
	rw.mu.Lock()
	defer rw.mu.Unlock()
	n, err := rw.out.Write(p)
	rw.cond.Broadcast()
	return n, err
}

// waitFor blocks until the output contains sub.
func (rw *syncRW) waitFor(sub string) {
	rw.mu.Lock()
	defer rw.mu.Unlock()
	for !bytes.Contains(rw.out.Bytes(), []byte(sub)) {
		rw.cond.Wait()
	}
}

func (rw *syncRW) String() string {
	rw.mu.Lock()
	defer rw.mu.Unlock()
	return rw.out.String()
}

// run is one execution: a fresh session over `input` (everything after the
// peer's stream header), a fresh handler, Serve until it returns.
type runCfg struct {
	ns  string
	cfg int
	cb  int
	app int // application state bits (cfgFull only)
	// unaddr: a received session without any address (the peer's header named
	// neither side); only without application state
	unaddr bool
}

type runOut struct {
	serveErr error
	out      string
	calls    int
}

// serve runs body (which calls Session.Serve) and tears the application state
// down afterwards.
func (rc runCfg) run(input string, serve func(s *xmpp.Session, h xmpp.Handler) (err error, wedged bool)) (ro runOut) {
	w := &world{}
	var h xmpp.Handler
	switch rc.cfg {
	case cfgFull:
		h = w.fullMux(rc.ns, rc.cb)
	case cfgEmpty:
		h = mux.New(rc.ns)
	}
	if rc.app == 0 || rc.cfg != cfgFull {
		mk := sess.New
		if rc.unaddr {
			mk = sess.NewUnaddressed
		}
		s, rw, err := mk(rc.ns, input)
		if err != nil {
			panic("c09: session setup failed: " + err.Error())
		}
		var wedged bool
		ro.serveErr, wedged = serve(s, h)
		if !wedged { // otherwise the parked Serve still owns the connection
			ro.out = rw.Out.String()
			ro.calls = w.calls
		}
		return ro
	}

	rw := newSyncRW(sess.Header(rc.ns) + input)
	s, err := sess.NewRW(rc.ns, rw, 0)
	if err != nil {
		panic("c09: session setup failed: " + err.Error())
	}
	ctx, cancel := context.WithCancel(context.Background())
	var wg sync.WaitGroup
	var listener *ibb.Listener
	if rc.app&appIBB != 0 {
		// the application listens for incoming IBB streams and accepts them
		listener = w.ibbH.Listen(s)
		if rc.app&appIBBGaveUp != 0 {
			// ... and has earlier waited for one particular stream, negotiated out
			// of band, until its context ended
			gone, stop := context.WithCancel(ctx)
			stop()
			_, _ = listener.Expect(gone, roomJID, "s1")
		}
		wg.Add(1)
		go func() {
			defer wg.Done()
			for {
				if _, err := listener.Accept(); err != nil {
					return
				}
			}
		}()
	}
	if rc.app&appHistory != 0 {
		// the application queries the archive and iterates over the results
		// (it does not read the message streams it is handed)
		iter := w.histH.Fetch(ctx, history.Query{ID: "q1"}, archiveJID, s)
		rw.waitFor("</iq>")
		wg.Add(1)
		go func() {
			defer wg.Done()
			for iter.Next() {
			}
		}()
	}
	if rc.app&appReceipts != 0 {
		// the application has sent message r1 and waits for its receipt
		wg.Add(1)
		go func() {
			defer wg.Done()
			_ = w.recH.SendMessageElement(ctx, s, nil, stanza.Message{ID: "r1", To: peerJID, Type: stanza.ChatMessage})
		}()
		rw.waitFor("</message>")
	}
	if rc.app&appMUC != 0 {
		// the application is joining the room and waits for its self-presence
		wg.Add(1)
		go func() {
			defer wg.Done()
			_, _ = w.mucC.Join(ctx, roomJID, s)
		}()
		rw.waitFor("</presence>")
	}
	var wedged bool
	ro.serveErr, wedged = serve(s, h)
	cancel()
	if wedged {
		// Serve is parked for good and may hold locks the application state
		// needs to wind down: leave everything behind.
		return ro
	}
	if listener != nil {
		listener.Close()
	}
	wg.Wait()
	ro.out = rw.String()
	ro.calls = w.calls
	return ro
}

func errClass(err error) string {
	if err == nil {
		return "nil"
	}
	m := err.Error()
	switch {
	case strings.Contains(m, "XML syntax error"), strings.Contains(m, "unexpected EOF"), strings.Contains(m, "expected element"), strings.Contains(m, "unexpected end element"):
		return "err:xml"
	case strings.Contains(m, "stream in a bad state"), strings.Contains(m, "restricted"):
		return "err:stream"
	}
	return "err:other"
}
