package c09

import (
	"fmt"
	"runtime"
	"strings"
)

// A clock-free oracle for "Serve returns".  Serve runs in its own goroutine;
// the harness goroutine yields until Serve is done or until a snapshot of all
// goroutines (runtime.Stack stops the world, so the snapshot is consistent)
// shows every goroutine other than the observer parked on a channel, select,
// mutex, condition variable or wait group.  The harness uses no timers and no
// real I/O (the connection is a byte slice), so parked goroutines can only be
// woken by another goroutine: once all of them are parked and the observer is
// only watching, nothing can ever change - Serve is blocked forever.

var parkedStates = []string{
	"chan send", "chan receive", "select", "sync.Cond.Wait", "sync.Mutex.Lock", "sync.RWMutex.RLock",
	"sync.RWMutex.Lock", "sync.WaitGroup.Wait", "semacquire",
}

type goroutineInfo struct {
	id    int
	state string
	stack string
}

func snapshot() []goroutineInfo {
	buf := make([]byte, 1<<16)
	for {
		n := runtime.Stack(buf, true)
		if n < len(buf) {
			buf = buf[:n]
			break
		}
		buf = make([]byte, 2*len(buf))
	}
	var out []goroutineInfo
	for _, g := range strings.Split(string(buf), "\n\n") {
		g = strings.TrimSpace(g)
		if !strings.HasPrefix(g, "goroutine ") {
			continue
		}
		head := g
		if i := strings.IndexByte(g, '\n'); i >= 0 {
			head = g[:i]
		}
		st := ""
		if i := strings.IndexByte(head, '['); i >= 0 {
			if j := strings.IndexByte(head[i:], ']'); j > 0 {
				st = head[i+1 : i+j]
			}
		}
		id := 0
		fmt.Sscanf(head, "goroutine %d ", &id)
		out = append(out, goroutineInfo{id: id, state: st, stack: g})
	}
	return out
}

func parked(state string) bool {
	for _, p := range parkedStates {
		if state == p || strings.HasPrefix(state, p+",") || strings.HasPrefix(state, p+" (") {
			return true
		}
	}
	return false
}

// await waits for done.  If instead the process reaches a state in which Serve
// can never return it gives the top library frame Serve is parked in, and the
// snapshot.
func await(done <-chan struct{}) (blockedAt, dump string) {
	for i := 1; ; i++ {
		select {
		case <-done:
			return "", ""
		default:
		}
		runtime.Gosched()
		if i < 4 || i&(i-1) != 0 { // snapshots after 4, 8, 16, ... yields
			continue
		}
		gs := snapshot()
		select {
		case <-done: // Serve returned (and its goroutine may be gone from the snapshot)
			return "", ""
		default:
		}
		// Serve's goroutine is alive; it is the youngest one that is inside Serve
		// (older ones are left over from executions that were found blocked).
		serveAt := ""
		serveID := -1
		allParked := true
		var sb strings.Builder
		for _, g := range gs {
			if g.state == "running" { // the observer itself
				continue
			}
			if !parked(g.state) {
				allParked = false
				break
			}
			sb.WriteString(g.stack + "\n\n")
			if g.id > serveID && strings.Contains(g.stack, "mellium.im/xmpp.(*Session).Serve(") {
				serveID = g.id
				for _, line := range strings.Split(g.stack, "\n") {
					if strings.HasPrefix(line, "mellium.im/xmpp") {
						serveAt = line
						if k := strings.LastIndex(serveAt, "("); k > 0 {
							serveAt = serveAt[:k]
						}
						break
					}
				}
			}
		}
		if allParked && serveAt != "" {
			return serveAt, sb.String()
		}
	}
}
