package c09

import (
	"fmt"
	"testing"

	"mellium.im/xmpp"
	"verif/nd"
)

func try(rc runCfg, input string) {
	var pn *nd.Panic
	ro := rc.run(input, func(s *xmpp.Session, h xmpp.Handler) (err error) {
		pn = nd.Catch(func() { err = s.Serve(h) })
		return err
	})
	fmt.Printf("IN : %s\nERR: %v\nOUT: %s\ncalls=%d\n", input, ro.serveErr, ro.out, ro.calls)
	if pn != nil {
		fmt.Printf("PANIC %s\n%s\n", panicSig(pn), pn.Value)
	}
	fmt.Println("----")
}

func TestDbg(t *testing.T) {
	all := appIBB | appHistory | appReceipts | appMUC
	rc := runCfg{ns: "jabber:client", cfg: cfgFull, app: all}
	for _, p := range pkgs {
		for _, it := range p.pool {
			if len(it) > 2000 {
				continue
			}
			try(rc, it+streamEnd)
		}
	}
}
