package c09

// Vocabulary of the library's own extension handlers, extracted by hand from
// the XML struct tags, xml.Name literals, attribute loops and the mux
// registrations of each package in /repo (ibb/payloads.go, history/query.go,
// receipts/receipts.go, muc/{muc,invites,types}.go, disco/{handler,caps}.go,
// roster/roster.go, blocklist/{handler,blocking}.go, carbons/handler.go,
// forward/forward.go, delay/delay.go, xtime/time.go, version/version.go,
// ping/ping.go, bin/bob.go, stanza/error.go).

import "encoding/xml"

const (
	nsIBB       = "http://jabber.org/protocol/ibb"
	nsMAM       = "urn:xmpp:mam:2"
	nsReceipts  = "urn:xmpp:receipts"
	nsMUC       = "http://jabber.org/protocol/muc"
	nsMUCUser   = "http://jabber.org/protocol/muc#user"
	nsConf      = "jabber:x:conference"
	nsInfo      = "http://jabber.org/protocol/disco#info"
	nsItems     = "http://jabber.org/protocol/disco#items"
	nsCaps      = "http://jabber.org/protocol/caps"
	nsRoster    = "jabber:iq:roster"
	nsBlocking  = "urn:xmpp:blocking"
	nsReporting = "urn:xmpp:reporting:1"
	nsSID       = "urn:xmpp:sid:0"
	nsCarbons   = "urn:xmpp:carbons:2"
	nsForward   = "urn:xmpp:forward:0"
	nsDelay     = "urn:xmpp:delay"
	nsTime      = "urn:xmpp:time"
	nsVersion   = "jabber:iq:version"
	nsPing      = "urn:xmpp:ping"
	nsBOB       = "urn:xmpp:bob"
	nsData      = "jabber:x:data"
	nsStanzaErr = "urn:ietf:params:xml:ns:xmpp-stanzas"
	nsUnknown   = "urn:unknown"

	// nsStanza stands for the stream's own stanza namespace (jabber:client or
	// jabber:server, whichever the session uses).
	nsStanza = "\x00stanza"
)

// Addresses used by the alphabet.  The session's own address is
// me@example.net/res (sess.Origin); the room is the address the application
// joined in the scenarios with application state.
const (
	peerFull = "room@conf.example.net/me"
	ownFull  = "me@example.net/res"
	ownBare  = "me@example.net"
	junkJID  = "@@"
	// junkVal is not a JID, a number, a boolean, a time or base64, and needs
	// escaping wherever it is echoed.
	junkVal = "@@<&\"'"
)

type attrSpec struct {
	name  string // as written (may carry the xml: prefix)
	valid string
}

type elemSpec struct {
	name  xml.Name
	attrs []attrSpec
}

// rootSpec is one registered (stanza kind, types, payload) pattern.
type rootSpec struct {
	kind  string   // iq | message | presence
	types []string // the types the library registers the payload for ("" = no type attribute)
	el    elemSpec
}

const (
	appIBB       = 1 << iota // an ibb.Listener exists for the session and the application accepts connections
	appHistory               // the application is iterating over a history query with id q1
	appReceipts              // the application is waiting for the receipt of message r1
	appMUC                   // the application is joining room@conf.example.net/me
	appIBBGaveUp             // an earlier Listener.Expect(ctx, room@conf.example.net/me, "s1") of the application ended with its context
)

type pkgSpec struct {
	name  string
	roots []rootSpec
	elems []elemSpec // child element vocabulary (any of them may appear anywhere below the payload)
	texts []string   // package specific character data besides "x" and white space
	app   int        // application state the package's tables depend on
	pool  []string   // reduced pool of stanzas for sequences
}

func el(space, local string, attrs ...attrSpec) elemSpec {
	return elemSpec{name: xml.Name{Space: space, Local: local}, attrs: attrs}
}

func at(name, valid string) attrSpec { return attrSpec{name, valid} }

var (
	stampAttr = at("stamp", "2020-01-01T00:00:00Z")
	fwdElems  = []elemSpec{
		el(nsForward, "forwarded"),
		el(nsDelay, "delay", stampAttr, at("from", "a@example.org")),
		el("jabber:client", "message", at("type", "chat"), at("from", "a@example.org/r"), at("to", ownBare), at("id", "m1")),
		el("jabber:client", "body"),
	}
)

func hdr(kind, typ, id string) string {
	s := "<" + kind
	if typ != "" {
		s += " type='" + typ + "'"
	}
	if id != "" {
		s += " id='" + id + "'"
	}
	return s + " from='" + peerFull + "' to='" + ownFull + "'>"
}

func iq(typ, id, payload string) string { return hdr("iq", typ, id) + payload + "</iq>" }
func msg(typ, id, content string) string {
	return hdr("message", typ, id) + content + "</message>"
}
func pres(typ, content string) string { return hdr("presence", typ, "") + content + "</presence>" }

const fwdMsg = `<forwarded xmlns='urn:xmpp:forward:0'><delay xmlns='urn:xmpp:delay' stamp='2020-01-01T00:00:00Z'/><message xmlns='jabber:client' from='a@example.org/r' to='me@example.net' type='chat'><body>hi</body></message></forwarded>`

var bigBase64 = func() string {
	b := make([]byte, 352000)
	for i := range b {
		b[i] = 'A'
	}
	return string(b)
}()

var pkgs = []pkgSpec{
	{
		name: "ibb",
		app:  appIBB,
		roots: []rootSpec{
			{"iq", []string{"set"}, el(nsIBB, "open", at("block-size", "4096"), at("sid", "s1"), at("stanza", "message"))},
			{"iq", []string{"set"}, el(nsIBB, "close", at("sid", "s1"))},
			{"iq", []string{"set"}, el(nsIBB, "data", at("seq", "0"), at("sid", "s1"))},
			{"message", []string{"", "normal"}, el(nsIBB, "data", at("seq", "0"), at("sid", "s1"))},
		},
		elems: []elemSpec{
			el(nsIBB, "open", at("block-size", "4096"), at("sid", "s1"), at("stanza", "message")),
			el(nsIBB, "data", at("seq", "0"), at("sid", "s1")),
			el(nsIBB, "close", at("sid", "s1")),
		},
		texts: []string{"aGk="},
		pool: []string{
			iq("set", "o1", `<open xmlns='`+nsIBB+`' block-size='4096' sid='s1' stanza='iq'/>`),
			iq("set", "o2", `<open xmlns='`+nsIBB+`' block-size='4096' sid='s1' stanza='message'/>`),
			iq("set", "o3", `<open xmlns='`+nsIBB+`'/>`),
			iq("set", "o4", `<open xmlns='`+nsIBB+`' block-size='0' sid='s1'/>`),
			iq("set", "o5", `<open xmlns='`+nsIBB+`' block-size='65535' sid='s2' stanza='bogus'/>`),
			iq("set", "d1", `<data xmlns='`+nsIBB+`' seq='0' sid='s1'>aGk=</data>`),
			iq("set", "d2", `<data xmlns='`+nsIBB+`' seq='1' sid='s1'>aGk=</data>`),
			iq("set", "d3", `<data xmlns='`+nsIBB+`' seq='0' sid='s1'>!!!</data>`),
			iq("set", "d4", `<data xmlns='`+nsIBB+`' seq='65535' sid='s1'/>`),
			iq("set", "d5", `<data xmlns='`+nsIBB+`'/>`),
			iq("set", "d6", `<data xmlns='`+nsIBB+`' seq='0' sid='s1'>`+bigBase64+`</data>`),
			msg("", "d7", `<data xmlns='`+nsIBB+`' seq='0' sid='s1'>aGk=</data>`),
			msg("", "d8", `<data xmlns='`+nsIBB+`' seq='1' sid='s1'>aGk</data>`),
			msg("", "", `<data xmlns='`+nsIBB+`'/>`),
			iq("set", "c1", `<close xmlns='`+nsIBB+`' sid='s1'/>`),
			iq("set", "c2", `<close xmlns='`+nsIBB+`'/>`),
		},
	},
	{
		name: "history",
		app:  appHistory,
		roots: []rootSpec{
			{"message", []string{"", "normal"}, el(nsMAM, "result", at("queryid", "q1"), at("id", "a1"))},
		},
		elems: append([]elemSpec{el(nsMAM, "result", at("queryid", "q1"), at("id", "a1")), el(nsMAM, "fin", at("complete", "true"))}, fwdElems...),
		pool: []string{
			msg("", "", `<result xmlns='`+nsMAM+`' queryid='q1' id='a1'>`+fwdMsg+`</result>`),
			msg("", "", `<result xmlns='`+nsMAM+`' queryid='q1' id='a2'>`+fwdMsg+`</result>`),
			msg("", "", `<result xmlns='`+nsMAM+`' queryid='other' id='a1'>`+fwdMsg+`</result>`),
			msg("", "", `<result xmlns='`+nsMAM+`'/>`),
			msg("", "", `<result xmlns='`+nsMAM+`' queryid='q1'/>`),
			msg("", "", `<result xmlns='`+nsMAM+`' queryid='q1'/><result xmlns='`+nsMAM+`' queryid='q1'/>`),
			msg("", "", `<body>x</body><result xmlns='`+nsMAM+`' queryid='q1'/>`),
			msg("", "", ` <result xmlns='`+nsMAM+`' queryid='q1'/>`),
			msg("chat", "", `<result xmlns='`+nsMAM+`' queryid='q1'/>`),
			iq("result", "f1", `<fin xmlns='`+nsMAM+`' complete='true'/>`),
		},
	},
	{
		name: "receipts",
		app:  appReceipts,
		roots: []rootSpec{
			{"message", []string{"", "normal", "chat", "headline", "groupchat", "error"}, el(nsReceipts, "received", at("id", "r1"))},
			{"message", []string{"", "normal", "chat", "headline", "groupchat"}, el(nsReceipts, "request")},
		},
		elems: []elemSpec{el(nsReceipts, "received", at("id", "r1")), el(nsReceipts, "request"), el(nsStanza, "body")},
		pool: []string{
			msg("", "m1", `<received xmlns='`+nsReceipts+`' id='r1'/>`),
			msg("chat", "m2", `<received xmlns='`+nsReceipts+`' id='r1'/>`),
			msg("error", "m3", `<received xmlns='`+nsReceipts+`' id='r1'/>`),
			msg("", "m4", `<received xmlns='`+nsReceipts+`' id='r2'/>`),
			msg("", "m5", `<received xmlns='`+nsReceipts+`'/>`),
			msg("", "m6", `<received xmlns='`+nsReceipts+`' id='r1'/><received xmlns='`+nsReceipts+`' id='r1'/>`),
			msg("", "m7", `<request xmlns='`+nsReceipts+`'/>`),
			msg("chat", "", `<request xmlns='`+nsReceipts+`'/>`),
			msg("", "m8", `<body>x</body><request xmlns='`+nsReceipts+`'/>`),
			msg("", "m9", `<request xmlns='`+nsReceipts+`'/><received xmlns='`+nsReceipts+`' id='r1'/>`),
			msg("", "m10", ` <request xmlns='`+nsReceipts+`'/>`),
			`<message id='m11' from='@@'><request xmlns='` + nsReceipts + `'/></message>`,
		},
	},
	{
		name: "muc",
		app:  appMUC,
		roots: []rootSpec{
			{"presence", []string{"", "unavailable"}, el(nsMUCUser, "x")},
			{"message", []string{"", "normal"}, el(nsMUCUser, "x")},
			{"message", []string{"", "normal"}, el(nsConf, "x", at("jid", "room@conf.example.net"), at("continue", "true"), at("password", "pw"), at("reason", "why"), at("thread", "t1"))},
		},
		elems: []elemSpec{
			el(nsMUCUser, "x"),
			el(nsMUCUser, "item", at("jid", "a@example.org/r"), at("affiliation", "owner"), at("nick", "me"), at("role", "moderator")),
			el(nsMUCUser, "status", at("code", "110")),
			el(nsMUCUser, "invite", at("to", "a@example.org")),
			el(nsMUCUser, "reason"),
			el(nsMUCUser, "continue", at("thread", "t1")),
			el(nsMUCUser, "password"),
		},
		pool: []string{
			pres("", `<x xmlns='`+nsMUCUser+`'><item affiliation='owner' role='moderator' jid='me@example.net/res'/><status code='110'/></x>`),
			pres("", `<x xmlns='`+nsMUCUser+`'><item affiliation='member' role='participant'/></x>`),
			pres("", `<x xmlns='`+nsMUCUser+`'><item affiliation='bogus' role='participant'/></x>`),
			pres("", `<x xmlns='`+nsMUCUser+`'><item jid='@@'/><status code='x'/></x>`),
			pres("", `<x xmlns='`+nsMUCUser+`'/>`),
			pres("unavailable", `<x xmlns='`+nsMUCUser+`'><item affiliation='none' role='none'/><status code='110'/></x>`),
			pres("unavailable", `<x xmlns='`+nsMUCUser+`'/>`),
			`<presence from='room@conf.example.net/other'><x xmlns='` + nsMUCUser + `'><item role='visitor'/></x></presence>`,
			pres("", `<x xmlns='`+nsMUC+`'/>`),
			pres("", `x<x xmlns='`+nsMUCUser+`'/>`),
			msg("", "i1", `<x xmlns='`+nsMUCUser+`'><invite to='a@example.org'><reason>why</reason><continue thread='t1'/></invite><password>pw</password></x>`),
			msg("", "i2", `<x xmlns='`+nsMUCUser+`'><invite to='@@'/></x>`),
			msg("", "i3", `<x xmlns='`+nsConf+`' jid='room@conf.example.net' continue='true' thread='t1' password='pw' reason='why'/>`),
			msg("", "i4", `<x xmlns='`+nsConf+`' jid='@@' continue='maybe'/>`),
			msg("", "i5", `<body>x</body><x xmlns='`+nsConf+`'/>`),
		},
	},
	{
		name: "disco",
		roots: []rootSpec{
			{"iq", []string{"get"}, el(nsInfo, "query", at("node", "n1"))},
			{"iq", []string{"get"}, el(nsItems, "query", at("node", "n1"))},
			{"presence", []string{""}, el(nsCaps, "c", at("hash", "sha-1"), at("node", "http://example.org/c"), at("ver", "QgayPKawpkPSDYmwT/WM94uAlu0="))},
		},
		elems: []elemSpec{
			el(nsInfo, "identity", at("category", "client"), at("type", "pc"), at("name", "n"), at("xml:lang", "en")),
			el(nsInfo, "feature", at("var", nsPing)),
			el(nsItems, "item", at("jid", "a@example.org"), at("node", "n1"), at("name", "n")),
			el(nsData, "x", at("type", "result")),
		},
		pool: []string{
			iq("get", "q1", `<query xmlns='`+nsInfo+`'/>`),
			iq("get", "q2", `<query xmlns='`+nsInfo+`' node='n1'/>`),
			iq("get", "q3", `<query xmlns='`+nsItems+`'/>`),
			iq("get", "q4", `<query xmlns='`+nsItems+`' node='urn:app:node'><item/></query>`),
			iq("get", "", `<query xmlns='`+nsInfo+`'/>`),
			iq("set", "q5", `<query xmlns='`+nsInfo+`'/>`),
			pres("", `<c xmlns='`+nsCaps+`' hash='sha-1' node='http://example.org/c' ver='QgayPKawpkPSDYmwT/WM94uAlu0='/>`),
			pres("", `<c xmlns='`+nsCaps+`' hash='bogus'/>`),
			pres("", `<c xmlns='`+nsCaps+`'/>`),
		},
	},
	{
		name: "roster",
		roots: []rootSpec{
			{"iq", []string{"set"}, el(nsRoster, "query", at("ver", "v1"))},
		},
		elems: []elemSpec{
			el(nsRoster, "item", at("jid", "a@example.org"), at("name", "n"), at("subscription", "both")),
			el(nsRoster, "group"),
		},
		pool: []string{
			iq("set", "p1", `<query xmlns='`+nsRoster+`' ver='v1'><item jid='a@example.org' name='n' subscription='both'><group>g</group></item></query>`),
			iq("set", "p2", `<query xmlns='`+nsRoster+`' ver='v2'><item jid='a@example.org' subscription='remove'/></query>`),
			iq("set", "p3", `<query xmlns='`+nsRoster+`'/>`),
			iq("set", "p4", `<query xmlns='`+nsRoster+`'><item jid='@@'/></query>`),
			iq("set", "p5", `<query xmlns='`+nsRoster+`'><item jid='a@example.org'/><item jid='b@example.org'/></query>`),
			iq("set", "p6", `<query xmlns='`+nsRoster+`'>x</query>`),
			`<iq type='set' id='p7' from='me@example.net'><query xmlns='` + nsRoster + `' ver='v3'><item jid='a@example.org'/></query></iq>`,
			iq("get", "p8", `<query xmlns='`+nsRoster+`'/>`),
		},
	},
	{
		name: "blocklist",
		roots: []rootSpec{
			{"iq", []string{"get"}, el(nsBlocking, "blocklist")},
			{"iq", []string{"set"}, el(nsBlocking, "block")},
			{"iq", []string{"set"}, el(nsBlocking, "unblock")},
		},
		elems: []elemSpec{
			el(nsBlocking, "item", at("jid", "a@example.org")),
			el(nsReporting, "report", at("reason", "urn:xmpp:reporting:spam")),
			el(nsReporting, "text"),
			el(nsSID, "stanza-id", at("id", "x1"), at("by", "example.org")),
		},
		pool: []string{
			iq("get", "b1", `<blocklist xmlns='`+nsBlocking+`'/>`),
			iq("get", "b2", `<blocklist xmlns='`+nsBlocking+`'><item jid='a@example.org'/></blocklist>`),
			iq("set", "b3", `<block xmlns='`+nsBlocking+`'><item jid='a@example.org'/></block>`),
			iq("set", "b4", `<block xmlns='`+nsBlocking+`'><item jid='a@example.org'><report xmlns='`+nsReporting+`' reason='urn:xmpp:reporting:spam'><stanza-id xmlns='`+nsSID+`' by='example.org' id='x1'/><text>t</text></report></item></block>`),
			iq("set", "b5", `<block xmlns='`+nsBlocking+`'/>`),
			iq("set", "b6", `<block xmlns='`+nsBlocking+`'><item/></block>`),
			iq("set", "b7", `<block xmlns='`+nsBlocking+`'><item jid='@@'/></block>`),
			iq("set", "b8", `<block xmlns='`+nsBlocking+`'>x</block>`),
			iq("set", "b9", `<block xmlns='`+nsBlocking+`'><item name='n' jid='a@example.org'/></block>`),
			iq("set", "u1", `<unblock xmlns='`+nsBlocking+`'><item jid='a@example.org'/></unblock>`),
			iq("set", "u2", `<unblock xmlns='`+nsBlocking+`'/>`),
			iq("set", "u3", `<unblock xmlns='`+nsBlocking+`'> <item jid='a@example.org'/></unblock>`),
		},
	},
	{
		name: "carbons",
		roots: []rootSpec{
			{"message", []string{"", "normal", "chat"}, el(nsCarbons, "received")},
			{"message", []string{"", "normal", "chat"}, el(nsCarbons, "sent")},
		},
		elems: append([]elemSpec{el(nsCarbons, "received"), el(nsCarbons, "sent"), el(nsCarbons, "private")}, fwdElems...),
		pool: []string{
			msg("chat", "c1", `<received xmlns='`+nsCarbons+`'>`+fwdMsg+`</received>`),
			msg("", "c2", `<sent xmlns='`+nsCarbons+`'>`+fwdMsg+`</sent>`),
			msg("", "c3", `<received xmlns='`+nsCarbons+`'/>`),
			msg("", "c4", `<received xmlns='`+nsCarbons+`'>x</received>`),
			msg("", "c5", `<received xmlns='`+nsCarbons+`'><forwarded xmlns='`+nsForward+`'/></received>`),
			msg("", "c6", `<body>x</body><sent xmlns='`+nsCarbons+`'>`+fwdMsg+`</sent>`),
			msg("", "c7", ` <sent xmlns='`+nsCarbons+`'>`+fwdMsg+`</sent>`),
			msg("", "c8", `<sent xmlns='`+nsCarbons+`'>`+fwdMsg+`</sent><received xmlns='`+nsCarbons+`'>`+fwdMsg+`</received>`),
			msg("groupchat", "c9", `<sent xmlns='`+nsCarbons+`'>`+fwdMsg+`</sent>`),
		},
	},
	{
		name: "xtime",
		roots: []rootSpec{
			{"iq", []string{"get"}, el(nsTime, "time")},
		},
		elems: []elemSpec{el(nsTime, "tzo"), el(nsTime, "utc")},
		texts: []string{"+00:00", "2020-01-01T00:00:00Z"},
		pool: []string{
			iq("get", "t1", `<time xmlns='`+nsTime+`'/>`),
			iq("get", "t2", `<time xmlns='`+nsTime+`'><tzo>+00:00</tzo><utc>2020-01-01T00:00:00Z</utc></time>`),
			iq("set", "t3", `<time xmlns='`+nsTime+`'/>`),
		},
	},
	{
		name: "version",
		roots: []rootSpec{
			{"iq", []string{"get"}, el(nsVersion, "query")},
		},
		elems: []elemSpec{el(nsVersion, "name"), el(nsVersion, "version"), el(nsVersion, "os")},
		pool: []string{
			iq("get", "v1", `<query xmlns='`+nsVersion+`'/>`),
			iq("get", "v2", `<query xmlns='`+nsVersion+`'><name>n</name><version>1</version><os>o</os></query>`),
			iq("result", "v3", `<query xmlns='`+nsVersion+`'><name>n</name></query>`),
		},
	},
	{
		name: "ping",
		roots: []rootSpec{
			{"iq", []string{"get"}, el(nsPing, "ping")},
		},
		pool: []string{
			iq("get", "g1", `<ping xmlns='`+nsPing+`'/>`),
			iq("get", "", `<ping xmlns='`+nsPing+`'/>`),
			iq("set", "g2", `<ping xmlns='`+nsPing+`'/>`),
			`<iq type='get' id='g3' from='@@'><ping xmlns='` + nsPing + `'/></iq>`,
		},
	},
	{
		name: "bin",
		roots: []rootSpec{
			{"iq", []string{"get"}, el(nsBOB, "data", at("cid", "sha1+8f35fef110ffc5df08d579a50083ff9308fb6242@bob.xmpp.org"), at("max-age", "86400"), at("type", "image/png"))},
		},
		elems: []elemSpec{el(nsBOB, "data", at("cid", "sha1+8f35fef110ffc5df08d579a50083ff9308fb6242@bob.xmpp.org"), at("max-age", "86400"), at("type", "image/png"))},
		texts: []string{"aGk="},
		pool: []string{
			iq("get", "k1", `<data xmlns='`+nsBOB+`' cid='sha1+8f35fef110ffc5df08d579a50083ff9308fb6242@bob.xmpp.org'/>`),
			iq("get", "k2", `<data xmlns='`+nsBOB+`'/>`),
			iq("get", "k3", `<data xmlns='`+nsBOB+`' cid='c' max-age='x' type='image/png'>aGk=</data>`),
			iq("get", "k4", `<data xmlns='`+nsBOB+`' cid='c'>!!!</data>`),
		},
	},
	{
		// Stanzas that no library handler is registered for: the mux fallbacks,
		// the session's own handling, stanza errors.
		name: "generic",
		roots: []rootSpec{
			{"iq", []string{"get", "set", "result", "error"}, el(nsUnknown, "unknown")},
			{"message", []string{"", "error"}, el(nsUnknown, "unknown")},
			{"presence", []string{"", "error"}, el(nsUnknown, "unknown")},
			{"iq", []string{"error"}, el(nsStanza, "error", at("type", "cancel"), at("by", "example.org"))},
			{"message", []string{"", "chat"}, el(nsStanza, "body")},
		},
		elems: []elemSpec{
			el(nsStanza, "error", at("type", "cancel"), at("by", "example.org")),
			el(nsStanzaErr, "item-not-found"),
			el(nsStanzaErr, "text", at("xml:lang", "en")),
			el(nsStanza, "body"),
		},
		pool: []string{
			iq("get", "x1", `<unknown xmlns='urn:unknown'/>`),
			iq("set", "", `<unknown xmlns='urn:unknown'/>`),
			iq("result", "x2", ``),
			iq("get", "x3", ``),
			iq("error", "x4", `<unknown xmlns='urn:unknown'/><error type='cancel'><item-not-found xmlns='`+nsStanzaErr+`'/></error>`),
			iq("get", "x5", `<unknown xmlns='urn:unknown'/><ping xmlns='`+nsPing+`'/>`),
			msg("", "x6", `<body>hi</body>`),
			msg("", "", ``),
			pres("", ``),
			pres("error", `<error type='cancel'><item-not-found xmlns='`+nsStanzaErr+`'/></error>`),
			`<unknown xmlns='urn:unknown' type='get' id='x7'><ping xmlns='` + nsPing + `'/></unknown>`,
			`<iq xmlns='urn:inner' type='get' id='x8'><ping xmlns='` + nsPing + `'/></iq>`,
			" ",
			"junk",
		},
	},
}
