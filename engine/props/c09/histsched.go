package c09

import (
	"context"
	"encoding/xml"
	"fmt"
	"io"
	"strings"

	"mellium.im/xmlstream"
	"mellium.im/xmpp"
	"mellium.im/xmpp/history"
	"mellium.im/xmpp/mux"
	"mellium.im/xmpp/stanza"

	"verif/nd"
	"verif/vs"
	"verif/vsess"
	"verif/xu"
)

// historyIterBody: the handler-internal state of a tracked archive query
// (history.Handler.Fetch) under every interleaving of the serve loop, the
// iterating application and a canceller. The archive answers the query with
// 0-2 result messages followed by the IQ result; the application takes up to
// k messages from the iterator (it does not read the message streams) and then
// closes it - early, if the archive has more to offer; the query's context is
// cancelled at an instant of the scheduler's choosing (or not at all). After
// the application is done the peer sends a sentinel stanza and closes.
//
// Oracle: no panic and nothing parked for good; the sentinel reaches the inner
// handler and Serve returns nil: no peer input and no use of the documented
// iterator API may wedge the serve loop.
func historyIterBody(c *nd.Ctx) nd.Result {
	nmsgs := c.Choose(3, "archive-messages")
	take := c.Choose(4, "application-takes") // 0..2 messages, 3: until the iterator ends
	cancelling := c.Choose(2, "context-cancelled") == 1
	closes := c.Choose(2, "application-closes-the-iterator") == 1
	reads := c.Choose(2, "application-reads-the-message-streams") == 1
	var readBodies []string
	ranOut := false
	if (take == 1 || take == 2) && take > nmsgs {
		// asking for more messages than the archive sends is the same as iterating to the end
		return nd.Result{Skip: true}
	}
	if reads && (take == 0 || nmsgs == 0) {
		return nd.Result{Skip: true} // nothing is handed out
	}
	ns := stanza.NSClient
	var env *vsess.Env
	var setupErr error
	var sentinel, appDone bool
	got := 0
	out := vs.Run(c, vs.Options{Horizon: 30000}, func() {
		env, setupErr = vsess.New(ns, 0)
		if setupErr != nil {
			return
		}
		inner := mux.MessageHandlerFunc(func(m stanza.Message, t xmlstream.TokenReadEncoder) error {
			return nil
		})
		h := history.NewHandler(inner)
		var seen strings.Builder
		answered := false
		env.Lib.OnWrite = func(b []byte) {
			seen.Write(b)
			if answered {
				return
			}
			for _, el := range vsess.TopLevel(ns, seen.String()) {
				if el.Start.Name.Local != "iq" || !strings.Contains(el.Raw, "urn:xmpp:mam:2") {
					continue
				}
				answered = true
				for i := 0; i < nmsgs; i++ {
					env.PeerWrite(fmt.Sprintf(`<message id='a%d' from='%s'><result xmlns='urn:xmpp:mam:2' queryid='q1' id='r%d'><forwarded xmlns='urn:xmpp:forward:0'><message xmlns='jabber:client'><body>m</body></message></forwarded></result></message>`, i, archiveJID, i))
				}
				env.PeerWrite(fmt.Sprintf(`<iq type='result' id='%s' from='%s'><fin xmlns='urn:xmpp:mam:2' complete='true'><set xmlns='http://jabber.org/protocol/rsm'/></fin></iq>`, el.Attr("id"), archiveJID))
			}
		}
		m := mux.New(ns, history.Handle(h))
		env.Serve(xmpp.HandlerFunc(func(t xmlstream.TokenReadEncoder, start *xml.StartElement) error {
			for _, a := range start.Attr {
				if a.Name.Local == "id" && a.Value == "sentinel" {
					sentinel = true
				}
			}
			return m.HandleXMPP(t, start)
		}))
		ctx, cancel := context.WithCancel(context.Background())
		if cancelling {
			vs.GoNamed("canceller", false, func() {
				vs.Yield("cancel")
				cancel()
			})
		}
		it := h.Fetch(ctx, history.Query{ID: "q1"}, archiveJID, env.S)
		for take == 3 || got < take {
			if !it.Next() {
				ranOut = true
				break
			}
			got++
			if reads {
				// the iterator hands out the message's token stream: read it
				var b strings.Builder
				cur := it.Current()
				for i := 0; i < 200 && cur != nil; i++ {
					tok, err := cur.Token()
					if tok != nil {
						b.WriteString(xu.TokString([]xml.Token{tok}))
					}
					if err != nil {
						if err != io.EOF {
							b.WriteString(" ERR:" + err.Error())
						}
						break
					}
				}
				readBodies = append(readBodies, b.String())
			}
		}
		if closes {
			it.Close()
		}
		if !closes {
			// an application that walks away from a query without closing the
			// iterator lets the query's context end and the iterator run out
			cancel()
			for it.Next() {
			}
			ranOut = true
		}
		if ranOut && !closes {
			// iteration has completed: the outcome of the query may be asked for
			_, _ = it.Err(), it.Result()
		}
		appDone = true
		env.PeerWrite(`<message id='sentinel'><body>s</body></message></stream:stream>`)
		vsess.Wait("serve-done", func() bool { return env.ServeDone })
		cancel()
	})
	if setupErr != nil {
		panic("c09: setup: " + setupErr.Error())
	}
	desc := fmt.Sprintf("history query: archive sends %d messages, application takes %d (3 = all), closes=%v, context cancelled concurrently=%v, reads the message streams=%v", nmsgs, take, closes, cancelling, reads)
	c.Note("%s outcome=%s taken=%d", desc, out.Kind, got)
	for _, t := range out.Trace {
		c.Note("  %s", t)
	}
	res := nd.Result{Outcome: out.Kind, NonTrivial: desc}
	fail := func(sig, f string, a ...any) nd.Result {
		res.Violation = &nd.Violation{Sig: "history-iterator:" + sig, Msg: desc + ": " + fmt.Sprintf(f, a...)}
		return res
	}
	switch out.Kind {
	case "panic":
		return fail(out.Panic.Sig(), "panic in thread %s: %s\n%s", out.PanicIn, out.Panic.Value, out.Panic.Stack)
	case "deadlock":
		sig := "parked-for-good"
		for _, b := range out.Blocked {
			if strings.HasPrefix(b, "serve:") {
				sig = "serve-loop-wedged"
			}
		}
		if !appDone {
			sig += ":application-blocked"
		}
		return fail(sig, "nothing can run; blocked threads: %v", out.Blocked)
	case "horizon":
		return fail("does-not-terminate", "blocked: %v", out.Blocked)
	}
	if env.ServeErr != nil {
		return fail("serve-error", "Serve returned %v", env.ServeErr)
	}
	for i, b := range readBodies {
		want := fmt.Sprintf(`id="r%d"`, i)
		if !strings.Contains(b, want) || !strings.Contains(b, "<{jabber:client}body") || strings.Contains(b, "ERR:") || strings.Contains(b, "sentinel") || strings.Contains(b, "fin") {
			return fail("message-stream-differs", "message %d handed out by the iterator reads as %q", i, b)
		}
	}
	if !sentinel {
		return fail("sentinel-not-dispatched", "the stanza after the archive's answers never reached its handler")
	}
	return res
}

var _ = xmpp.Ready
