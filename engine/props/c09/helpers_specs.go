package c09

// The request helpers of the library (every exported function or method that
// sends an IQ and looks at the reply), how an application calls them, and the
// vocabulary of the replies they parse - extracted by hand from the decoders
// (struct tags, attribute loops) in /repo: session_iq.go, disco/{info,items}.go,
// disco/info, disco/items, paging/rsm.go, roster/roster.go,
// blocklist/blocking.go, bookmarks/{iter,publish,channel}.go,
// pubsub/{fetch,pubsub,retract,configure,create}.go, history/{history,fin}.go,
// version/version.go, xtime/time.go, upload/upload.go, muc/{muc,room}.go,
// commands/{commands,iter,actions,notes}.go, ping/ping.go, carbons/carbons.go,
// bin/bob.go, form/{form,fields}.go.

import (
	"encoding/xml"
	"errors"
	"io"

	"mellium.im/xmlstream"
	"mellium.im/xmpp/bin"
	"mellium.im/xmpp/blocklist"
	"mellium.im/xmpp/bookmarks"
	"mellium.im/xmpp/carbons"
	"mellium.im/xmpp/commands"
	"mellium.im/xmpp/disco"
	"mellium.im/xmpp/disco/items"
	"mellium.im/xmpp/form"
	"mellium.im/xmpp/history"
	"mellium.im/xmpp/jid"
	"mellium.im/xmpp/muc"
	"mellium.im/xmpp/ping"
	"mellium.im/xmpp/pubsub"
	"mellium.im/xmpp/roster"
	"mellium.im/xmpp/stanza"
	"mellium.im/xmpp/upload"
	"mellium.im/xmpp/version"
	"mellium.im/xmpp/xtime"
)

const (
	nsRSM       = "http://jabber.org/protocol/rsm"
	nsPubsub    = "http://jabber.org/protocol/pubsub"
	nsPubsubOwn = "http://jabber.org/protocol/pubsub#owner"
	nsBookmarks = "urn:xmpp:bookmarks:1"
	nsUpload    = "urn:xmpp:http:upload:0"
	nsMUCOwner  = "http://jabber.org/protocol/muc#owner"
	nsMUCAdmin  = "http://jabber.org/protocol/muc#admin"
	nsCommands  = "http://jabber.org/protocol/commands"
	nsGenericQ  = "urn:q"
)

var (
	serverJID = jid.MustParse("example.net")
	otherJID  = jid.MustParse("a@example.org")

	formElems = []elemSpec{
		el(nsData, "x", at("type", "form")),
		el(nsData, "title"),
		el(nsData, "instructions"),
		el(nsData, "field", at("var", "FORM_TYPE"), at("type", "list-single"), at("label", "l")),
		el(nsData, "value"),
		el(nsData, "option", at("label", "o")),
		el(nsData, "required"),
		el(nsData, "desc"),
	}
	rsmElems = []elemSpec{
		el(nsRSM, "set"),
		el(nsRSM, "first", at("index", "0")),
		el(nsRSM, "last"),
		el(nsRSM, "count"),
	}
	itemsQuery = el(nsItems, "query", at("node", "n1"))
	itemsElems = append([]elemSpec{el(nsItems, "item", at("jid", "a@example.org"), at("node", "n2"), at("name", "n"))}, rsmElems...)
	pubsubRoot = el(nsPubsub, "pubsub")
)

// Ready-made subtrees of typical replies.
const (
	mRSMFull  = `<set xmlns='` + nsRSM + `'><first index='0'>a1</first><last>a2</last><count>2</count></set>`
	mRSMLast  = `<set xmlns='` + nsRSM + `'><last>a2</last></set>`
	mFormFull = `<x xmlns='` + nsData + `' type='form'><title>t</title><instructions>i</instructions><field var='FORM_TYPE' type='hidden'><value>urn:app:form</value></field><field var='l' type='list-multi' label='L'><desc>d</desc><required/><value>a</value><value>b</value><option label='A'><value>a</value></option><option><value>b</value></option></field></x>`
	mField    = `<field xmlns='` + nsData + `' var='t' type='text-multi'><value>line1</value><value>line2</value></field>`
)

var (
	itemsMacros = []string{mRSMFull, mRSMLast,
		`<item xmlns='` + nsItems + `' jid='a@example.org' node='n2' name='n'/><item xmlns='` + nsItems + `' jid='example.org'/>`}
	formMacros = []string{mFormFull, mField}
)

const iterCap = 200

var errIterCap = errors.New("c09: the iterator still has items after 200 calls of Next")

func firstErr(errs ...error) error {
	for _, e := range errs {
		if e != nil {
			return e
		}
	}
	return nil
}

// drainAll reads r to its end and returns the number of tokens.
func drainAll(r xml.TokenReader) (n int, err error) {
	if r == nil {
		return 0, nil
	}
	for n < 1<<20 {
		tok, err := r.Token()
		if tok != nil {
			n++
		}
		if err == io.EOF {
			return n, nil
		}
		if err != nil {
			return n, err
		}
		if tok == nil {
			return n, errors.New("c09: nil token with nil error")
		}
	}
	return n, errors.New("c09: token reader does not end")
}

type genericPayload struct {
	XMLName xml.Name
	Attrs   []xml.Attr `xml:",any,attr"`
	Inner   string     `xml:",innerxml"`
}

func genericRequest(id string) xml.TokenReader {
	return stanza.IQ{ID: id, Type: stanza.GetIQ, To: serverJID}.Wrap(genericQ())
}

func genericQ() xml.TokenReader {
	return xmlstream.Wrap(nil, xml.StartElement{Name: xml.Name{Space: nsGenericQ, Local: "q"}})
}

// readResponse consumes a raw response the way variant says (0 everything, 1
// nothing, 2 one token) and closes it, as SendIQ's documentation demands.
func readResponse(x *hx, resp xmlstream.TokenReadCloser, err error) error {
	if err != nil {
		return err
	}
	if resp == nil {
		return errors.New("c09: nil response with nil error")
	}
	var rerr error
	switch x.variant {
	case 0:
		var n int
		n, rerr = drainAll(resp)
		x.note("read %d tokens of the response (%v)", n, rerr)
	case 2:
		_, rerr = resp.Token()
	}
	return firstErr(rerr, resp.Close())
}

func discoItemIter(x *hx, it *disco.ItemIter) error {
	n := 0
	for it.Next() {
		_ = it.Item()
		if n++; n > iterCap {
			it.Close()
			return errIterCap
		}
	}
	x.note("%d items, Err()=%v", n, it.Err())
	return firstErr(it.Err(), it.Close())
}

func pubsubIter(x *hx, it *pubsub.Iter) error {
	n := 0
	var rerr error
	for it.Next() {
		_, r := it.Item()
		if _, err := drainAll(r); err != nil && rerr == nil {
			rerr = err
		}
		if n++; n > iterCap {
			it.Close()
			return errIterCap
		}
	}
	x.note("%d items, Err()=%v", n, it.Err())
	return firstErr(it.Err(), it.Close(), rerr)
}

func commandPayload(x *hx, r xml.TokenReader) error {
	// what an application does with the payload of a command response: decode
	// the actions, the notes and the forms
	iter := xmlstream.NewIter(r)
	n := 0
	for iter.Next() {
		start, inner := iter.Current()
		if start == nil {
			continue
		}
		d := xml.NewTokenDecoder(xmlstream.MultiReader(xmlstream.Token(*start), inner))
		var derr error
		switch start.Name.Local {
		case "actions":
			var a commands.Actions
			derr = d.Decode(&a)
		case "note":
			var nt commands.Note
			derr = d.Decode(&nt)
		case "x":
			var f form.Data
			derr = d.Decode(&f)
		}
		x.note("payload child %s: %v", start.Name.Local, derr)
		if n++; n > iterCap {
			return errIterCap
		}
	}
	return iter.Err()
}

func testForm() *form.Data {
	return form.New(form.Hidden("FORM_TYPE", form.Value("urn:app:form")), form.Text("t", form.Value("v")))
}

var helperSpecs = []*hspec{
	// ---- the session's own helpers
	{name: "Session.SendIQ", spine: []elemSpec{el(nsGenericQ, "q", at("a", "1"))}, variants: 3,
		call: func(x *hx) error {
			resp, err := x.s.SendIQ(x.ctx, genericRequest("g1"))
			return readResponse(x, resp, err)
		}},
	{name: "Session.SendIQElement", spine: []elemSpec{el(nsGenericQ, "q", at("a", "1"))},
		call: func(x *hx) error {
			resp, err := x.s.SendIQElement(x.ctx, genericQ(), stanza.IQ{Type: stanza.SetIQ, To: serverJID})
			return readResponse(x, resp, err)
		}},
	{name: "Session.EncodeIQElement", spine: []elemSpec{el(nsGenericQ, "q", at("a", "1"))},
		call: func(x *hx) error {
			resp, err := x.s.EncodeIQElement(x.ctx, struct {
				XMLName xml.Name `xml:"urn:q q"`
			}{}, stanza.IQ{Type: stanza.GetIQ, To: serverJID})
			return readResponse(x, resp, err)
		}},
	{name: "Session.UnmarshalIQ", ownErrPath: true, spine: []elemSpec{el(nsGenericQ, "q", at("a", "1"))}, errReturned: true, variants: 2,
		call: func(x *hx) error {
			if x.variant == 1 {
				return x.s.UnmarshalIQ(x.ctx, genericRequest("g1"), nil)
			}
			var v genericPayload
			err := x.s.UnmarshalIQ(x.ctx, genericRequest("g1"), &v)
			x.note("decoded %+v", v)
			return err
		}},
	{name: "Session.UnmarshalIQElement", spine: []elemSpec{el(nsGenericQ, "q", at("a", "1"))}, errReturned: true,
		call: func(x *hx) error {
			var v genericPayload
			return x.s.UnmarshalIQElement(x.ctx, genericQ(), stanza.IQ{Type: stanza.GetIQ, To: serverJID}, &v)
		}},
	{name: "Session.IterIQ", ownErrPath: true, spine: []elemSpec{el(nsGenericQ, "q", at("a", "1"))}, errReturned: true, variants: 2,
		call: func(x *hx) error {
			iter, start, err := x.s.IterIQ(x.ctx, genericRequest("g1"))
			if err != nil {
				return err
			}
			_ = start.Name
			n := 0
			var rerr error
			for iter.Next() {
				_, r := iter.Current()
				if x.variant == 0 {
					if _, err := drainAll(r); err != nil && rerr == nil {
						rerr = err
					}
				}
				if n++; n > iterCap {
					iter.Close()
					return errIterCap
				}
			}
			x.note("%d children, Err()=%v", n, iter.Err())
			return firstErr(iter.Err(), iter.Close(), rerr)
		}},
	{name: "Session.IterIQElement", spine: []elemSpec{el(nsGenericQ, "q", at("a", "1"))}, errReturned: true,
		call: func(x *hx) error {
			iter, _, err := x.s.IterIQElement(x.ctx, genericQ(), stanza.IQ{Type: stanza.GetIQ, To: serverJID})
			if err != nil {
				return err
			}
			n := 0
			for iter.Next() {
				if n++; n > iterCap {
					iter.Close()
					return errIterCap
				}
			}
			return firstErr(iter.Err(), iter.Close())
		}},

	// ---- disco
	{name: "disco.GetInfo", errReturned: true,
		spine: []elemSpec{el(nsInfo, "query", at("node", "n1"))},
		elems: append([]elemSpec{
			el(nsInfo, "identity", at("category", "client"), at("type", "pc"), at("name", "n"), at("xml:lang", "en")),
			el(nsInfo, "feature", at("var", nsPing)),
		}, formElems...),
		macros: append([]string{`<identity xmlns='` + nsInfo + `' category='client' type='pc' name='n' xml:lang='en'/><feature xmlns='` + nsInfo + `' var='urn:xmpp:ping'/>`}, formMacros...),
		call: func(x *hx) error {
			info, err := disco.GetInfo(x.ctx, "n1", serverJID, x.s)
			x.note("%d identities, %d features, %d forms", len(info.Identity), len(info.Features), len(info.Form))
			return err
		}},
	{name: "disco.FetchItems", errReturned: true, spine: []elemSpec{itemsQuery}, elems: itemsElems,
		macros: itemsMacros,
		call: func(x *hx) error {
			return discoItemIter(x, disco.FetchItems(x.ctx, items.Item{JID: serverJID, Node: "n1"}, x.s))
		}},
	{name: "disco.WalkItem", ownErrPath: true, spine: []elemSpec{itemsQuery}, elems: itemsElems,
		macros: itemsMacros,
		call: func(x *hx) error {
			n := 0
			return disco.WalkItem(x.ctx, items.Item{JID: serverJID, Node: "n1"}, x.s, func(level int, item items.Item, err error) error {
				if n++; n > iterCap {
					return errIterCap
				}
				x.note("walk level %d item %v/%s err=%v", level, item.JID, item.Node, err)
				return err
			})
		}},

	// ---- roster
	{name: "roster.Fetch", errReturned: true,
		spine:  []elemSpec{el(nsRoster, "query", at("ver", "v1"))},
		elems:  []elemSpec{el(nsRoster, "item", at("jid", "a@example.org"), at("name", "n"), at("subscription", "both")), el(nsRoster, "group")},
		macros: []string{`<item xmlns='` + nsRoster + `' jid='a@example.org' name='n' subscription='both' ask='subscribe'><group>g1</group><group>g2</group></item>`},
		call: func(x *hx) error {
			it := roster.Fetch(x.ctx, x.s)
			n := 0
			for it.Next() {
				_ = it.Item()
				if n++; n > iterCap {
					it.Close()
					return errIterCap
				}
			}
			x.note("%d items, version %q, Err()=%v", n, it.Version(), it.Err())
			return firstErr(it.Err(), it.Close())
		}},
	{name: "roster.Set", spine: []elemSpec{el(nsRoster, "query", at("ver", "v1"))},
		elems: []elemSpec{el(nsRoster, "item", at("jid", "a@example.org"))},
		call: func(x *hx) error {
			return roster.Set(x.ctx, x.s, roster.Item{JID: otherJID, Name: "n", Group: []string{"g"}})
		}},
	{name: "roster.Delete", spine: []elemSpec{el(nsRoster, "query", at("ver", "v1"))},
		call: func(x *hx) error { return roster.Delete(x.ctx, x.s, otherJID) }},

	// ---- blocklist
	{name: "blocklist.Fetch", errReturned: true,
		spine:  []elemSpec{el(nsBlocking, "blocklist")},
		elems:  []elemSpec{el(nsBlocking, "item", at("jid", "a@example.org"))},
		macros: []string{`<item xmlns='` + nsBlocking + `' jid='a@example.org'/><item xmlns='` + nsBlocking + `' jid='example.org/r'/>`},
		call: func(x *hx) error {
			it := blocklist.Fetch(x.ctx, x.s)
			n := 0
			for it.Next() {
				_ = it.JID()
				if n++; n > iterCap {
					it.Close()
					return errIterCap
				}
			}
			x.note("%d items, Err()=%v", n, it.Err())
			return firstErr(it.Err(), it.Close())
		}},
	{name: "blocklist.Add", spine: []elemSpec{el(nsBlocking, "block")}, elems: []elemSpec{el(nsBlocking, "item", at("jid", "a@example.org"))},
		call: func(x *hx) error { return blocklist.Add(x.ctx, x.s, otherJID) }},
	{name: "blocklist.Remove", spine: []elemSpec{el(nsBlocking, "unblock")}, elems: []elemSpec{el(nsBlocking, "item", at("jid", "a@example.org"))},
		call: func(x *hx) error { return blocklist.Remove(x.ctx, x.s, otherJID) }},
	{name: "blocklist.Report", spine: []elemSpec{el(nsBlocking, "block")},
		call: func(x *hx) error {
			return blocklist.Report(x.ctx, x.s, blocklist.Item{JID: otherJID, Reason: blocklist.ReasonSpam, Text: "t"})
		}},

	// ---- pubsub and bookmarks
	{name: "pubsub.Fetch", ownErrPath: true, errReturned: true,
		spine:  []elemSpec{pubsubRoot, el(nsPubsub, "items", at("node", "n1")), el(nsPubsub, "item", at("id", "i1"))},
		elems:  append([]elemSpec{el(nsPubsub, "items", at("node", "n1")), el(nsPubsub, "item", at("id", "i1")), el("urn:app", "entry", at("a", "1"))}, rsmElems...),
		macros: []string{mRSMFull, mRSMLast, `<item xmlns='` + nsPubsub + `' id='i2'><entry xmlns='urn:app'>text</entry></item>`},
		call: func(x *hx) error {
			return pubsubIter(x, pubsub.Fetch(x.ctx, x.s, pubsub.Query{Node: "n1", MaxItems: 2}))
		}},
	{name: "pubsub.Publish", errReturned: true,
		spine: []elemSpec{pubsubRoot, el(nsPubsub, "publish", at("node", "n1")), el(nsPubsub, "item", at("id", "i1"))},
		elems: []elemSpec{el(nsPubsub, "publish", at("node", "n1")), el(nsPubsub, "item", at("id", "i1"))},
		call: func(x *hx) error {
			id, err := pubsub.Publish(x.ctx, x.s, "n1", "i0", xmlstream.Wrap(nil, xml.StartElement{Name: xml.Name{Space: "urn:app", Local: "entry"}}))
			x.note("published id %q", id)
			return err
		}},
	{name: "pubsub.Delete", errReturned: true, spine: []elemSpec{pubsubRoot},
		call: func(x *hx) error { return pubsub.Delete(x.ctx, x.s, "n1", "i1", true) }},
	{name: "pubsub.CreateNode", errReturned: true, spine: []elemSpec{pubsubRoot}, elems: []elemSpec{el(nsPubsub, "create", at("node", "n1"))},
		call: func(x *hx) error { return pubsub.CreateNode(x.ctx, x.s, "n1", testForm()) }},
	{name: "pubsub.GetConfig", errReturned: true,
		spine:  []elemSpec{el(nsPubsubOwn, "pubsub"), el(nsPubsubOwn, "configure", at("node", "n1")), el(nsData, "x", at("type", "form"))},
		elems:  append([]elemSpec{el(nsPubsubOwn, "configure", at("node", "n1")), el(nsPubsubOwn, "default")}, formElems...),
		macros: formMacros,
		call: func(x *hx) error {
			f, err := pubsub.GetConfig(x.ctx, x.s, "n1")
			if f != nil {
				x.note("form with %d fields", f.Len())
			}
			return err
		}},
	{name: "pubsub.GetDefaultConfig", errReturned: true,
		spine:  []elemSpec{el(nsPubsubOwn, "pubsub"), el(nsPubsubOwn, "default"), el(nsData, "x", at("type", "form"))},
		elems:  append([]elemSpec{el(nsPubsubOwn, "configure", at("node", "n1")), el(nsPubsubOwn, "default")}, formElems...),
		macros: formMacros,
		call: func(x *hx) error {
			f, err := pubsub.GetDefaultConfig(x.ctx, x.s)
			if f != nil {
				x.note("form with %d fields", f.Len())
			}
			return err
		}},
	{name: "pubsub.SetConfig", errReturned: true, spine: []elemSpec{el(nsPubsubOwn, "pubsub")},
		call: func(x *hx) error { return pubsub.SetConfig(x.ctx, x.s, "n1", testForm()) }},
	{name: "bookmarks.Fetch", errReturned: true,
		spine: []elemSpec{pubsubRoot, el(nsPubsub, "items", at("node", nsBookmarks)), el(nsPubsub, "item", at("id", "room@conf.example.net")), el(nsBookmarks, "conference", at("autojoin", "true"), at("name", "n"))},
		elems: []elemSpec{
			el(nsPubsub, "item", at("id", "room@conf.example.net")),
			el(nsBookmarks, "conference", at("autojoin", "true"), at("name", "n")),
			el(nsBookmarks, "nick"), el(nsBookmarks, "password"), el(nsBookmarks, "extensions"),
		},
		macros: []string{
			`<item xmlns='` + nsPubsub + `' id='room2@conf.example.net'><conference xmlns='` + nsBookmarks + `' name='n' autojoin='1'><nick>me</nick><password>pw</password><extensions><e xmlns='urn:e'/></extensions></conference></item>`,
			`<item xmlns='` + nsPubsub + `' id='@'><conference xmlns='` + nsBookmarks + `'/></item>`,
			`<nick xmlns='` + nsBookmarks + `'>me</nick><extensions xmlns='` + nsBookmarks + `'><e xmlns='urn:e'>x</e></extensions>`},
		call: func(x *hx) error {
			it := bookmarks.Fetch(x.ctx, x.s)
			n := 0
			for it.Next() {
				_ = it.Bookmark()
				if n++; n > iterCap {
					it.Close()
					return errIterCap
				}
			}
			x.note("%d bookmarks, Err()=%v", n, it.Err())
			return firstErr(it.Err(), it.Close())
		}},
	{name: "bookmarks.Publish", errReturned: true,
		spine: []elemSpec{pubsubRoot, el(nsPubsub, "publish", at("node", nsBookmarks)), el(nsPubsub, "item", at("id", "room@conf.example.net"))},
		call: func(x *hx) error {
			return bookmarks.Publish(x.ctx, x.s, bookmarks.Channel{JID: roomJID.Bare(), Autojoin: true, Name: "n", Nick: "me"})
		}},
	{name: "bookmarks.Delete", errReturned: true, spine: []elemSpec{pubsubRoot},
		call: func(x *hx) error { return bookmarks.Delete(x.ctx, x.s, roomJID.Bare()) }},

	// ---- message archive
	{name: "history.Fetch", errReturned: true, nmsgs: 2,
		spine: []elemSpec{el(nsMAM, "fin", at("complete", "true"), at("stable", "false"))}, elems: rsmElems,
		macros: []string{mRSMFull, mRSMLast},
		call: func(x *hx) error {
			res, err := history.Fetch(x.ctx, history.Query{ID: "q1", Limit: 2}, serverJID, x.s)
			x.note("result %+v", res)
			return err
		}},
	{name: "history.Handler.Fetch", nmsgs: 2,
		spine: []elemSpec{el(nsMAM, "fin", at("complete", "true"), at("stable", "false"))}, elems: rsmElems,
		macros: []string{mRSMFull, mRSMLast},
		call: func(x *hx) error {
			// the application iterates without reading the message streams (they are
			// the session's own reader, see findings.txt C.9)
			it := x.w.histH.Fetch(x.ctx, history.Query{ID: "q1", Limit: 2}, serverJID, x.s)
			n := 0
			for it.Next() {
				_ = it.Current()
				if n++; n > iterCap {
					it.Close()
					return errIterCap
				}
			}
			x.note("%d messages, Err()=%v, result %+v", n, it.Err(), it.Result())
			return firstErr(it.Err(), it.Close())
		}},

	// ---- small queries
	{name: "version.Get", errReturned: true,
		spine: []elemSpec{el(nsVersion, "query")}, elems: []elemSpec{el(nsVersion, "name"), el(nsVersion, "version"), el(nsVersion, "os")},
		macros: []string{`<name xmlns='` + nsVersion + `'>n</name><version xmlns='` + nsVersion + `'>1</version><os xmlns='` + nsVersion + `'>o</os>`},
		call: func(x *hx) error {
			q, err := version.Get(x.ctx, x.s, serverJID)
			x.note("version %+v", q)
			return err
		}},
	{name: "xtime.Get", errReturned: true,
		spine: []elemSpec{el(nsTime, "time")}, elems: []elemSpec{el(nsTime, "tzo"), el(nsTime, "utc")},
		texts:  []string{"+01:00", "2020-01-01T00:00:00Z"},
		macros: []string{`<tzo xmlns='` + nsTime + `'>+01:00</tzo>`, `<utc xmlns='` + nsTime + `'>2020-01-01T00:00:00Z</utc>`, `<tzo xmlns='` + nsTime + `'>junk</tzo>`},
		call: func(x *hx) error {
			t, err := xtime.Get(x.ctx, x.s, serverJID)
			x.note("time %v", t)
			return err
		}},
	{name: "upload.GetSlot", errReturned: true,
		spine: []elemSpec{el(nsUpload, "slot")},
		elems: []elemSpec{el(nsUpload, "put", at("url", "https://example.net/u/1")), el(nsUpload, "get", at("url", "https://example.net/d/1")), el(nsUpload, "header", at("name", "Authorization"))},
		macros: []string{
			`<put xmlns='` + nsUpload + `' url='https://example.net/u/1'><header name='Authorization'>Basic x</header><header name='cookie'>a=b</header><header name='X-Bad'>v</header></put>`,
			`<get xmlns='` + nsUpload + `' url='https://example.net/d/1'/>`,
			`<put xmlns='` + nsUpload + `' url='%zz://not a url'/>`},
		call: func(x *hx) error {
			slot, err := upload.GetSlot(x.ctx, upload.File{Name: "f.txt", Size: 3, Type: "text/plain"}, serverJID, x.s)
			x.note("slot put=%v get=%v headers=%d", slot.PutURL, slot.GetURL, len(slot.Header))
			return err
		}},
	{name: "ping.Send", spine: []elemSpec{el(nsPing, "ping")},
		call: func(x *hx) error { return ping.Send(x.ctx, x.s, serverJID) }},
	{name: "carbons.Enable", errReturned: true, spine: []elemSpec{el(nsCarbons, "enable")},
		call: func(x *hx) error { return carbons.Enable(x.ctx, x.s) }},
	{name: "carbons.Disable", errReturned: true, spine: []elemSpec{el(nsCarbons, "disable")},
		call: func(x *hx) error { return carbons.Disable(x.ctx, x.s) }},
	{name: "bin.Get", errReturned: true,
		spine: []elemSpec{el(nsBOB, "data", at("cid", "sha1+8f35fef110ffc5df08d579a50083ff9308fb6242@bob.xmpp.org"), at("max-age", "86400"), at("type", "image/png"))},
		texts: []string{"aGk="},
		call: func(x *hx) error {
			d, err := bin.Get(x.ctx, x.s, serverJID, "sha1+8f35fef110ffc5df08d579a50083ff9308fb6242@bob.xmpp.org")
			if d != nil {
				x.note("data %d bytes", len(d.Data))
			}
			return err
		}},

	// ---- multi-user chat
	{name: "muc.GetConfig", errReturned: true,
		spine: []elemSpec{el(nsMUCOwner, "query"), el(nsData, "x", at("type", "form"))}, elems: formElems,
		macros: formMacros,
		call: func(x *hx) error {
			f, err := muc.GetConfig(x.ctx, roomJID.Bare(), x.s)
			if f != nil {
				x.note("form with %d fields", f.Len())
			}
			return err
		}},
	{name: "muc.SetConfig", spine: []elemSpec{el(nsMUCOwner, "query")},
		call: func(x *hx) error { return muc.SetConfig(x.ctx, roomJID.Bare(), testForm(), x.s) }},
	{name: "muc.Channel.SetAffiliation", errReturned: true, joined: true,
		spine: []elemSpec{el(nsMUCAdmin, "query")}, elems: []elemSpec{el(nsMUCAdmin, "item", at("affiliation", "member"), at("jid", "a@example.org")), el(nsMUCAdmin, "reason")},
		call: func(x *hx) error {
			return x.ch.SetAffiliation(x.ctx, muc.AffiliationMember, otherJID, "nick", "why")
		}},

	// ---- ad-hoc commands
	{name: "commands.Fetch", errReturned: true, spine: []elemSpec{el(nsItems, "query", at("node", nsCommands))}, elems: itemsElems,
		macros: itemsMacros,
		call: func(x *hx) error {
			it := commands.Fetch(x.ctx, serverJID, x.s)
			n := 0
			for it.Next() {
				_ = it.Command()
				if n++; n > iterCap {
					it.Close()
					return errIterCap
				}
			}
			x.note("%d commands, Err()=%v", n, it.Err())
			return firstErr(it.Err(), it.Close())
		}},
	{name: "commands.Command.Execute", ownErrPath: true, errReturned: true,
		spine: []elemSpec{el(nsCommands, "command", at("status", "executing"), at("node", "n1"), at("sessionid", "s1"))},
		elems: append([]elemSpec{
			el(nsCommands, "actions", at("execute", "next")), el(nsCommands, "next"), el(nsCommands, "prev"), el(nsCommands, "complete"),
			el(nsCommands, "note", at("type", "info")),
		}, formElems[:5]...),
		macros: []string{`<actions xmlns='` + nsCommands + `' execute='next'><prev/><next/><complete/></actions>`, `<note xmlns='` + nsCommands + `' type='warn'>careful</note>`, mFormFull},
		call: func(x *hx) error {
			resp, payload, err := commands.Command{JID: serverJID, Node: "n1"}.Execute(x.ctx, nil, x.s)
			if err != nil {
				return err
			}
			x.note("response status=%q node=%q sid=%q", resp.Status, resp.Node, resp.SID)
			return firstErr(commandPayload(x, payload), payload.Close())
		}},
	{name: "commands.Command.ForEach", ownErrPath: true, errReturned: true,
		spine:  []elemSpec{el(nsCommands, "command", at("status", "executing"), at("node", "n1"), at("sessionid", "s1"))},
		elems:  []elemSpec{el(nsCommands, "actions", at("execute", "next")), el(nsCommands, "next"), el(nsCommands, "note", at("type", "info")), el(nsData, "x", at("type", "form"))},
		macros: []string{`<actions xmlns='` + nsCommands + `' execute='next'><prev/><next/><complete/></actions>`, mFormFull},
		call: func(x *hx) error {
			n := 0
			return commands.Command{JID: serverJID, Node: "n1"}.ForEach(x.ctx, nil, x.s, func(resp commands.Response, payload xml.TokenReader) (commands.Command, xml.TokenReader, error) {
				if n++; n > 8 {
					return commands.Command{}, nil, errIterCap
				}
				err := commandPayload(x, payload)
				x.note("stage %d status=%q err=%v", n, resp.Status, err)
				return resp.Next(), nil, err
			})
		}},
}

func init() {
	seen := map[string]bool{}
	for _, h := range helperSpecs {
		if seen[h.name] {
			panic("c09: duplicate helper " + h.name)
		}
		seen[h.name] = true
		h.pkg = &pkgSpec{name: "helper:" + h.name, elems: h.elems, texts: h.texts}
	}
}
