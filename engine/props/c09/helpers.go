package c09

// Second half of C09: every request helper of the library that sends a request
// and parses the peer's reply returns a value or an error - never a panic -
// whatever the reply contains, and the served session neither blocks nor
// panics meanwhile.
//
// One execution = one real session (vsess.Env) under the controlled scheduler
// along the canonical schedule (the quantifier is the reply, not the
// interleaving), a serve loop running the full mux, one helper call in the
// application thread, and a reactive peer (memconn OnWrite hook) that answers
// the helper's first request with the enumerated reply and any later request
// of the same call with one of a few stock answers.  After the helper returned
// (and whatever the API tells the caller to close has been closed) the peer
// sends a sentinel message and the closing stream tag.

import (
	"context"
	"encoding/xml"
	"errors"
	"fmt"
	"os"
	"strings"
	"time"

	"mellium.im/xmlstream"
	"mellium.im/xmpp"
	"mellium.im/xmpp/muc"
	"mellium.im/xmpp/stanza"

	"verif/drv"
	"verif/nd"
	"verif/sess"
	"verif/vs"
	"verif/vsess"
)

// hspec describes one request helper.
type hspec struct {
	name  string
	spine []elemSpec // expected payload of a result reply: spine[0] > spine[1] > ...
	elems []elemSpec // vocabulary below the payload
	texts []string
	// macros: ready-made subtrees of typical replies (a page marker, a form, an
	// item with everything), available wherever an element is, one node each.
	macros []string
	// errReturned: the helper documents that error replies are returned as
	// errors (it is built on UnmarshalIQ / IterIQ), so oracle clause 4 applies.
	errReturned bool
	// ownErrPath: the helper looks at error replies itself instead of leaving
	// them to UnmarshalIQ / IterIQ (larger <error/> trees are enumerated).
	ownErrPath bool
	joined     bool // needs a joined muc.Channel
	nmsgs      int  // history: up to this many archive messages precede the reply
	variants   int  // helper specific way of consuming the response (SendIQ: none/one/all tokens)
	// call runs the helper in the application thread, consumes the value the way
	// the documentation tells a caller to (drains and closes iterators, closes
	// responses) and returns the helper's error (for iterators: Err(), else the
	// error of Close).
	call func(x *hx) error

	pkg *pkgSpec // vocabulary in the form the tree generator wants
}

// hx is what a helper call gets.
type hx struct {
	ctx     context.Context
	s       *xmpp.Session
	w       *world
	ch      *muc.Channel
	variant int
	notes   []string
}

func (x *hx) note(f string, a ...any) {
	if len(x.notes) < 40 {
		x.notes = append(x.notes, fmt.Sprintf(f, a...))
	}
}

var errorRoot = el(nsStanza, "error", at("type", "cancel"), at("by", "example.org"))

// errPkg is the vocabulary of <error/> payloads (stanza/error.go).
var errPkg = &pkgSpec{
	name: "stanza-error",
	elems: []elemSpec{
		el(nsStanzaErr, "item-not-found"),
		el(nsStanzaErr, "service-unavailable"),
		el(nsStanzaErr, "text", at("xml:lang", "en")),
		el("urn:app:errors", "too-many", at("limit", "3")),
		el(nsStanza, "error", at("type", "cancel"), at("by", "example.org")),
	},
}

// hgen grows trees like treeGen, with a node budget of its own next to the
// explorer's deviation bound (a node costs one deviation).
type hgen struct {
	c      *nd.Ctx
	p      *pkgSpec
	macros []string // ready-made subtrees (typical well-formed content), one node each
	left   int
	dup    bool
	n      int
}

func (g *hgen) can() bool { return g.left > 0 && g.c.Remaining() > 0 }

func (g *hgen) element(es *elemSpec, root bool) *tnode {
	n := &tnode{name: es.name}
	g.grow(n, es, root)
	return n
}

func (g *hgen) grow(n *tnode, es *elemSpec, root bool) {
	if !g.can() {
		return
	}
	ls := labelsFor(g.p, es, root)
	for g.can() {
		k := g.c.ChooseCost(1+len(ls)+len(g.macros), "node", 1)
		if k == 0 {
			break
		}
		g.left--
		g.n++
		if k > len(ls) {
			n.children = append(n.children, &tnode{name: xml.Name{Local: "macro"}, raw: true, text: g.macros[k-1-len(ls)]})
			continue
		}
		l := ls[k-1]
		switch l.kind {
		case lElem:
			n.children = append(n.children, g.element(l.el, false))
		case lAttr:
			for _, a := range n.attrs {
				if a.name == l.attr.name {
					g.dup = true
				}
			}
			n.attrs = append(n.attrs, l.attr)
		default:
			if k := len(n.children); k > 0 && n.children[k-1].name.Local == "" {
				g.dup = true
			}
			n.children = append(n.children, &tnode{text: l.text})
		}
	}
}

// bare renders an element with its valid attributes and no content.
func bare(es *elemSpec) *tnode {
	n := &tnode{name: es.name}
	for _, a := range es.attrs {
		n.attrs = append(n.attrs, wattr{a.name, a.valid})
	}
	return n
}

// reply classes
const (
	clResult = iota
	clError
	clMalformed
	clNotReply
	clHeader
	nClasses
)

var classNames = []string{"result", "error", "malformed", "not-a-reply", "header"}

// Ill-formed replies: %s is the payload's start tag (valid attributes), %e its
// name.  "eof" ends the input right after what is shown.
var malformedShapes = []struct {
	name, body string
	eof        bool
}{
	{"eof-inside-payload-tag", "<PAYLOAD-TAG-OPEN", true},
	{"eof-inside-payload", "PAYLOAD-OPEN<x", true},
	{"eof-after-payload", "PAYLOAD-EMPTY", true},
	{"mismatched-end-tag", "PAYLOAD-OPEN</nope></iq>", false},
	{"undefined-entity", "PAYLOAD-OPEN&bogus;PAYLOAD-CLOSE</iq>", false},
	{"duplicate-attribute", "PAYLOAD-OPEN<a b='1' b='2'/>PAYLOAD-CLOSE</iq>", false},
	{"unquoted-attribute", "PAYLOAD-OPEN<a b=c/>PAYLOAD-CLOSE</iq>", false},
	{"comment-in-payload", "PAYLOAD-OPEN<!-- c -->PAYLOAD-CLOSE</iq>", false},
	{"nul-byte", "PAYLOAD-OPEN\x00PAYLOAD-CLOSE</iq>", false},
	{"stream-end-inside-reply", "PAYLOAD-OPEN</stream:stream>", false},
}

var notReplyTypes = []string{"get", "set", absent, "bogus"}

var followUps = []string{"empty-result", "error-service-unavailable", "error-forbidden"}

var archivePool = []string{
	`<message from='example.net' to='` + ownFull + `'><result xmlns='` + nsMAM + `' queryid='q1' id='a1'>` + fwdMsg + `</result></message>`,
	`<message from='example.net' to='` + ownFull + `'><result xmlns='` + nsMAM + `' queryid='other' id='a2'>` + fwdMsg + `</result></message>`,
	`<message from='example.net' to='` + ownFull + `'>x<result xmlns='` + nsMAM + `' queryid='q1'/></message>`,
	`<message from='example.net' to='` + ownFull + `' type='chat'><result xmlns='` + nsMAM + `' queryid='q1'/><body>b</body></message>`,
}

const sentinelXML = `<message id='sentinel' from='example.net' to='` + ownFull + `'><body>s</body></message>`

// planned is the enumerated behaviour of the peer for one execution.
type planned struct {
	class    int
	desc     string
	body     string // children of the <iq/> (well-formed classes) or everything after the start tag (malformed)
	typ      string // type attribute (absent = none)
	from, to string // "" = the request's to / the session's own address
	lang     string
	eof      bool     // the input ends right after the reply
	cancel   bool     // the reply is no reply: the application gives up afterwards
	proper   bool     // error reply carrying an <error/> element in the stream's namespace
	before   []string // stanzas sent before the reply (archive messages)
	nodes    int
}

func (p *planned) render(id, reqTo string) string {
	var b strings.Builder
	b.WriteString("<iq")
	from, to := p.from, p.to
	if from == "" {
		from = reqTo
		if from == "" {
			from = absent
		}
	}
	if to == "" {
		to = ownFull
	}
	if from == "empty" {
		from = ""
	}
	lang := p.lang
	if lang == "" {
		lang = absent
	}
	for _, a := range [][2]string{{"type", p.typ}, {"id", id}, {"from", from}, {"to", to}, {"xml:lang", lang}} {
		if a[1] != absent {
			b.WriteString(" " + a[0] + `="`)
			escAttr(&b, a[1])
			b.WriteString(`"`)
		}
	}
	b.WriteString(">")
	b.WriteString(p.body)
	if p.class != clMalformed {
		b.WriteString("</iq>")
	}
	return b.String()
}

// spineTree builds spine[0] > ... > spine[depth-1] and returns root and leaf.
func spineTree(spine []elemSpec, depth int) (root, leaf *tnode) {
	for i := 0; i < depth; i++ {
		n := bare(&spine[i])
		if root == nil {
			root = n
		} else {
			leaf.children = append(leaf.children, n)
		}
		leaf = n
	}
	return root, leaf
}

func renderNodes(ns string, nodes []*tnode) string {
	var b strings.Builder
	for _, n := range nodes {
		n.write(&b, ns, ns)
	}
	return b.String()
}

type hbounds struct {
	result int // nodes of a result reply (before / below / after the payload)
	err    int // nodes of an <error/> tree
	errAll int // the same for the helpers that do not go through UnmarshalIQ / IterIQ alone
}

// plan makes the choices of one execution; ok=false: outside the domain.
func plan(c *nd.Ctx, h *hspec, bd hbounds) (p planned, ok bool) {
	ns := stanza.NSClient
	p.class = c.Choose(nClasses, "reply-class")
	p.typ = "result"
	switch p.class {
	case clResult:
		g := &hgen{c: c, p: h.pkg, macros: h.macros, left: bd.result}
		variant := c.Choose(4, "payload") // expected, none, expected name in another namespace, another name in the expected namespace
		var nodes []*tnode
		if g.can() {
			if k := c.ChooseCost(len(preVals), "before-payload", 1); k > 0 {
				g.left--
				g.n++
				if preVals[k] == "x" || preVals[k] == " \n" {
					nodes = append(nodes, &tnode{text: preVals[k]})
				} else {
					nodes = append(nodes, bare(&unknownElem))
				}
			}
		}
		switch variant {
		case 0:
			depth := len(h.spine)
			if depth > 1 {
				depth -= c.Choose(len(h.spine), "spine-depth")
			}
			root, leaf := spineTree(h.spine, depth)
			g.grow(leaf, &h.spine[depth-1], depth == 1)
			nodes = append(nodes, root)
		case 1:
		case 2:
			es := h.spine[0]
			es.name.Space = nsUnknown
			nodes = append(nodes, g.element(&es, false))
		case 3:
			es := h.spine[0]
			es.name.Local = "nope"
			nodes = append(nodes, g.element(&es, false))
		}
		for g.can() {
			k := c.ChooseCost(5, "after-payload", 1)
			if k == 0 {
				break
			}
			g.left--
			g.n++
			switch k {
			case 1, 2:
				if n := len(nodes); n > 0 && nodes[n-1].name.Local == "" {
					g.dup = true
				}
				nodes = append(nodes, &tnode{text: []string{"x", " \n"}[k-1]})
			case 3:
				nodes = append(nodes, bare(&unknownElem))
			default:
				nodes = append(nodes, bare(&h.spine[0]))
			}
		}
		if g.dup {
			return p, false
		}
		p.nodes = g.n
		p.body = renderNodes(ns, nodes)
		p.desc = "result"
	case clError:
		p.typ = "error"
		budget := bd.err
		if h.ownErrPath {
			budget = bd.errAll
		}
		g := &hgen{c: c, p: errPkg, left: budget}
		var nodes []*tnode
		if c.Choose(2, "echo-request-payload") == 1 {
			nodes = append(nodes, bare(&h.spine[0]))
		}
		if k := c.Choose(3, "before-error"); k > 0 {
			nodes = append(nodes, &tnode{text: []string{"x", " \n"}[k-1]})
		}
		switch c.Choose(3, "error-element") {
		case 0:
			nodes = append(nodes, g.element(&errorRoot, true))
			p.proper = true
		case 1: // none
		case 2:
			es := errorRoot
			es.name.Space = nsUnknown
			nodes = append(nodes, g.element(&es, false))
		}
		if g.dup {
			return p, false
		}
		p.nodes = g.n
		p.body = renderNodes(ns, nodes)
		p.desc = "error"
	case clMalformed:
		sh := malformedShapes[c.Choose(len(malformedShapes), "ill-formed")]
		if c.Choose(2, "type") == 1 {
			p.typ = "error"
		}
		var b strings.Builder
		bare(&h.spine[0]).write(&b, ns, ns)
		empty := b.String()
		open := strings.TrimSuffix(empty, "/>") + ">"
		body := sh.body
		body = strings.ReplaceAll(body, "<PAYLOAD-TAG-OPEN", strings.TrimSuffix(empty, "/>"))
		body = strings.ReplaceAll(body, "PAYLOAD-OPEN", open)
		body = strings.ReplaceAll(body, "PAYLOAD-EMPTY", empty)
		body = strings.ReplaceAll(body, "PAYLOAD-CLOSE", "</"+h.spine[0].name.Local+">")
		p.body, p.eof = body, sh.eof
		p.desc = "ill-formed:" + sh.name
	case clNotReply:
		p.typ = notReplyTypes[c.Choose(len(notReplyTypes), "type")]
		if c.Choose(2, "payload") == 0 {
			if sp := h.spine[0].name.Space; p.typ == "get" && (sp == nsInfo || sp == nsItems) {
				// Harness limitation: this is a disco request to us; disco's handler
				// answers through an xmlstream.Pipe, whose sync.Cond the scheduler
				// does not control (xmlstream is not instrumented): the serve thread
				// would wait for a thread that is never scheduled.  The handler itself
				// is covered by the parts that run without the scheduler.
				return p, false
			}
			p.body = renderNodes(ns, []*tnode{bare(&h.spine[0])})
		}
		p.cancel = true
		p.desc = "not-a-reply"
	case clHeader:
		p.typ = []string{"result", "error"}[c.Choose(2, "type")]
		p.from = []string{"", absent, junkJID, "empty", ownBare}[c.Choose(5, "from")]
		p.to = []string{"", absent, junkJID}[c.Choose(3, "to")]
		p.lang = []string{"", "en"}[c.Choose(2, "xml:lang")]
		nodes := []*tnode{bare(&h.spine[0])}
		if p.typ == "error" {
			e := bare(&errorRoot)
			e.children = append(e.children, bare(&errPkg.elems[0]))
			nodes = append(nodes, e)
		}
		p.body = renderNodes(ns, nodes)
		p.desc = "header"
	}
	// (archive messages only around the plain replies of each class: the two
	// dimensions are independent in the code under test)
	for i := 0; i < h.nmsgs && p.nodes == 0; i++ {
		k := c.Choose(1+len(archivePool), "archive-message")
		if k == 0 {
			break
		}
		p.before = append(p.before, archivePool[k-1])
	}
	return p, true
}

// acceptable reports whether a reference decoder (encoding/xml, strict, plus
// the session's ban on comments, processing instructions and directives)
// accepts the reply inside a stream; only then is the serve loop expected to
// get as far as the sentinel.
func acceptable(ns, reply string) bool {
	if strings.Contains(reply, "<!--") || strings.Contains(reply, "<?") || strings.Contains(reply, "<!") || strings.Contains(reply, "</stream:stream>") || strings.Contains(reply, "\x00") {
		return false
	}
	d := xml.NewDecoder(strings.NewReader(sess.Header(ns) + reply + "</stream:stream>"))
	for {
		_, err := d.Token()
		if err != nil {
			return err.Error() == "EOF"
		}
	}
}

func helperErrClass(err error) string {
	if err == nil {
		return "nil"
	}
	var se stanza.Error
	if errors.As(err, &se) {
		return "stanza-error"
	}
	return "err"
}

// runHelper is one execution.
func runHelper(c *nd.Ctx, h *hspec, bd hbounds) nd.Result {
	p, ok := plan(c, h, bd)
	if !ok {
		return nd.Result{Skip: true}
	}
	variant := 0
	if h.variants > 1 {
		variant = c.Choose(h.variants, "consume")
	}
	endsWithTimeout := p.eof && c.Choose(2, "input-ends-with-a-read-timeout-instead-of-eof") == 1
	ns := stanza.NSClient
	var (
		env            *vsess.Env
		setupErr       error
		helperErr      error
		helperReturned bool
		sentinelSent   bool
		sentinelSeen   bool
		firstReply     string
		requests       []string
		follow         []string
		x              *hx
		alive          = true
	)
	out := vs.Run(c, vs.Options{Horizon: 200000, Canonical: true}, func() {
		env, setupErr = vsess.New(ns, 0)
		if setupErr != nil {
			return
		}
		w := &world{}
		full := w.fullMux(ns, 0)
		ctx, cancel := context.WithCancel(context.Background())
		defer cancel()
		x = &hx{ctx: ctx, s: env.S, w: w, variant: variant}
		var seen strings.Builder
		answered := map[string]bool{}
		nreq := 0
		env.Lib.OnWrite = func(b []byte) {
			seen.Write(b)
			for _, el := range vsess.TopLevel(ns, seen.String()) {
				id := el.Attr("id")
				switch el.Start.Name.Local {
				case "presence":
					// the room answers the join of the set-up phase with the self-presence
					if answered["p:"+id] || el.Attr("type") != "" {
						continue
					}
					answered["p:"+id] = true
					env.PeerWrite(`<presence from='` + peerFull + `' to='` + ownFull + `'><x xmlns='` + nsMUCUser + `'><item affiliation='owner' role='moderator'/><status code='110'/></x></presence>`)
				case "iq":
					if t := el.Attr("type"); (t != "get" && t != "set") || answered[id] || !alive {
						continue
					}
					answered[id] = true
					nreq++
					if c.Keeping() {
						requests = append(requests, el.Raw)
					}
					if nreq == 1 {
						for _, m := range p.before {
							env.PeerWrite(m)
						}
						firstReply = p.render(id, el.Attr("to"))
						env.PeerWrite(firstReply)
						if p.eof {
							if endsWithTimeout {
								// nothing more arrives and, once what did arrive has been read,
								// the connection's read deadline passes (eg. a close deadline):
								// reads fail with a timeout error from then on
								vs.GoNamed("read-deadline", true, func() {
									vsess.Wait("reply-consumed", func() bool { return env.Lib.Pending() == 0 })
									env.Lib.SetReadDeadline(time.Unix(1, 0))
								})
							} else {
								env.Peer.CloseWrite()
							}
							alive = false
						}
						if p.cancel {
							cancel()
						}
						continue
					}
					if nreq > 24 {
						continue
					}
					// a later request of the same call (next page, walk, next command stage)
					f := followUps[c.Choose(len(followUps), "follow-up-reply")]
					follow = append(follow, f)
					fp := planned{class: clResult, typ: "result"}
					switch f {
					case "error-service-unavailable":
						fp.typ = "error"
						fp.body = `<error type='cancel'><service-unavailable xmlns='` + nsStanzaErr + `'/></error>`
					case "error-forbidden":
						fp.typ = "error"
						fp.body = `<error type='auth'><forbidden xmlns='` + nsStanzaErr + `'/></error>`
					}
					env.PeerWrite(fp.render(id, el.Attr("to")))
				}
			}
		}
		env.Serve(xmpp.HandlerFunc(func(t xmlstream.TokenReadEncoder, start *xml.StartElement) error {
			if start.Name.Local == "message" {
				for _, a := range start.Attr {
					if a.Name.Local == "id" && a.Value == "sentinel" {
						sentinelSeen = true
						return nil
					}
				}
			}
			return full.HandleXMPP(t, start)
		}))
		// Like a real application, ours gives up on outstanding requests when the
		// serve loop has ended: "If the input stream is not being processed (a call
		// to Serve is not running), SendIQ will never receive a response and will
		// block until the provided context is canceled."
		vs.GoNamed("application-on-serve-end", true, func() {
			vsess.Wait("serve-ended", func() bool { return env.ServeDone })
			cancel()
		})
		if h.joined {
			ch, err := w.mucC.Join(ctx, roomJID, env.S)
			if err != nil {
				setupErr = fmt.Errorf("joining the room: %w", err)
				return
			}
			x.ch = ch
		}
		helperErr = h.call(x)
		helperReturned = true
		if alive {
			sentinelSent = true
			env.PeerWrite(sentinelXML)
			env.PeerWrite(`</stream:stream>`)
			env.Peer.CloseWrite()
		}
		vsess.Wait("serve-done", func() bool { return env.ServeDone })
	})
	if setupErr != nil {
		panic("c09 helpers: set-up of " + h.name + " failed: " + setupErr.Error())
	}
	if c.Keeping() {
		c.Note("helper %s; reply class %s (%s), %d tree nodes", h.name, classNames[p.class], p.desc, p.nodes)
		for _, r := range requests {
			c.Note("request: %s", r)
		}
		for _, m := range p.before {
			c.Note("peer first sends: %s", m)
		}
		c.Note("reply: %s%s (read timeout instead of EOF: %v)", firstReply, map[bool]string{true: " then end of input", false: ""}[p.eof], endsWithTimeout)
		if len(follow) > 0 {
			c.Note("later requests answered with: %v", follow)
		}
		if x != nil {
			for _, n := range x.notes {
				c.Note("application: %s", n)
			}
		}
		c.Note("helper returned=%v err=%v; sentinel sent=%v handled=%v; serve done=%v err=%v; run=%s steps=%d", helperReturned, helperErr, sentinelSent, sentinelSeen, env.ServeDone, env.ServeErr, out.Kind, out.Steps)
		if out.Kind != "complete" {
			c.Note("threads left: %v", out.Blocked)
			tr := out.Trace
			if len(tr) > 60 {
				tr = tr[len(tr)-60:]
			}
			for _, t := range tr {
				c.Note("  %s", t)
			}
		}
	}
	res := nd.Result{NonTrivial: h.name + "|" + firstReply + "|" + strings.Join(p.before, "") + fmt.Sprint(variant, follow)}
	fail := func(kind, f string, a ...any) nd.Result {
		res.Outcome = "violation"
		show := firstReply
		if len(show) > 700 {
			show = show[:700] + "…"
		}
		res.Violation = &nd.Violation{Sig: "helper:" + h.name + ":" + kind, Msg: fmt.Sprintf("%s answered with %q (%s; archive messages before: %d; later requests answered %v): ", h.name, show, p.desc, len(p.before), follow) + fmt.Sprintf(f, a...)}
		return res
	}
	switch out.Kind {
	case "panic":
		return fail("panic:"+out.Panic.Sig(), "panic in thread %s: %s\n%s", out.PanicIn, out.Panic.Value, out.Panic.Stack)
	case "deadlock", "horizon":
		why := "nothing can run any more"
		if out.Kind == "horizon" {
			why = fmt.Sprintf("still running after %d scheduling steps", out.Steps)
		}
		if !helperReturned {
			return fail("never-returns", "the helper (or draining/closing what it returned) never returns: %s; threads: %v", why, out.Blocked)
		}
		if !env.ServeDone {
			sig := "serve-stalled-after-reply"
			if p.class == clMalformed {
				sig = "serve-stalled-after-ill-formed-reply"
			}
			return fail(sig, "the helper returned (err=%v) and everything it handed out was closed, but Serve neither handles the following stanza nor returns although the input ended: %s; threads: %v", helperErr, why, out.Blocked)
		}
		return fail("application-thread-stalled", "%s; threads: %v", why, out.Blocked)
	}
	if !env.ServeDone {
		return fail("serve-not-done", "run complete but Serve did not return")
	}
	if sentinelSent && !sentinelSeen && env.ServeErr == nil && acceptable(ns, firstReply) {
		return fail("serve-ended-silently", "Serve returned nil without handling the stanza that followed the reply")
	}
	if p.class == clError && p.proper && h.errReturned && helperErr == nil && len(follow) == 0 {
		return fail("error-reply-not-reported", "the reply has type='error' and carries an <error/> element, the helper returned a nil error")
	}
	serve := "nil"
	if env.ServeErr != nil {
		serve = "err"
	}
	res.Outcome = fmt.Sprintf("%s helper=%s serve=%s sentinel=%v", classNames[p.class], helperErrClass(helperErr), serve, sentinelSeen)
	return res
}

func helpersBody(hs []*hspec, bd hbounds) nd.Body {
	return func(c *nd.Ctx) nd.Result {
		h := hs[c.Choose(len(hs), "helper")]
		return runHelper(c, h, bd)
	}
}

// helperGroups splits the helper table into parts.
var helperGroups = []struct {
	part, desc string
	prefixes   []string
}{
	{"helpers-session", "Session.SendIQ/SendIQElement/EncodeIQElement/UnmarshalIQ/UnmarshalIQElement/IterIQ/IterIQElement", []string{"Session."}},
	{"helpers-lists", "disco, roster, blocklist helpers", []string{"disco.", "roster.", "blocklist."}},
	{"helpers-pubsub", "pubsub, bookmarks, history helpers", []string{"pubsub.", "bookmarks.", "history."}},
	{"helpers-misc", "version, xtime, upload, ping, carbons, bin, muc, commands helpers", []string{"version.", "xtime.", "upload.", "ping.", "carbons.", "bin.", "muc.", "commands."}},
}

func helperParts(tier string) []drv.Part {
	bd := hbounds{result: 3, err: 1, errAll: 3}
	shapesN, maxTexts := 4, 2
	b := 3 * time.Minute
	if tier == "thorough" {
		bd = hbounds{result: 4, err: 2, errAll: 3}
		shapesN, maxTexts = 5, 3
		b = 20 * time.Minute
	}
	oneP := []string{"GOMAXPROCS=1"}
	maxDev := bd.result
	if bd.errAll > maxDev {
		maxDev = bd.errAll
	}
	var parts []drv.Part
	covered := 0
	for _, g := range helperGroups {
		var hs []*hspec
		var names []string
		for _, h := range helperSpecs {
			for _, p := range g.prefixes {
				// VERIF_HELPER (debugging aid): only the helpers whose name contains it
				if only := os.Getenv("VERIF_HELPER"); only != "" && !strings.Contains(h.name, only) {
					if strings.HasPrefix(h.name, p) {
						covered++
					}
					continue
				}
				if strings.HasPrefix(h.name, p) {
					hs = append(hs, h)
					names = append(names, h.name)
				}
			}
		}
		covered += len(hs)
		if len(hs) == 0 {
			continue
		}
		parts = append(parts, drv.Part{
			Name: g.part,
			Desc: fmt.Sprintf("request helpers (%s) against enumerated replies: result replies with <= %d nodes before/below/after the payload, <error/> trees of <= %d nodes (<= %d for helpers that do not go through UnmarshalIQ/IterIQ alone), ill-formed replies, non-replies, header variants; canonical schedule", strings.Join(names, ", "), bd.result, bd.err, bd.errAll),
			Body: helpersBody(hs, bd), MaxDev: maxDev, CutDepth: 5, Budget: b, Env: oneP,
		})
	}
	if covered != len(helperSpecs) {
		panic("c09: a helper belongs to no part")
	}
	parts = append(parts,
		drv.Part{Name: "decoders-shapes", Desc: fmt.Sprintf("stanza.UnmarshalError, stanza.UnmarshalIQError, xml.Unmarshal into stanza.Error and stream.Error over the product type x by x condition x 0-%d <text/> (xml:lang missing/en/de, empty/non-empty) x application condition x unknown child x character data between children x what precedes the error", maxTexts), Body: shapesBody(maxTexts), MaxDev: 0, CutDepth: 4, Budget: b},
		drv.Part{Name: "decoders-trees", Desc: fmt.Sprintf("the same decoders over every tree of the error vocabulary with <= %d nodes", shapesN), Body: errTreesBody(shapesN), MaxDev: shapesN, CutDepth: 3, Budget: b},
	)
	return parts
}

const helpersRule = "Second half (request helpers, parts helpers-* and decoders-*): for each of the library's request helpers (Session.SendIQ/SendIQElement/EncodeIQElement/UnmarshalIQ/UnmarshalIQElement/IterIQ/IterIQElement, disco.GetInfo/FetchItems/WalkItem, roster.Fetch/Set/Delete, blocklist.Fetch/Add/Remove/Report, pubsub.Fetch/Publish/Delete/CreateNode/GetConfig/GetDefaultConfig/SetConfig, bookmarks.Fetch/Publish/Delete, history.Fetch and (*Handler).Fetch, version.Get, xtime.Get, upload.GetSlot, ping.Send, carbons.Enable/Disable, bin.Get, muc.GetConfig/SetConfig/(*Channel).SetAffiliation after a join, commands.Fetch/Command.Execute/Command.ForEach; the non-IQ variants, which call the IQ variants) one real session under the controlled scheduler along the canonical schedule, Serve running the full mux, the helper called in the application thread, a reactive peer answering the request (same id, from/to swapped) with every reply of: " +
	"result: [text|white space|unknown element]? {expected payload (for nested payloads every prefix of the nesting) | none | expected name in another namespace | another name in the expected namespace} carrying every tree over the helper's reply vocabulary (its elements anywhere, each attribute valid/empty/junk, unknown attribute, xml:lang, prefixed attribute, text, white space, helper specific text, ready-made typical subtrees such as a result-set page marker, a complete data form, a complete item) then [text|white space|unknown element|second payload]*, all <= N nodes (quick 3, thorough 4); " +
	"error: [echoed request payload]? [text|white space]? {<error/> | none | <error/> in another namespace} with every tree over the error vocabulary (conditions, <text/> with xml:lang, application condition, nested error, type/by valid/empty/junk) of <= 1 node (quick; 2 thorough), <= 3 nodes for the helpers with error handling of their own; " +
	"ill-formed: end of input inside the payload's start tag / inside the payload / after the payload, mismatched end tag, undefined entity, duplicate attribute, unquoted attribute, comment, NUL, closing stream tag inside the reply, each as result and as error; " +
	"not a reply: an IQ with the request's id and type get/set/none/bogus, with and without payload (the application then cancels the call); header: type x from {request's to, missing, not a JID, empty, own bare} x to {own, missing, not a JID} x xml:lang; history: 0-2 archive messages (matching/other query id, text before the result, second payload) before the reply; later requests of the same call answered with {empty result, service-unavailable, forbidden}. " +
	"Oracle per execution: no panic in any thread (helper:<name>:panic:<site>); the helper returns and what it returned can be drained and closed (helper:<name>:never-returns); afterwards the peer sends a sentinel message and the closing stream tag and Serve handles the sentinel (if a reference decoder accepts the reply) and returns (helper:<name>:serve-stalled-after-reply / -after-ill-formed-reply); helpers documented to return error replies return a non-nil error for type='error' replies carrying an <error/> (helper:<name>:error-reply-not-reported). " +
	"decoders-shapes: stanza.UnmarshalError, stanza.UnmarshalIQError, xml.Unmarshal into stanza.Error and into stream.Error over the product type {none, cancel, bogus} x by {none, JID, not a JID, empty} x condition {none, defined, wrong namespace, two, with text content} x 0-2 (thorough 0-3) <text/> each xml:lang {none, en, de} x {empty, words} x application condition {none, empty, nested with a <text/> inside} x unknown child x character data between children {none, text, white space} x before the error {nothing, payload, text}; decoders-trees: the same decoders over every tree of the error vocabulary with <= 4 nodes (thorough 5); oracle: a value or an error, no panic (decoder:<name>:<site>)."
