package c09

import (
	"encoding/xml"
	"strings"

	"verif/nd"
)

// ---- token trees ----------------------------------------------------------

type wattr struct {
	name, value string
}

type tnode struct {
	name     xml.Name // Local == "": text node
	text     string
	attrs    []wattr
	children []*tnode
	prefixed bool // written with a prefix instead of a default namespace declaration
	raw      bool // text is ready-made XML (a whole subtree counted as one node), written as it is
}

const (
	lElem = iota
	lAttr
	lText
)

type label struct {
	kind int
	el   *elemSpec
	attr wattr
	text string
}

var unknownElem = elemSpec{name: xml.Name{Space: nsUnknown, Local: "unknown"}}

// labelSet is the alphabet available below one element.
type labelSet []label

var labelCache = map[*pkgSpec]map[string]labelSet{}

func labelsFor(p *pkgSpec, es *elemSpec, root bool) labelSet {
	key := es.name.Space + " " + es.name.Local
	if root {
		key += " root"
	}
	if m := labelCache[p]; m != nil {
		if ls, ok := m[key]; ok {
			return ls
		}
	} else {
		labelCache[p] = map[string]labelSet{}
	}
	var ls labelSet
	for i := range p.elems {
		ls = append(ls, label{kind: lElem, el: &p.elems[i]})
	}
	ls = append(ls, label{kind: lElem, el: &unknownElem})
	for _, a := range es.attrs {
		ls = append(ls, label{kind: lAttr, attr: wattr{a.name, a.valid}})
		ls = append(ls, label{kind: lAttr, attr: wattr{a.name, ""}})
		ls = append(ls, label{kind: lAttr, attr: wattr{a.name, junkVal}})
	}
	ls = append(ls, label{kind: lAttr, attr: wattr{"unk", "x"}})
	if root {
		ls = append(ls, label{kind: lAttr, attr: wattr{"xml:lang", "en"}})
		ls = append(ls, label{kind: lAttr, attr: wattr{"p:a", "x"}})
	}
	ls = append(ls, label{kind: lText, text: "x"}, label{kind: lText, text: " \n"})
	for _, t := range p.texts {
		ls = append(ls, label{kind: lText, text: t})
	}
	labelCache[p][key] = ls
	return ls
}

// treeGen grows trees; every node costs one deviation, so the explorer's
// deviation bound is the node budget and the cheapest violation kept per
// signature is the one with the fewest nodes.
type treeGen struct {
	c   *nd.Ctx
	p   *pkgSpec
	off bool // no nodes at all
	dup bool // the tree repeats an attribute or has two adjacent text nodes: not a new case
}

func (t *treeGen) left() int {
	if t.off {
		return 0
	}
	return t.c.Remaining()
}

func (t *treeGen) element(es *elemSpec, root bool) *tnode {
	n := &tnode{name: es.name}
	if t.left() <= 0 {
		return n
	}
	ls := labelsFor(t.p, es, root)
	for t.left() > 0 {
		k := t.c.ChooseCost(1+len(ls), "node", 1)
		if k == 0 {
			break
		}
		l := ls[k-1]
		switch l.kind {
		case lElem:
			n.children = append(n.children, t.element(l.el, false))
		case lAttr:
			for _, a := range n.attrs {
				if a.name == l.attr.name {
					t.dup = true
				}
			}
			n.attrs = append(n.attrs, l.attr)
		default:
			t.addText(n, l.text)
		}
	}
	return n
}

func (t *treeGen) addText(n *tnode, s string) {
	if k := len(n.children); k > 0 && n.children[k-1].name.Local == "" {
		t.dup = true
	}
	n.children = append(n.children, &tnode{text: s})
}

func escAttr(b *strings.Builder, s string) {
	xml.EscapeText(b, []byte(s))
}

// write renders the tree; defNS is the default namespace in scope, stanzaNS
// the stream's stanza namespace (substituted for nsStanza).
func (n *tnode) write(b *strings.Builder, defNS, stanzaNS string) {
	if n.raw {
		b.WriteString(n.text)
		return
	}
	if n.name.Local == "" {
		xml.EscapeText(b, []byte(n.text))
		return
	}
	space := n.name.Space
	if space == nsStanza {
		space = stanzaNS
	}
	tag := n.name.Local
	childNS := space
	switch {
	case n.prefixed:
		tag = "p0:" + tag
		b.WriteString("<" + tag + ` xmlns:p0="` + space + `"`)
		childNS = defNS
	case space != defNS:
		b.WriteString("<" + tag + ` xmlns="` + space + `"`)
	default:
		b.WriteString("<" + tag)
	}
	for _, a := range n.attrs {
		if a.name == "p:a" {
			b.WriteString(` xmlns:p="urn:p"`)
		}
		b.WriteString(" " + a.name + `="`)
		escAttr(b, a.value)
		b.WriteString(`"`)
	}
	if len(n.children) == 0 {
		b.WriteString("/>")
		return
	}
	b.WriteString(">")
	for _, c := range n.children {
		c.write(b, childNS, stanzaNS)
	}
	b.WriteString("</" + tag + ">")
}

// ---- stanza headers -------------------------------------------------------

type header struct {
	kind              string
	typ, from, to, id string // "-" = attribute absent
	lang              string // xml:lang; "" or "-" = absent ... see open
}

const absent = "-"

func (h header) open(b *strings.Builder) {
	b.WriteString("<" + h.kind)
	lang := h.lang
	if lang == "" {
		lang = absent // zero value: no xml:lang
	} else if lang == "empty" {
		lang = ""
	}
	for _, a := range [][2]string{{"type", h.typ}, {"id", h.id}, {"from", h.from}, {"to", h.to}, {"xml:lang", lang}} {
		if a[1] != absent {
			b.WriteString(" " + a[0] + `="`)
			escAttr(b, a[1])
			b.WriteString(`"`)
		}
	}
	b.WriteString(">")
}

func (h header) close(b *strings.Builder) { b.WriteString("</" + h.kind + ">") }

var allTypes = map[string][]string{
	"iq":       {"get", "set", "result", "error", absent, "", "bogus"},
	"message":  {absent, "normal", "chat", "groupchat", "headline", "error", "", "bogus"},
	"presence": {absent, "unavailable", "subscribe", "subscribed", "unsubscribe", "unsubscribed", "probe", "error", "", "bogus"},
}

var (
	fromVals = []string{peerFull, absent, ownBare, junkJID, ""}
	toVals   = []string{ownFull, absent, junkJID}
	idVals   = []string{"i1", absent, ""}
)

func typeAttr(t string) string {
	if t == "" {
		return absent // registered type "" means: no type attribute
	}
	return t
}

const streamEnd = "</stream:stream>"
