package c03

import (
	"context"
	"encoding/base64"
	"fmt"
	"regexp"
	"strings"

	"mellium.im/sasl"
	"mellium.im/xmpp"

	"verif/nd"
	"verif/sess"
)

var scramServerLists = [][]sasl.Mechanism{{sasl.ScramSha1}, {sasl.Plain, sasl.ScramSha256}, {sasl.ScramSha256, sasl.ScramSha1}}

var payloadRE = regexp.MustCompile(`>([^<]*)</`)

// receiverScramBody: the receiving side offers a SCRAM mechanism and the peer
// is a real SCRAM client (mellium.im/sasl) that runs the mechanism to its end
// with one of several passwords. Whatever the mechanism does, the session is
// authenticated only with credentials the permission callback accepted.
func receiverScramBody(c *nd.Ctx) nd.Result {
	mechs := scramServerLists[c.Choose(len(scramServerLists), "server-mechanisms")]
	var cm sasl.Mechanism
	for _, m := range mechs {
		if strings.HasPrefix(m.Name, "SCRAM") {
			cm = m
			break
		}
	}
	cbMode := c.Choose(4, "callback") // 0 checks the password, 1 accepts all, 2 rejects all, 3 none configured
	user := []string{"me", "someone"}[c.Choose(2, "user")]
	pass := []string{"", "secret", "wrong"}[c.Choose(3, "password")]
	type cbCall struct {
		user, pass string
		verdict    bool
	}
	var calls []cbCall
	perm := func(n *sasl.Negotiator) bool {
		u, p, _ := n.Credentials()
		v := false
		switch cbMode {
		case 0:
			v = string(u) == "me" && string(p) == "secret"
		case 1:
			v = true
		}
		calls = append(calls, cbCall{string(u), string(p), v})
		return v
	}
	client := sasl.NewClient(cm, sasl.Credentials(func() (Username, Password, Identity []byte) {
		return []byte(user), []byte(pass), nil
	}), sasl.RemoteMechanisms(names(mechs)...))
	successSeen, needHeader, started := false, true, false
	var clientErr error
	steps := 0
	conn := sess.NewReactive(func(step int, w string) (string, error) {
		if strings.Contains(w, "<success") {
			successSeen = true
			return "", nil
		}
		if needHeader {
			needHeader = false
			return header("me@example.com", "example.com"), nil
		}
		if steps > 6 || strings.Contains(w, "<failure") {
			return "", nil
		}
		steps++
		if !started {
			started = true
			_, resp, err := client.Step(nil)
			if err != nil {
				clientErr = err
				return "", nil
			}
			return fmt.Sprintf(`<auth xmlns='%s' mechanism='%s'>%s</auth>`, saslNS, cm.Name, base64.StdEncoding.EncodeToString(resp)), nil
		}
		if !strings.Contains(w, "<challenge") {
			return "", nil
		}
		m := payloadRE.FindStringSubmatch(w[strings.Index(w, "<challenge"):])
		if m == nil {
			return "", nil
		}
		ch, err := base64.StdEncoding.DecodeString(m[1])
		if err != nil {
			return "", nil
		}
		_, resp, err := client.Step(ch)
		if err != nil {
			clientErr = err
			return "", nil
		}
		return fmt.Sprintf(`<response xmlns='%s'>%s</response>`, saslNS, base64.StdEncoding.EncodeToString(resp)), nil
	})
	var s *xmpp.Session
	var err error
	pn := nd.Catch(func() {
		s, err = xmpp.ReceiveSession(context.Background(), conn, xmpp.Secure, xmpp.NewNegotiator(func(*xmpp.Session, *xmpp.StreamConfig) xmpp.StreamConfig {
			if cbMode == 3 {
				return xmpp.StreamConfig{Features: []xmpp.StreamFeature{xmpp.SASLServer(nil, mechs...)}}
			}
			return xmpp.StreamConfig{Features: []xmpp.StreamFeature{xmpp.SASLServer(perm, mechs...)}}
		}))
	})
	desc := fmt.Sprintf("receiver mechanisms=%v callback-mode=%d, a real %s client with user %q password %q (client error %v) callback-calls=%v", names(mechs), cbMode, cm.Name, user, pass, clientErr, calls)
	c.Note("%s", desc)
	res := nd.Result{Outcome: "not-authenticated", NonTrivial: desc}
	if pn != nil {
		if pn.Frame == "" || strings.Contains(pn.Value, "not implemented") {
			res.Outcome = "dependency-panic"
			return res
		}
		res.Violation = &nd.Violation{Sig: "receiver:" + pn.Sig(), Msg: desc + ": panic " + pn.Value + "\n" + pn.Stack}
		return res
	}
	fail := func(sig, f string, a ...any) nd.Result {
		res.Violation = &nd.Violation{Sig: "receiver:" + sig, Msg: desc + fmt.Sprintf(" err=%v success-sent=%v: ", err, successSeen) + fmt.Sprintf(f, a...)}
		return res
	}
	authn := s != nil && s.State()&xmpp.Authn != 0
	if !authn {
		if successSeen {
			return fail("success-without-authn", "the receiver sent <success/> but the session is not authenticated")
		}
		return res
	}
	res.Outcome = "authenticated"
	if len(calls) == 0 {
		return fail("authenticated-without-permission-callback", "the permission callback was never asked")
	}
	if !calls[len(calls)-1].verdict {
		return fail("authenticated-although-callback-rejected", "the permission callback rejected the credentials %v", calls[len(calls)-1])
	}
	if strings.Contains(conn.Written(), "<failure") {
		return fail("failure-and-success", "a <failure/> was sent and the session is authenticated")
	}
	return res
}
