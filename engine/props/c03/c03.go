// Package c03: the authenticated bit is only set by a completed, accepted SASL exchange.
package c03

import (
	"context"
	"crypto/hmac"
	"crypto/sha1"
	"crypto/sha256"
	"encoding/base64"
	"encoding/xml"
	"fmt"
	"hash"
	"strings"
	"time"

	"golang.org/x/crypto/pbkdf2"
	"mellium.im/sasl"
	"mellium.im/xmpp"
	"mellium.im/xmpp/jid"
	"mellium.im/xmpp/stanza"

	"verif/drv"
	"verif/nd"
	"verif/sess"
)

const saslNS = "urn:ietf:params:xml:ns:xmpp-sasl"
const streamNS = "http://etherx.jabber.org/streams"

func b64(s string) string { return base64.StdEncoding.EncodeToString([]byte(s)) }

func header(from, to string) string {
	h := fmt.Sprintf(`<stream:stream xmlns='%s' xmlns:stream='%s' version='1.0' id='x1'`, stanza.NSClient, streamNS)
	if from != "" {
		h += " from='" + from + "'"
	}
	if to != "" {
		h += " to='" + to + "'"
	}
	return h + ">"
}

// ---------------------------------------------------------------- reference SCRAM server (RFC 5802)

var pbkdfCache = map[string][]byte{}

type scramRef struct {
	fn          func() hash.Hash
	password    string
	clientFirst string // bare
	serverFirst string
	nonce       string
}

func (r *scramRef) first(clientFirst string) (string, bool) {
	// gs2 header: n,, or y,, or p=...,,
	parts := strings.SplitN(clientFirst, ",", 3)
	if len(parts) != 3 {
		return "", false
	}
	r.clientFirst = parts[2]
	cn := ""
	for _, f := range strings.Split(parts[2], ",") {
		if strings.HasPrefix(f, "r=") {
			cn = f[2:]
		}
	}
	if cn == "" {
		return "", false
	}
	r.nonce = cn + "SRVNONCE"
	r.serverFirst = "r=" + r.nonce + ",s=" + b64("salt1234") + ",i=4096"
	return r.serverFirst, true
}

func (r *scramRef) final(clientFinal string) (string, bool) {
	i := strings.LastIndex(clientFinal, ",p=")
	if i < 0 || r.serverFirst == "" {
		return "", false
	}
	without := clientFinal[:i]
	proof, err := base64.StdEncoding.DecodeString(clientFinal[i+3:])
	if err != nil || !strings.Contains(without, "r="+r.nonce) {
		return "", false
	}
	key := fmt.Sprintf("%p/%s", r.fn, r.password)
	if r.fn().Size() == 20 {
		key = "sha1/" + r.password
	} else {
		key = "sha256/" + r.password
	}
	salted := pbkdfCache[key]
	if salted == nil {
		salted = pbkdf2.Key([]byte(r.password), []byte("salt1234"), 4096, r.fn().Size(), r.fn)
		pbkdfCache[key] = salted
	}
	mac := func(k []byte, m string) []byte { h := hmac.New(r.fn, k); h.Write([]byte(m)); return h.Sum(nil) }
	clientKey := mac(salted, "Client Key")
	h := r.fn()
	h.Write(clientKey)
	storedKey := h.Sum(nil)
	authMessage := r.clientFirst + "," + r.serverFirst + "," + without
	sig := mac(storedKey, authMessage)
	if len(proof) != len(clientKey) {
		return "", false
	}
	for i := range proof {
		if proof[i]^sig[i] != clientKey[i] {
			return "", false // wrong password / proof
		}
	}
	serverKey := mac(salted, "Server Key")
	return "v=" + base64.StdEncoding.EncodeToString(mac(serverKey, authMessage)), true
}

// ---------------------------------------------------------------- initiator

var clientLists = [][]sasl.Mechanism{
	{sasl.Plain}, {sasl.ScramSha1}, {sasl.ScramSha256}, {sasl.ScramSha1, sasl.Plain}, {sasl.Plain, sasl.ScramSha1}, {sasl.ScramSha256, sasl.ScramSha1},
}
var advertised = [][]string{
	{"PLAIN"}, {"SCRAM-SHA-1"}, {"SCRAM-SHA-256", "SCRAM-SHA-1", "PLAIN"}, {"PLAIN", "SCRAM-SHA-1"}, {}, {"X-UNKNOWN"}, {"SCRAM-SHA-1-PLUS", "SCRAM-SHA-1"}, {"plain"}, {"SCRAM-SHA-1-PLUS"}, {"SCRAM-SHA-256-PLUS", "X-UNKNOWN"},
}

var peerOptions = []string{"challenge-correct", "success-correct", "success-empty", "success-eq", "challenge-garbage", "challenge-eq", "success-garbage", "failure", "challenge-bad-base64", "success-bad-base64", "unknown-sasl-element", "foreign-element", "text", "eof", "success-in-stream-namespace", "success-in-other-namespace", "challenge-in-other-namespace"}

func names(ms []sasl.Mechanism) []string {
	var n []string
	for _, m := range ms {
		n = append(n, m.Name)
	}
	return n
}

func initiatorBody(depth int) nd.Body {
	return func(c *nd.Ctx) nd.Result {
		mechs := clientLists[c.Choose(len(clientLists), "client-mechanisms")]
		adv := advertised[c.Choose(len(advertised), "advertised")]
		origin, location := jid.MustParse("me@example.com"), jid.MustParse("example.com")
		var script []string
		var selected string
		ref := &scramRef{password: "secret"}
		stage := 0 // 0 nothing, 1 client-first seen, 2 client-final seen and valid
		firstSent, finalSent, successAfterFinal, successAfterAuth := false, false, false, false
		pendingFinal := ""
		authSeen := false
		restarted := false
		hangs := false
		conn := sess.NewReactive(func(step int, w string) (string, error) {
			if step == 0 {
				var b strings.Builder
				b.WriteString(header(location.String(), origin.String()) + `<stream:features><mechanisms xmlns='` + saslNS + `'>`)
				for _, m := range adv {
					b.WriteString("<mechanism>" + m + "</mechanism>")
				}
				b.WriteString(`</mechanisms></stream:features>`)
				return b.String(), nil
			}
			if strings.Contains(w, "<stream:stream") {
				// the client restarted the stream (it believes authentication is done)
				restarted = true
				return header(location.String(), origin.String()) + `<stream:features/>`, nil
			}
			// parse what the client sent
			if i := strings.Index(w, "<auth"); i >= 0 {
				authSeen = true
				d := xml.NewDecoder(strings.NewReader(w[i:]))
				tok, _ := d.Token()
				if st, ok := tok.(xml.StartElement); ok {
					for _, a := range st.Attr {
						if a.Name.Local == "mechanism" {
							selected = a.Value
						}
					}
					var payload struct {
						Data string `xml:",chardata"`
					}
					d.DecodeElement(&payload, &st)
					if strings.HasPrefix(selected, "SCRAM-SHA-1") {
						ref.fn = sha1.New
					} else {
						ref.fn = sha256.New
					}
					if raw, err := base64.StdEncoding.DecodeString(payload.Data); err == nil && strings.HasPrefix(selected, "SCRAM") {
						if _, ok := ref.first(string(raw)); ok {
							stage = 1
						}
					}
				}
			} else if i := strings.Index(w, "<response"); i >= 0 {
				d := xml.NewDecoder(strings.NewReader(w[i:]))
				var payload struct {
					Data string `xml:",chardata"`
				}
				if d.Decode(&payload) == nil {
					if raw, err := base64.StdEncoding.DecodeString(payload.Data); err == nil && stage == 1 && firstSent {
						if fin, ok := ref.final(string(raw)); ok {
							stage = 2
							pendingFinal = fin
						}
					}
				}
			}
			if len(script) >= depth {
				return "", nil
			}
			opt := peerOptions[c.Choose(len(peerOptions), "peer-says")]
			script = append(script, opt)
			// mellium.im/sasl v0.3.2 (a dependency, not the library under test)
			// never returns from the SCRAM client's first Step when the last
			// attribute of the challenge is shorter than three bytes or has no
			// '=': an empty or attribute-less payload while the client waits for
			// the server-first message hangs the calling goroutine. Those payloads
			// cannot be explored in-process; they are skipped at that stage.
			if strings.HasPrefix(selected, "SCRAM") && !firstSent {
				switch opt {
				case "success-empty", "success-eq", "challenge-eq":
					hangs = true
					return "", nil
				}
			}
			correct := ""
			switch {
			case stage == 1 && !firstSent:
				correct = ref.serverFirst
			case stage == 2 && !finalSent:
				correct = pendingFinal
			}
			el := func(name, data string) string {
				return fmt.Sprintf(`<%s xmlns='%s'>%s</%s>`, name, saslNS, data, name)
			}
			markCorrect := func(isSuccess bool) {
				if correct == "" {
					return
				}
				if stage == 1 && !firstSent {
					firstSent = true
				} else if stage == 2 {
					finalSent = true
				}
			}
			noteSuccess := func() {
				if finalSent {
					successAfterFinal = true
				}
				if authSeen {
					successAfterAuth = true
				}
			}
			switch opt {
			case "challenge-correct":
				if correct == "" {
					return el("challenge", b64("r=bogus,s="+b64("x")+",i=1")), nil
				}
				markCorrect(false)
				return el("challenge", b64(correct)), nil
			case "success-correct":
				if correct == "" {
					noteSuccess()
					return el("success", b64("v=bogus")), nil
				}
				markCorrect(true)
				noteSuccess()
				return el("success", b64(correct)), nil
			case "success-empty":
				noteSuccess()
				return el("success", ""), nil
			case "success-eq":
				noteSuccess()
				return el("success", "="), nil
			case "challenge-garbage":
				return el("challenge", b64("x=garbage")), nil
			case "challenge-eq":
				return el("challenge", "="), nil
			case "success-garbage":
				noteSuccess()
				return el("success", b64("x=garbage")), nil
			case "failure":
				return el("failure", "<not-authorized/>"), nil
			case "challenge-bad-base64":
				return el("challenge", "!!!"), nil
			case "success-bad-base64":
				// (no noteSuccess: an undecodable payload completes nothing - "undecodable
				// or malformed payloads" never produce an authenticated session)
				return el("success", "!!!"), nil
			case "unknown-sasl-element":
				return el("foo", ""), nil
			case "foreign-element":
				return `<message xmlns='jabber:client'/>`, nil
			case "success-in-stream-namespace":
				// named like the SASL element but not in the SASL namespace: it
				// signals nothing (no noteSuccess)
				return `<success>` + b64(correct) + `</success>`, nil
			case "success-in-other-namespace":
				return `<success xmlns='urn:xmpp:sasl:2'>` + b64(correct) + `</success>`, nil
			case "challenge-in-other-namespace":
				return `<x:challenge xmlns:x='urn:example:other'>` + b64(correct) + `</x:challenge>`, nil
			case "text":
				return "junk", nil
			}
			return "", nil
		})
		var s *xmpp.Session
		var err error
		pn := nd.Catch(func() {
			s, err = xmpp.NewSession(context.Background(), location, origin, conn, xmpp.Secure, xmpp.NewNegotiator(func(*xmpp.Session, *xmpp.StreamConfig) xmpp.StreamConfig {
				return xmpp.StreamConfig{Features: []xmpp.StreamFeature{xmpp.SASL("", "secret", mechs...)}}
			}))
		})
		desc := fmt.Sprintf("initiator mechanisms=%v advertised=%v selected=%q peer=%v", names(mechs), adv, selected, script)
		c.Note("%s", desc)
		res := nd.Result{Outcome: "not-authenticated", NonTrivial: desc}
		if hangs {
			return nd.Result{Skip: true}
		}
		if pn != nil {
			res.Violation = &nd.Violation{Sig: "initiator:" + pn.Sig(), Msg: desc + ": panic " + pn.Value + "\n" + pn.Stack}
			return res
		}
		fail := func(sig, f string, a ...any) nd.Result {
			res.Violation = &nd.Violation{Sig: "initiator:" + sig, Msg: desc + fmt.Sprintf(" err=%v restarted=%v: ", err, restarted) + fmt.Sprintf(f, a...)}
			return res
		}
		// a mechanism that both sides did not offer is never used
		if selected != "" {
			inClient, inAdv := false, false
			for _, m := range mechs {
				if m.Name == selected {
					inClient = true
				}
			}
			for _, m := range adv {
				if m == selected {
					inAdv = true
				}
			}
			if !inClient || !inAdv {
				return fail("mechanism-not-offered-by-both", "the client used %q", selected)
			}
		}
		authn := s != nil && s.State()&xmpp.Authn != 0
		if !authn {
			if restarted {
				return fail("restart-without-authn", "the client restarted the stream although it is not authenticated")
			}
			return res
		}
		res.Outcome = "authenticated:" + selected
		switch {
		case selected == "PLAIN":
			if !successAfterAuth {
				return fail("authenticated-without-success", "PLAIN: the receiver never signalled success")
			}
		case strings.HasPrefix(selected, "SCRAM"):
			if !firstSent || !finalSent {
				return fail("authenticated-without-completed-mechanism", "SCRAM: server-first sent=%v, server-final sent=%v", firstSent, finalSent)
			}
			if !successAfterFinal {
				return fail("authenticated-without-success", "SCRAM completed but the receiver never signalled success (the final message came in a challenge)")
			}
		default:
			return fail("authenticated-without-mechanism", "no mechanism was selected")
		}
		return res
	}
}

// ---------------------------------------------------------------- receiver

var serverLists = [][]sasl.Mechanism{{sasl.Plain}, {sasl.Plain, sasl.ScramSha1}}
var clientSays = []string{
	"auth-plain-valid", "auth-plain-wrong-password", "auth-plain-malformed", "auth-plain-empty", "auth-plain-eq", "auth-plain-bad-base64", "auth-plain-valid-then-corrupt-base64", "auth-plain-valid-overpadded-base64", "auth-plain-four-parts",
	"auth-unoffered-scram256", "auth-unknown", "auth-lowercase-name-valid", "auth-no-mechanism", "auth-scram-first",
	"response-valid-plain", "response-empty", "abort", "failure", "unknown-sasl-element", "foreign-element", "text", "eof",
}

func receiverBody(depth int) nd.Body {
	return func(c *nd.Ctx) nd.Result {
		mechs := serverLists[c.Choose(len(serverLists), "server-mechanisms")]
		cbMode := c.Choose(4, "callback") // 0 checks the password, 1 accepts all, 2 rejects all, 3 no callback configured (nobody can accept anything)
		type cbCall struct {
			user, pass string
			verdict    bool
		}
		var calls []cbCall
		perm := func(n *sasl.Negotiator) bool {
			u, p, _ := n.Credentials()
			v := false
			switch cbMode {
			case 0:
				v = string(u) == "me" && string(p) == "secret"
			case 1:
				v = true
			}
			calls = append(calls, cbCall{string(u), string(p), v})
			return v
		}
		var script []string
		successSeen := false
		needHeader := true
		conn := sess.NewReactive(func(step int, w string) (string, error) {
			if strings.Contains(w, "<success") {
				successSeen = true
				needHeader = true
			}
			if needHeader {
				needHeader = false
				return header("me@example.com", "example.com"), nil
			}
			if len(script) >= depth || successSeen {
				return "", nil
			}
			opt := clientSays[c.Choose(len(clientSays), "client-says")]
			script = append(script, opt)
			auth := func(mech, payload string) string {
				m := ""
				if mech != "" {
					m = " mechanism='" + mech + "'"
				}
				return fmt.Sprintf(`<auth xmlns='%s'%s>%s</auth>`, saslNS, m, payload)
			}
			switch opt {
			case "auth-plain-valid":
				return auth("PLAIN", b64("\x00me\x00secret")), nil
			case "auth-plain-wrong-password":
				return auth("PLAIN", b64("\x00me\x00wrong")), nil
			case "auth-plain-malformed":
				return auth("PLAIN", b64("test")), nil
			case "auth-plain-empty":
				return auth("PLAIN", ""), nil
			case "auth-plain-eq":
				return auth("PLAIN", "="), nil
			case "auth-plain-bad-base64":
				return auth("PLAIN", "!!!"), nil
			case "auth-plain-valid-then-corrupt-base64":
				// undecodable as a whole, although its beginning decodes to valid credentials
				return auth("PLAIN", b64("\x00me\x00secret")+"!"), nil
			case "auth-plain-valid-overpadded-base64":
				return auth("PLAIN", strings.TrimRight(b64("\x00me\x00secret"), "=")+"===="), nil
			case "auth-plain-four-parts":
				return auth("PLAIN", b64("\x00me\x00secret\x00x")), nil
			case "auth-unoffered-scram256":
				return auth("SCRAM-SHA-256", b64("n,,n=me,r=abc")), nil
			case "auth-lowercase-name-valid":
				// mechanism names are case-sensitive tokens: "plain" was not offered
				return auth("plain", b64("\x00me\x00secret")), nil
			case "auth-unknown":
				return auth("X-UNKNOWN", b64("\x00me\x00secret")), nil
			case "auth-no-mechanism":
				return auth("", b64("\x00me\x00secret")), nil
			case "auth-scram-first":
				return auth("SCRAM-SHA-1", b64("n,,n=me,r=abcdef")), nil
			case "response-valid-plain":
				return fmt.Sprintf(`<response xmlns='%s'>%s</response>`, saslNS, b64("\x00me\x00secret")), nil
			case "response-empty":
				return fmt.Sprintf(`<response xmlns='%s'/>`, saslNS), nil
			case "abort":
				return fmt.Sprintf(`<abort xmlns='%s'/>`, saslNS), nil
			case "failure":
				return fmt.Sprintf(`<failure xmlns='%s'><aborted/></failure>`, saslNS), nil
			case "unknown-sasl-element":
				return fmt.Sprintf(`<foo xmlns='%s'/>`, saslNS), nil
			case "foreign-element":
				return `<message xmlns='jabber:client'/>`, nil
			case "text":
				return "junk", nil
			}
			return "", nil
		})
		var s *xmpp.Session
		var err error
		pn := nd.Catch(func() {
			s, err = xmpp.ReceiveSession(context.Background(), conn, xmpp.Secure, xmpp.NewNegotiator(func(*xmpp.Session, *xmpp.StreamConfig) xmpp.StreamConfig {
				if cbMode == 3 {
					return xmpp.StreamConfig{Features: []xmpp.StreamFeature{xmpp.SASLServer(nil, mechs...)}}
				}
				return xmpp.StreamConfig{Features: []xmpp.StreamFeature{xmpp.SASLServer(perm, mechs...)}}
			}))
		})
		desc := fmt.Sprintf("receiver mechanisms=%v callback-mode=%d client=%v callback-calls=%v", names(mechs), cbMode, script, calls)
		c.Note("%s", desc)
		res := nd.Result{Outcome: "not-authenticated", NonTrivial: desc}
		if pn != nil {
			// a panic inside the dependency for unimplemented server-side paths is
			// outside the library under test; everything else is a violation
			if pn.Frame == "" || strings.Contains(pn.Value, "not implemented") {
				res.Outcome = "dependency-panic"
				return res
			}
			res.Violation = &nd.Violation{Sig: "receiver:" + pn.Sig(), Msg: desc + ": panic " + pn.Value + "\n" + pn.Stack}
			return res
		}
		fail := func(sig, f string, a ...any) nd.Result {
			res.Violation = &nd.Violation{Sig: "receiver:" + sig, Msg: desc + fmt.Sprintf(" err=%v success-sent=%v: ", err, successSeen) + fmt.Sprintf(f, a...)}
			return res
		}
		authn := s != nil && s.State()&xmpp.Authn != 0
		if !authn {
			if successSeen {
				return fail("success-without-authn", "the receiver sent <success/> but the session is not authenticated")
			}
			if strings.Contains(conn.Written(), "<failure") && strings.Contains(conn.Written(), "<success") {
				return fail("failure-and-success", "both sent")
			}
			return res
		}
		res.Outcome = "authenticated"
		if len(calls) == 0 {
			return fail("authenticated-without-permission-callback", "the permission callback was never asked")
		}
		if !calls[len(calls)-1].verdict {
			return fail("authenticated-although-callback-rejected", "the permission callback rejected the credentials %v", calls[len(calls)-1])
		}
		if strings.Contains(conn.Written(), "<failure") {
			return fail("failure-and-success", "a <failure/> was sent and the session is authenticated")
		}
		// the mechanism completed without error for those credentials: for PLAIN
		// that is an auth (or a response after an auth of an offered mechanism) with a
		// well-formed three-part payload
		last := script[len(script)-1]
		if last != "auth-plain-valid" && last != "auth-plain-wrong-password" && last != "response-valid-plain" {
			return fail("authenticated-by-unexpected-message", "the last client message was %s", last)
		}
		if last == "response-valid-plain" {
			// "responses before a mechanism was chosen" complete nothing: a
			// response counts only after an <auth/> that named an offered mechanism
			chosen := false
			for _, m := range script[:len(script)-1] {
				if strings.HasPrefix(m, "auth-plain") || (m == "auth-scram-first" && len(mechs) > 1) {
					chosen = true
				}
			}
			if !chosen {
				return fail("authenticated-by-response-without-auth", "no <auth/> selected a mechanism before the response that was accepted")
			}
		}
		return res
	}
}

func init() {
	drv.Register(&drv.Prop{
		ID:    "C03",
		Level: "model_checking",
		Rule: "initiator: 6 client mechanism lists x 10 advertised lists x every peer script of up to D steps over 17 answers (challenge/success carrying the correct next SCRAM message computed by a reference RFC 5802 server from what the client actually sent, empty, '=', garbage, invalid base64; failure; unknown SASL element; foreign element; text; EOF), the client then being allowed to restart the stream; receiver: 2 mechanism lists x 4 permission-callback behaviours (checks the password, accepts all, rejects all, none configured) x every client script of up to D steps over 21 messages (auth with valid/wrong/malformed/empty/'='/bad-base64 (also with a validly decoding prefix)/four-part payloads, unoffered/unknown/missing mechanism, SCRAM first message, response before/after auth, abort, failure, junk). " +
			"Oracle (only-if): Authn set => mechanism offered by both sides, mechanism completed per the reference, success signalled by the receiver (initiator) / permission callback asked and accepted (receiver). Non-trivial = every distinct script.",
		Assumptions: []string{"only-if direction: a success the client rejects is not a violation", "server-side SCRAM cannot complete in this code base (no salted credential source is wired) and -PLUS needs a TLS connection state: receiver configurations are PLAIN (+ SCRAM-SHA-1 offered but unable to finish); a 'not implemented' panic inside mellium.im/sasl is recorded as an outcome, not explored", "PBKDF2 runs at the library's iteration count 4096",
			"mellium.im/sasl v0.3.2 hangs (infinite loop in the SCRAM client's parameter parser) on an empty or attribute-less payload received while waiting for the server-first message; those executions are skipped and counted under skipped_out_of_domain"},
		Parts: func(tier string) []drv.Part {
			d, b := 4, 4*time.Minute
			if tier == "thorough" {
				d, b = 6, 30*time.Minute
			}
			return []drv.Part{
				{Name: "initiator", Desc: fmt.Sprintf("peer scripts of <= %d steps", d), Body: initiatorBody(d), CutDepth: 3, Budget: b, CrashIsolate: true},
				{Name: "receiver", Desc: fmt.Sprintf("client scripts of <= %d steps", d), Body: receiverBody(d), CutDepth: 3, Budget: b, CrashIsolate: true},
				{Name: "receiver-scram", Desc: "the receiver offers a SCRAM mechanism; the peer is a real SCRAM client (2 users x 3 passwords, the empty one included) run to the end of the mechanism; 4 permission-callback behaviours", Body: receiverScramBody, CutDepth: 2, Workers: 4, Budget: b, CrashIsolate: true},
			}
		},
	})
}
