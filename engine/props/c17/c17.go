// Package c17: the styling decoder is lossless, chunk-independent and well-bracketed.
package c17

import (
	"bufio"
	"bytes"
	"fmt"
	"io"
	"strings"
	"time"

	"mellium.im/xmpp/styling"

	"verif/drv"
	"verif/nd"
)

type pieceReader struct {
	s       string
	cuts    uint64 // bit i set: cut after byte i
	pos     int
	eofLast bool // deliver io.EOF together with the last piece (a legal io.Reader behaviour)
}

func (r *pieceReader) Read(p []byte) (int, error) {
	if r.pos >= len(r.s) {
		return 0, io.EOF
	}
	end := r.pos + 1
	for end < len(r.s) && (end-1 >= 64 || r.cuts&(1<<uint(end-1)) == 0) {
		end++
	}
	n := copy(p, r.s[r.pos:end])
	r.pos += n
	if r.eofLast && r.pos >= len(r.s) {
		return n, io.EOF
	}
	return n, nil
}

type tok struct {
	data, info string
	infoNil    bool
	style      styling.Style
	quote      uint
}

func (t tok) String() string {
	return fmt.Sprintf("{%q info=%q style=%s quote=%d}", t.data, t.info, styleString(t.style), t.quote)
}

var styleNames = []string{"BlockPre", "BlockQuote", "SpanEmph", "SpanStrong", "SpanStrike", "SpanPre", "BlockPreStart", "BlockPreEnd", "BlockQuoteStart", "BlockQuoteEnd",
	"SpanEmphStart", "SpanEmphEnd", "SpanStrongStart", "SpanStrongEnd", "SpanStrikeStart", "SpanStrikeEnd", "SpanPreStart", "SpanPreEnd"}

func styleString(s styling.Style) string {
	if s == 0 {
		return "0"
	}
	var parts []string
	for i, n := range styleNames {
		if s&(1<<uint(i)) != 0 {
			parts = append(parts, n)
		}
	}
	return strings.Join(parts, "|")
}

// decode runs the decoder over the reader and records every token.
func decode(r io.Reader, limit int) (toks []tok, err error, v *nd.Violation) {
	p := nd.Catch(func() {
		d := styling.NewDecoder(r)
		for d.Next() {
			t := d.Token()
			toks = append(toks, tok{data: string(t.Data), info: string(t.Info), infoNil: t.Info == nil, style: d.Style(), quote: d.Quote()})
			if len(toks) > limit {
				v = &nd.Violation{Sig: "decoder:does-not-terminate", Msg: fmt.Sprintf("more than %d tokens", limit)}
				return
			}
		}
		err = d.Err()
	})
	if p != nil {
		return toks, nil, &nd.Violation{Sig: "decoder:" + p.Sig(), Msg: "panic: " + p.Value}
	}
	return toks, err, v
}

func feature(s string) string {
	switch {
	case strings.Contains(s, ">"):
		return "quote"
	case strings.Contains(s, "```"):
		return "fence"
	case strings.ContainsAny(s, "*_~`"):
		return "span"
	}
	return "plain"
}

type pair struct{ start, end, style styling.Style }

var pairs = []pair{
	{styling.BlockPreStart, styling.BlockPreEnd, styling.BlockPre},
	{styling.BlockQuoteStart, styling.BlockQuoteEnd, styling.BlockQuote},
	{styling.SpanEmphStart, styling.SpanEmphEnd, styling.SpanEmph},
	{styling.SpanStrongStart, styling.SpanStrongEnd, styling.SpanStrong},
	{styling.SpanStrikeStart, styling.SpanStrikeEnd, styling.SpanStrike},
	{styling.SpanPreStart, styling.SpanPreEnd, styling.SpanPre},
}

// bookkeeping checks the style laws on one token sequence.
func bookkeeping(in string, toks []tok) *nd.Violation {
	var stack []styling.Style
	ft := feature(in)
	for i, t := range toks {
		for _, p := range pairs {
			if t.style&(p.start|p.end) != 0 && t.style&p.style == 0 {
				return &nd.Violation{Sig: "style:directive-without-style-bit", Msg: fmt.Sprintf("input %q token %d %v", in, i, t)}
			}
		}
		if t.style&styling.BlockPre != 0 && t.style&styling.SpanDirective != 0 {
			return &nd.Violation{Sig: "style:span-directive-inside-pre-block", Msg: fmt.Sprintf("input %q token %d %v", in, i, t)}
		}
		inPre := len(stack) > 0 && stack[len(stack)-1] == styling.SpanPre
		for _, p := range pairs[2:] {
			if t.style&p.start != 0 {
				if inPre {
					return &nd.Violation{Sig: "style:directive-starts-inside-pre-span", Msg: fmt.Sprintf("input %q token %d %v", in, i, t)}
				}
				stack = append(stack, p.style)
			}
			if t.style&p.end != 0 {
				if len(stack) == 0 || stack[len(stack)-1] != p.style {
					return &nd.Violation{Sig: "style:span-end-not-matching-innermost-start:" + ft, Msg: fmt.Sprintf("input %q token %d %v open=%v", in, i, t, stack)}
				}
				stack = stack[:len(stack)-1]
			}
		}
		if strings.HasSuffix(t.data, "\n") && len(stack) > 0 {
			return &nd.Violation{Sig: "style:span-open-at-end-of-line:" + ft, Msg: fmt.Sprintf("input %q token %d %v open=%v", in, i, t, stack)}
		}
	}
	if len(stack) > 0 {
		return &nd.Violation{Sig: "style:span-open-at-end-of-input:" + ft, Msg: fmt.Sprintf("input %q open=%v tokens %v", in, stack, toks)}
	}
	return nil
}

func sameToks(a, b []tok) bool {
	if len(a) != len(b) {
		return false
	}
	for i := range a {
		if a[i].data != b[i].data || a[i].info != b[i].info || a[i].style != b[i].style || a[i].quote != b[i].quote {
			return false
		}
	}
	return true
}

func cutString(s string, cuts uint64) string {
	var b strings.Builder
	for i := 0; i < len(s); i++ {
		q := fmt.Sprintf("%q", s[i:i+1])
		b.WriteString(q[1 : len(q)-1])
		if i < len(s)-1 && cuts&(1<<uint(i)) != 0 {
			b.WriteByte('|')
		}
	}
	return b.String()
}

func checkInput(s string, allChunkings bool) *nd.Violation {
	limit := 6*len(s) + 16
	one, err, v := decode(&pieceReader{s: s}, limit)
	if v != nil {
		v.Msg = fmt.Sprintf("input %q (one read): %s", s, v.Msg)
		return v
	}
	if err != io.EOF {
		return &nd.Violation{Sig: "decoder:unexpected-error", Msg: fmt.Sprintf("input %q: Err()=%v", s, err)}
	}
	var cat strings.Builder
	for _, t := range one {
		cat.WriteString(t.data)
	}
	if cat.String() != s {
		return &nd.Violation{Sig: "lossless:concatenation-differs:" + feature(s), Msg: fmt.Sprintf("input %q tokens %v", s, one)}
	}
	if v := bookkeeping(s, one); v != nil {
		return v
	}
	// bare split function
	{
		sc := bufio.NewScanner(&pieceReader{s: s})
		var cat2 strings.Builder
		var n int
		if p := nd.Catch(func() {
			sc.Split(styling.Scan())
			for sc.Scan() {
				cat2.Write(sc.Bytes())
				n++
			}
		}); p != nil {
			return &nd.Violation{Sig: "scan:" + p.Sig(), Msg: fmt.Sprintf("input %q: Scan split panics: %s", s, p.Value)}
		}
		if cat2.String() != s || sc.Err() != nil {
			return &nd.Violation{Sig: "scan:concatenation-differs", Msg: fmt.Sprintf("input %q: Scan tokens concatenate to %q err=%v", s, cat2.String(), sc.Err())}
		}
	}
	nb := len(s)
	if nb >= 1 {
		got, err, v := decode(&pieceReader{s: s, eofLast: true}, limit)
		if v != nil {
			v.Msg = fmt.Sprintf("input %q (one read returning the data together with io.EOF): %s", s, v.Msg)
			return v
		}
		if err != io.EOF || !sameToks(one, got) {
			return &nd.Violation{Sig: "chunking:eof-with-data-differs:" + feature(s), Msg: fmt.Sprintf("input %q: a read followed by EOF gives %v; the same read returning io.EOF together with the data gives %v (err %v)", s, one, got, err)}
		}
	}
	if nb < 2 {
		return nil
	}
	if nb > 20 {
		nb = 20
	}
	var chunkings []uint64
	if allChunkings {
		for c := uint64(1); c < 1<<uint(nb-1); c++ {
			chunkings = append(chunkings, c)
		}
	} else { // all single cuts, and byte-at-a-time
		for i := 0; i < nb-1; i++ {
			chunkings = append(chunkings, 1<<uint(i))
		}
		chunkings = append(chunkings, 1<<uint(nb-1)-1)
	}
	for _, c := range chunkings {
		got, err, v := decode(&pieceReader{s: s, cuts: c}, limit)
		if v != nil {
			v.Msg = fmt.Sprintf("input %q read as %s: %s", s, cutString(s, c), v.Msg)
			return v
		}
		if err != io.EOF {
			return &nd.Violation{Sig: "decoder:unexpected-error", Msg: fmt.Sprintf("input %q read as %s: Err()=%v", s, cutString(s, c), err)}
		}
		if !sameToks(one, got) {
			return &nd.Violation{Sig: "chunking:token-sequence-differs:" + feature(s), Msg: fmt.Sprintf("input %q: one read gives %v, read as %s gives %v", s, one, cutString(s, c), got)}
		}
		got, err, v = decode(&pieceReader{s: s, cuts: c, eofLast: true}, limit)
		if v != nil {
			v.Msg = fmt.Sprintf("input %q read as %s (EOF with the last piece): %s", s, cutString(s, c), v.Msg)
			return v
		}
		if err != io.EOF || !sameToks(one, got) {
			return &nd.Violation{Sig: "chunking:eof-with-data-differs:" + feature(s), Msg: fmt.Sprintf("input %q: one read gives %v, read as %s with io.EOF on the last piece gives %v (err %v)", s, one, cutString(s, c), got, err)}
		}
	}
	return nil
}

var alphabet = []string{"a", "*", "_", "`", "~", ">", " ", "\n", "\t", "\u00a0", "\xff", "\u20ac", "\xe2\x82", "<"} // U+00A0: multi-byte white space; U+20AC and its first two bytes: a complete and a truncated multi-byte character

func stringsBody(maxLen int) nd.Body {
	return func(c *nd.Ctx) nd.Result {
		n := c.Choose(maxLen+1, "len")
		var sb strings.Builder
		for i := 0; i < n; i++ {
			sb.WriteString(alphabet[c.Choose(len(alphabet), "sym")])
		}
		s := sb.String()
		c.Note("input %q, every chunking", s)
		res := nd.Result{Outcome: feature(s)}
		if res.Outcome != "plain" {
			res.NonTrivial = s
		}
		res.Violation = checkInput(s, true)
		return res
	}
}

// structured: lines assembled from meaningful fragments, longer than the
// symbol enumeration reaches (fences with info strings, nested quotes, spans).
var frags = []string{"```", "```go\n", "```\n", "> ", ">", ">> ", "*a*", "*a b*", "_a_", "~a~", "`a*`", "*a _b_*", "*a _b* c_", "a", " ", "\n", "**", "* a*", "`", "*"}

func fragsBody(maxFrags int) nd.Body {
	return func(c *nd.Ctx) nd.Result {
		n := 1 + c.Choose(maxFrags, "nfrags")
		var sb strings.Builder
		for i := 0; i < n; i++ {
			sb.WriteString(frags[c.Choose(len(frags), "frag")])
		}
		s := sb.String()
		c.Note("input %q, single cuts and bytewise", s)
		res := nd.Result{Outcome: feature(s), NonTrivial: s}
		res.Violation = checkInput(s, len(s) <= 12)
		return res
	}
}

// blocks: whole block-level constructs one after the other, so that whatever a
// decoder keeps from one block (offsets, nesting, fence state) meets the next
// block under every single cut and bytewise delivery.
var blocks = []string{"```\n\nxyz\n```\n", "```\nx\n```\n", "```go\ny\n```", "> ```\n> q\n> ```\n", "> a\n", ">> b\n> c\n", "a\n", "*a*\n", "\n", "```\n", "`` `\n"}

func blocksBody(maxBlocks int) nd.Body {
	return func(c *nd.Ctx) nd.Result {
		n := 2 + c.Choose(maxBlocks-1, "nblocks")
		var sb strings.Builder
		for i := 0; i < n; i++ {
			sb.WriteString(blocks[c.Choose(len(blocks), "block")])
		}
		s := sb.String()
		c.Note("input %q, single cuts and bytewise", s)
		res := nd.Result{Outcome: feature(s), NonTrivial: s}
		res.Violation = checkInput(s, false)
		return res
	}
}

var longLens = []int{4095, 4096, 4097, 32767, 32768, 32769, 40000, 65535, 65536, 65537, 131073}
var longPats = []string{"a", "*a ", "> ", "`", "a\xff", ">", "PRE:a", "PRE:a`"} // PRE: the long line stands inside a preformatted block

type sizeReader struct {
	s    string
	size int
}

func (r *sizeReader) Read(p []byte) (int, error) {
	if len(r.s) == 0 {
		return 0, io.EOF
	}
	n := r.size
	if n > len(r.s) {
		n = len(r.s)
	}
	n = copy(p, r.s[:n])
	r.s = r.s[n:]
	return n, nil
}

func longBody(c *nd.Ctx) nd.Result {
	l := longLens[c.Choose(len(longLens), "len")]
	pat := longPats[c.Choose(len(longPats), "pattern")]
	nl := c.Choose(3, "newline") // 0 none, 1 at end, 2 in the middle
	size := []int{1 << 30, 1000, 4096, 7, 1}[c.Choose(5, "readsize")]
	if strings.HasPrefix(pat, ">") && l > 4097 {
		// one nested decoder per quote level: quadratic time, tens of thousands
		// of levels take minutes; termination for deeper nesting is not explored
		return nd.Result{Skip: true}
	}
	pre := strings.HasPrefix(pat, "PRE:")
	unit := strings.TrimPrefix(pat, "PRE:")
	s := strings.Repeat(unit, l/len(unit)+1)[:l]
	switch nl {
	case 1:
		s += "\n"
	case 2:
		s = s[:l/2] + "\n" + s[l/2:]
	}
	if pre {
		s = "```\n" + s + "```\nafter\n"
	}
	if (size == 1 && l > 40000) || (size == 7 && l > 70000) {
		return nd.Result{Skip: true} // tiny reads of the longest inputs only cost time
	}
	c.Note("%d bytes of %q newline=%d read size %d", len(s), pat, nl, size)
	res := nd.Result{Outcome: "long", NonTrivial: fmt.Sprintf("%d/%s/%d/%d", l, pat, nl, size)}
	toks, err, v := decode(&sizeReader{s: s, size: size}, 6*len(s)+16)
	if v != nil {
		res.Violation = v
		return res
	}
	var cat bytes.Buffer
	for _, t := range toks {
		cat.WriteString(t.data)
	}
	// the same tokens however the input is read
	if size != 1<<30 {
		ref, rerr, rv := decode(&sizeReader{s: s, size: 1 << 30}, 6*len(s)+16)
		if rv == nil && (fmt.Sprint(rerr) != fmt.Sprint(err) || !sameToks(ref, toks)) {
			res.Violation = &nd.Violation{Sig: "chunking:long-input-token-sequence-differs", Msg: fmt.Sprintf("%d bytes of %q newline=%d: one read gives %d tokens (%v), reads of %d bytes give %d tokens (%v)", len(s), pat, nl, len(ref), rerr, size, len(toks), err)}
			return res
		}
	}
	// ... and whatever kind of reader delivers it: the standard in-memory
	// readers (which know their length) against the plain one
	if size == 1<<30 {
		for name, r := range map[string]io.Reader{"strings.Reader": strings.NewReader(s), "bytes.Reader": bytes.NewReader([]byte(s)), "bytes.Buffer": bytes.NewBufferString(s)} {
			mt, merr, mv := decode(r, 6*len(s)+16)
			if mv == nil && (fmt.Sprint(merr) != fmt.Sprint(err) || !sameToks(mt, toks)) {
				res.Violation = &nd.Violation{Sig: "chunking:long-input-depends-on-the-kind-of-reader", Msg: fmt.Sprintf("%d bytes of %q newline=%d: a plain reader gives %d tokens (%v), a %s gives %d tokens (%v)", len(s), pat, nl, len(toks), err, name, len(mt), merr)}
				return res
			}
		}
	}
	switch {
	case err == io.EOF:
		if cat.String() != s {
			res.Violation = &nd.Violation{Sig: "lossless:long-input-differs", Msg: fmt.Sprintf("%d bytes of %q newline=%d: tokens concatenate to %d bytes", len(s), pat, nl, cat.Len())}
		}
	default:
		res.Outcome = "long-error:" + fmt.Sprint(err)
		if !strings.HasPrefix(s, cat.String()) {
			res.Violation = &nd.Violation{Sig: "lossless:long-input-not-prefix", Msg: fmt.Sprintf("%d bytes of %q: after %v tokens are not a prefix of the input", len(s), pat, err)}
		}
	}
	return res
}

func init() {
	drv.Register(&drv.Prop{
		ID:    "C17",
		Level: "exploration",
		Rule: "every string over the 14-symbol alphabet {a * _ ` ~ > space \\n \\t U+00A0 \\xff U+20AC, the truncated sequence E2 82, and < (punctuation that means nothing to the grammar)} up to the tier's length, decoded under EVERY byte-level chunking (2^(n-1) cut sets) through a reader that returns exactly the chosen pieces, plus fragment-assembled inputs and very long lines; " +
			"oracle: termination, no panic, concatenated token data == input, token/style/quote/info sequence identical to the single-read decoding, style bookkeeping laws. Non-trivial = distinct input containing at least one directive character.",
		Assumptions: []string{"bufio.Scanner behaves as documented", "bytes outside the alphabet are not covered"},
		Parts: func(tier string) []drv.Part {
			l, nf, budget := 5, 3, 100*time.Second
			if tier == "thorough" {
				l, nf, budget = 7, 4, 30*time.Minute
			}
			return []drv.Part{
				{Name: "strings", Desc: fmt.Sprintf("all strings of <= %d symbols x all chunkings", l), Body: stringsBody(l), CutDepth: 3, Budget: budget},
				{Name: "fragments", Desc: fmt.Sprintf("all sequences of <= %d fragments", nf), Body: fragsBody(nf), CutDepth: 2, Budget: budget},
				{Name: "blocks", Desc: fmt.Sprintf("all sequences of 2..%d whole blocks (preformatted with an empty first line, with an info string, unterminated, inside a quote; quotes; plain lines)", nf+1), Body: blocksBody(nf+1), CutDepth: 2, Budget: budget},
				{Name: "long", Desc: "long lines around bufio.Scanner limits", Body: longBody, CutDepth: 2, Budget: budget},
			}
		},
	})
}
