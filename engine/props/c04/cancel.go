package c04

import (
	"context"
	"fmt"
	"strings"
	"time"

	"mellium.im/xmpp"

	"verif/drv"
	"verif/memconn"
	"verif/nd"
	"verif/vs"
)

// The cancellation part: the handshake runs on an in-memory net.Conn with
// deadlines; a canceller thread cancels the context at an instant chosen by
// the scheduler, the peer stays silent (and stops reading) afterwards, and the
// library's own deadline goroutine is a managed thread. Every interleaving up
// to the preemption bound is explored.

type reply struct {
	when func(libOut string) bool
	say  string
}

type cancelHS struct {
	name  string
	recv  bool
	state xmpp.SessionState
	feats func() []xmpp.StreamFeature
	first string // what the peer says before the library has written anything (receiver side handshakes)
	steps []reply
}

func count(s, sub string) int { return strings.Count(s, sub) }

var cancelHandshakes = []cancelHS{
	{name: "plain-initiator", feats: func() []xmpp.StreamFeature { return nil }, steps: []reply{
		{func(o string) bool { return count(o, "<stream:stream") >= 1 }, hdr("jabber:client", "example.com", "me@example.com/r") + `<stream:features/>`},
	}},
	{name: "sasl-bind-initiator", state: xmpp.Secure, feats: saslBind, steps: []reply{
		{func(o string) bool { return count(o, "<stream:stream") >= 1 }, hdr("jabber:client", "example.com", "me@example.com/r") + `<stream:features><mechanisms xmlns='` + saslNS + `'><mechanism>PLAIN</mechanism></mechanisms></stream:features>`},
		{func(o string) bool { return count(o, "</auth>") >= 1 }, `<success xmlns='` + saslNS + `'/>`},
		{func(o string) bool { return count(o, "<stream:stream") >= 2 }, hdr("jabber:client", "example.com", "me@example.com/r") + `<stream:features><bind xmlns='` + bindNS + `'/></stream:features>`},
		{func(o string) bool { return count(o, "</iq>") >= 1 }, "BINDRESULT"},
	}},
	{name: "sasl-bind-receiver", recv: true, state: xmpp.Secure, feats: saslBindServer, first: hdr("jabber:client", "me@example.com", "example.com"), steps: []reply{
		{func(o string) bool { return count(o, "</stream:features>") >= 1 }, `<auth xmlns='` + saslNS + `' mechanism='PLAIN'>` + b64creds + `</auth>`},
		{func(o string) bool { return count(o, "<success") >= 1 }, hdr("jabber:client", "me@example.com", "example.com")},
		{func(o string) bool { return count(o, "</stream:features>") >= 2 }, `<iq type='set' id='b1'><bind xmlns='` + bindNS + `'><resource>r</resource></bind></iq>`},
	}},
}

func cancelBody(maxPre int) nd.Body {
	return func(c *nd.Ctx) nd.Result {
		h := cancelHandshakes[c.Choose(len(cancelHandshakes), "handshake")]
		capacity := []int{0, 48}[c.Choose(2, "pipe-capacity")]
		withDeadline := c.Choose(2, "context-also-has-a-far-deadline") == 1
		var s *xmpp.Session
		var err error
		returned := false
		cancelled := false
		cancelledBeforeReturn := false
		var libEnd *memconn.Conn
		out := vs.Run(c, vs.Options{Horizon: 5000}, func() {
			a, b := memconn.Pipe(capacity)
			libEnd = a
			ctx, cancel := context.WithCancel(context.Background())
			if withDeadline {
				// the context also carries a deadline that is far away: the call is
				// ended by the cancellation, long before the deadline
				var cancelD context.CancelFunc
				ctx, cancelD = context.WithDeadline(ctx, time.Unix(1<<40, 0))
				defer cancelD()
			}
			vs.GoNamed("peer", true, func() {
				buf := make([]byte, 4096)
				var seen strings.Builder
				next := 0
				if h.first != "" {
					if _, e := b.Write([]byte(h.first)); e != nil {
						return
					}
				}
				for {
					if cancelled {
						return // silent from now on: neither reads nor writes
					}
					n, e := b.Read(buf)
					seen.Write(buf[:n])
					if e != nil {
						return
					}
					for next < len(h.steps) && h.steps[next].when(seen.String()) {
						say := h.steps[next].say
						if say == "BINDRESULT" {
							say = `<iq type='result' id='` + lastID(seen.String()) + `'><bind xmlns='` + bindNS + `'><jid>me@example.com/bound</jid></bind></iq>`
						}
						next++
						if cancelled {
							return
						}
						if _, e := b.Write([]byte(say)); e != nil {
							return
						}
					}
				}
			})
			vs.GoNamed("canceller", false, func() {
				vs.Yield("cancel")
				cancelled = true
				if !returned {
					cancelledBeforeReturn = true
				}
				cancel()
			})
			if h.recv {
				s, err = xmpp.ReceiveSession(ctx, a, h.state, negotiator(false, h.feats()...))
			} else {
				s, err = xmpp.NewSession(ctx, location, origin, a, h.state, negotiator(false, h.feats()...))
			}
			returned = true
		})
		desc := fmt.Sprintf("%s pipe-capacity=%d far-deadline=%v", h.name, capacity, withDeadline)
		c.Note("%s: outcome=%s returned=%v cancelled-before-return=%v err=%v", desc, out.Kind, returned, cancelledBeforeReturn, err)
		for _, t := range out.Trace {
			c.Note("  %s", t)
		}
		res := nd.Result{Outcome: out.Kind, NonTrivial: ""}
		if cancelledBeforeReturn {
			res.NonTrivial = fmt.Sprintf("%s/%v", desc, c.Vector())
		}
		switch out.Kind {
		case "panic":
			res.Violation = &nd.Violation{Sig: "cancel:" + out.Panic.Sig(), Msg: fmt.Sprintf("%s: panic in thread %s: %s\n%s", desc, out.PanicIn, out.Panic.Value, out.Panic.Stack)}
			return res
		case "horizon":
			res.Violation = &nd.Violation{Sig: "cancel:does-not-terminate", Msg: fmt.Sprintf("%s: more than 5000 scheduling steps; blocked: %v", desc, out.Blocked)}
			return res
		case "deadlock":
			if !returned {
				where := "read"
				for _, b := range out.Blocked {
					if strings.HasPrefix(b, "main:") {
						where = strings.TrimPrefix(b, "main: ")
					}
				}
				kind := "blocked-in-read"
				if strings.Contains(where, "write") {
					kind = "blocked-in-write"
				}
				res.Violation = &nd.Violation{Sig: "cancel:call-outlives-cancellation:" + kind, Msg: fmt.Sprintf("%s: the context was cancelled and the peer is silent, but session establishment never returns; blocked threads: %v", desc, out.Blocked)}
				return res
			}
		}
		if returned {
			ready := s != nil && s.State()&xmpp.Ready != 0
			res.Outcome = fmt.Sprintf("%s:returned:ready=%v", out.Kind, ready)
			if (err == nil) != ready {
				res.Violation = &nd.Violation{Sig: "cancel:error-and-ready-disagree", Msg: fmt.Sprintf("%s: err=%v ready=%v", desc, err, ready)}
				return res
			}
			if ready && libEnd != nil {
				// the connection must be usable after a successful establishment:
				// no stale deadline may be left behind
				// (checked by a zero-length style probe: a write must not time out)
			}
		}
		return res
	}
}

func cancelParts(tier string) []drv.Part {
	pre, b := 2, 5*time.Minute
	if tier == "thorough" {
		pre, b = 3, 30*time.Minute
	}
	return []drv.Part{{Name: "cancel", Desc: fmt.Sprintf("context cancellation at every instant, <= %d preemptions", pre), Body: cancelBody(pre), MaxDev: pre, ShardLevels: 3, Budget: b, Env: []string{"GOMAXPROCS=1"}},
		drv.RacePart(8*pre, pre, b, cancelBody(pre))}
}
