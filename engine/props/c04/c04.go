// Package c04: session establishment fails closed under faults.
package c04

import (
	"context"
	"encoding/xml"
	"fmt"
	"io"
	"mellium.im/xmpp/stream"
	"regexp"
	"strings"
	"sync"
	"time"

	"mellium.im/sasl"
	"mellium.im/xmlstream"
	"mellium.im/xmpp"
	"mellium.im/xmpp/component"
	"mellium.im/xmpp/jid"
	"mellium.im/xmpp/websocket"

	"verif/drv"
	"verif/nd"
	"verif/props/c02"
	"verif/sess"
)

const (
	streamNS = "http://etherx.jabber.org/streams"
	saslNS   = "urn:ietf:params:xml:ns:xmpp-sasl"
	bindNS   = "urn:ietf:params:xml:ns:xmpp-bind"
)

// fault describes one injected fault.
type fault struct {
	kind string // none | cut | read-error | write-error | short-write
	at   int
}

// faulty wraps the scripted connection.
type faulty struct {
	r         *sess.Reactive
	cancel    context.CancelFunc // kind "cancel": called right before the at-th I/O operation is served
	ops       int
	f         fault
	delivered int
	reads     int
	writes    int
	hit       bool
}

func (c *faulty) op() {
	if c.f.kind == "cancel" && c.ops == c.f.at && c.cancel != nil {
		c.hit = true
		c.cancel()
	}
	c.ops++
}

func (c *faulty) Read(p []byte) (int, error) {
	c.op()
	i := c.reads
	c.reads++
	if c.f.kind == "read-error" && i == c.f.at {
		c.hit = true
		return 0, fmt.Errorf("injected read error")
	}
	if c.f.kind == "cut" {
		left := c.f.at - c.delivered
		if left <= 0 {
			c.hit = true
			return 0, io.EOF
		}
		if len(p) > left {
			p = p[:left]
		}
	}
	n, err := c.r.Read(p)
	c.delivered += n
	return n, err
}

func (c *faulty) Write(p []byte) (int, error) {
	c.op()
	i := c.writes
	c.writes++
	switch {
	case c.f.kind == "write-error" && i == c.f.at:
		c.hit = true
		return 0, fmt.Errorf("injected write error")
	case c.f.kind == "short-write" && i == c.f.at && len(p) > 1:
		c.hit = true
		n, _ := c.r.Write(p[:len(p)/2])
		return n, io.ErrShortWrite
	}
	return c.r.Write(p)
}

type result struct {
	ready  bool
	err    error
	panic  *nd.Panic
	conn   *faulty
	events []string
	// stepErr: an instrumented feature reported an error during this run
	stepErr bool
}

func hdr(ns, from, to string) string {
	return fmt.Sprintf(`<stream:stream xmlns='%s' xmlns:stream='%s' version='1.0' id='x1' from='%s' to='%s'>`, ns, streamNS, from, to)
}

var idRe = regexp.MustCompile(`id=['"]([^'"]*)['"]`)

func lastID(w string) string {
	m := idRe.FindAllStringSubmatch(w, -1)
	if len(m) == 0 {
		return ""
	}
	return m[len(m)-1][1]
}

type handshake struct {
	name string
	run  func(f fault) result
}

func negotiator(ws bool, feats ...xmpp.StreamFeature) xmpp.Negotiator {
	cfg := func(*xmpp.Session, *xmpp.StreamConfig) xmpp.StreamConfig { return xmpp.StreamConfig{Features: feats} }
	if ws {
		return websocket.Negotiator(cfg)
	}
	return xmpp.NewNegotiator(cfg)
}

var origin, location = jid.MustParse("me@example.com/r"), jid.MustParse("example.com")

func finish(s *xmpp.Session, err error, p *nd.Panic, c *faulty) result {
	r := result{err: err, panic: p, conn: c, events: c.r.Events}
	if s != nil && p == nil {
		r.ready = s.State()&xmpp.Ready != 0
	}
	return r
}

func initiator(state xmpp.SessionState, ws bool, feats func() []xmpp.StreamFeature, script func(step int, w string) string) func(fault) result {
	return func(f fault) result {
		c := &faulty{r: sess.NewReactive(func(step int, w string) (string, error) { return script(step, w), nil }), f: f}
		var s *xmpp.Session
		var err error
		ctx, cancel := context.WithCancel(context.Background())
		defer cancel()
		c.cancel = cancel
		p := nd.Catch(func() {
			s, err = xmpp.NewSession(ctx, location, origin, c, state, negotiator(ws, feats()...))
		})
		return finish(s, err, p, c)
	}
}

func receiver(state xmpp.SessionState, ws bool, feats func() []xmpp.StreamFeature, script func(step int, w string) string) func(fault) result {
	return func(f fault) result {
		c := &faulty{r: sess.NewReactive(func(step int, w string) (string, error) { return script(step, w), nil }), f: f}
		var s *xmpp.Session
		var err error
		ctx, cancel := context.WithCancel(context.Background())
		defer cancel()
		c.cancel = cancel
		p := nd.Catch(func() {
			s, err = xmpp.ReceiveSession(ctx, c, state, negotiator(ws, feats()...))
		})
		return finish(s, err, p, c)
	}
}

func saslBind() []xmpp.StreamFeature {
	return []xmpp.StreamFeature{xmpp.SASL("", "secret", sasl.Plain), xmpp.BindResource()}
}

func saslBindServer() []xmpp.StreamFeature {
	return []xmpp.StreamFeature{
		xmpp.SASLServer(func(n *sasl.Negotiator) bool { _, p, _ := n.Credentials(); return string(p) == "secret" }, sasl.Plain),
		xmpp.BindResource(),
	}
}

// instrumented features for the "failing voluntary feature" handshake
var stepFailed bool

// failWithStreamError: the failing feature returns a stream-level error value.
var failWithStreamError bool

// failInParse: the failing step of the feature is Parse (initiator side).
var failInParse bool

// failInList: the failing step of the feature is List (receiving side).
var failInList bool

func failingVoluntary() xmpp.StreamFeature {
	return xmpp.StreamFeature{
		Name: xml.Name{Space: "urn:vf", Local: "f"},
		List: func(ctx context.Context, e xmlstream.TokenWriter, start xml.StartElement) (bool, error) {
			if failInList {
				// the feature cannot advertise itself (eg. its back end is unavailable)
				stepFailed = true
				return false, fmt.Errorf("voluntary feature cannot list itself")
			}
			e.EncodeToken(start)
			return false, e.EncodeToken(start.End())
		},
		Parse: func(ctx context.Context, d *xml.Decoder, start *xml.StartElement) (bool, interface{}, error) {
			if failInParse {
				// the advertisement is well-formed but the feature cannot make sense of it
				if err := d.Skip(); err != nil {
					return false, nil, err
				}
				stepFailed = true
				return false, nil, fmt.Errorf("voluntary feature cannot parse its advertisement")
			}
			return false, nil, d.Skip()
		},
		Negotiate: func(ctx context.Context, s *xmpp.Session, data interface{}) (xmpp.SessionState, io.ReadWriter, error) {
			if s.State()&xmpp.Received != 0 {
				r := s.TokenReader()
				r.Token()
				xmlstream.Skip(r)
				r.Close()
			}
			stepFailed = true
			if failWithStreamError {
				// a failure the library may want to report to the peer as well
				return 0, nil, stream.PolicyViolation
			}
			return 0, nil, fmt.Errorf("voluntary feature failed")
		},
	}
}

func clientScriptSASLBind(ns string) func(step int, w string) string {
	return func(step int, w string) string {
		switch step {
		case 0:
			return hdr(ns, "example.com", "me@example.com/r") + `<stream:features><mechanisms xmlns='` + saslNS + `'><mechanism>PLAIN</mechanism></mechanisms></stream:features>`
		case 1:
			return `<success xmlns='` + saslNS + `'/>`
		case 2:
			return hdr(ns, "example.com", "me@example.com/r") + `<stream:features><bind xmlns='` + bindNS + `'/></stream:features>`
		case 3:
			return `<iq type='result' id='` + lastID(w) + `'><bind xmlns='` + bindNS + `'><jid>me@example.com/bound</jid></bind></iq>`
		}
		return ""
	}
}

var b64creds = "AG1lAHNlY3JldA==" // \0me\0secret

var handshakes = []handshake{
	{"plain-initiator", initiator(0, false, func() []xmpp.StreamFeature { return nil }, func(step int, w string) string {
		if step == 0 {
			return hdr("jabber:client", "example.com", "me@example.com/r") + `<stream:features/>`
		}
		return ""
	})},
	// the peer answers with a stream error where its header is expected: as the
	// very first element, and right behind its header (truncations of these are
	// what the fault enumeration adds)
	{"stream-error-in-place-of-header-initiator", initiator(0, false, func() []xmpp.StreamFeature { return nil }, func(step int, w string) string {
		if step == 0 {
			return `<?xml version='1.0'?><stream:error xmlns:stream='` + streamNS + `'><host-unknown xmlns='urn:ietf:params:xml:ns:xmpp-streams'/><text xmlns='urn:ietf:params:xml:ns:xmpp-streams' xml:lang='en'>no such host</text></stream:error>`
		}
		return ""
	})},
	{"stream-error-behind-header-initiator", initiator(0, false, func() []xmpp.StreamFeature { return nil }, func(step int, w string) string {
		if step == 0 {
			return hdr("jabber:client", "example.com", "me@example.com/r") + `<stream:error><host-unknown xmlns='urn:ietf:params:xml:ns:xmpp-streams'/></stream:error></stream:stream>`
		}
		return ""
	})},
	{"stream-error-in-place-of-header-receiver", receiver(0, false, func() []xmpp.StreamFeature { return nil }, func(step int, w string) string {
		if step == 0 {
			return `<stream:error xmlns:stream='` + streamNS + `'><host-unknown xmlns='urn:ietf:params:xml:ns:xmpp-streams'/></stream:error>`
		}
		return ""
	})},
	{"stream-error-in-place-of-open-websocket-initiator", initiator(0, true, func() []xmpp.StreamFeature { return nil }, func(step int, w string) string {
		if step == 0 {
			return `<stream:error xmlns:stream='` + streamNS + `'><host-unknown xmlns='urn:ietf:params:xml:ns:xmpp-streams'/></stream:error>`
		}
		return ""
	})},
	{"sasl-bind-initiator", initiator(xmpp.Secure, false, saslBind, clientScriptSASLBind("jabber:client"))},
	{"websocket-initiator", initiator(xmpp.Secure, true, saslBind, func(step int, w string) string {
		open := `<open xmlns='urn:ietf:params:xml:ns:xmpp-framing' version='1.0' id='x1' from='example.com' to='me@example.com/r'/>`
		switch step {
		case 0:
			return open + `<stream:features xmlns:stream='` + streamNS + `'><mechanisms xmlns='` + saslNS + `'><mechanism>PLAIN</mechanism></mechanisms></stream:features>`
		case 1:
			return `<success xmlns='` + saslNS + `'/>`
		case 2:
			return open + `<stream:features xmlns:stream='` + streamNS + `'><bind xmlns='` + bindNS + `'/></stream:features>`
		case 3:
			return `<iq xmlns='jabber:client' type='result' id='` + lastID(w) + `'><bind xmlns='` + bindNS + `'><jid>me@example.com/bound</jid></bind></iq>`
		}
		return ""
	})},
	{"component", func(f fault) result {
		c := &faulty{r: sess.NewReactive(func(step int, w string) (string, error) {
			switch step {
			case 0:
				return `<?xml version='1.0'?><stream:stream xmlns='jabber:component:accept' xmlns:stream='` + streamNS + `' id='c1' from='comp.example.com'>`, nil
			case 1:
				return `<handshake></handshake>`, nil
			}
			return "", nil
		}), f: f}
		var s *xmpp.Session
		var err error
		ctx, cancel := context.WithCancel(context.Background())
		defer cancel()
		c.cancel = cancel
		p := nd.Catch(func() {
			s, err = component.NewSession(ctx, jid.MustParse("comp.example.com"), []byte("secret"), c)
		})
		return finish(s, err, p, c)
	}},
	{"failing-voluntary-then-bind-initiator", func(f fault) result {
		stepFailed = false
		r := initiator(xmpp.Secure|xmpp.Authn, false, func() []xmpp.StreamFeature { return []xmpp.StreamFeature{failingVoluntary(), xmpp.BindResource()} }, func(step int, w string) string {
			switch step {
			case 0:
				return hdr("jabber:client", "example.com", "me@example.com/r") + `<stream:features><f xmlns='urn:vf'/><bind xmlns='` + bindNS + `'/></stream:features>`
			case 1:
				return `<iq type='result' id='` + lastID(w) + `'><bind xmlns='` + bindNS + `'><jid>me@example.com/bound</jid></bind></iq>`
			}
			return ""
		})(f)
		r.stepErr = stepFailed
		return r
	}},
	{"two-failing-voluntary-initiator", func(f fault) result {
		stepFailed = false
		f2 := failingVoluntary()
		f2.Name.Space = "urn:vf2"
		r := initiator(xmpp.Secure|xmpp.Authn, false, func() []xmpp.StreamFeature { return []xmpp.StreamFeature{failingVoluntary(), f2} }, func(step int, w string) string {
			if step == 0 {
				return hdr("jabber:client", "example.com", "me@example.com/r") + `<stream:features><f xmlns='urn:vf'/><f xmlns='urn:vf2'/></stream:features>`
			}
			return ""
		})(f)
		r.stepErr = stepFailed
		return r
	}},
	{"failing-voluntary-parse-then-bind-initiator", func(f fault) result {
		failInParse = true
		defer func() { failInParse = false }()
		return handshakeByName("failing-voluntary-then-bind-initiator").run(f)
	}},
	{"failing-voluntary-stream-error-then-bind-initiator", func(f fault) result {
		failWithStreamError = true
		defer func() { failWithStreamError = false }()
		return handshakeByName("failing-voluntary-then-bind-initiator").run(f)
	}},
	{"failing-voluntary-stream-error-then-bind-receiver", func(f fault) result {
		failWithStreamError = true
		defer func() { failWithStreamError = false }()
		return handshakeByName("failing-voluntary-then-bind-receiver").run(f)
	}},
	{"failing-voluntary-list-first-receiver", func(f fault) result {
		failInList = true
		defer func() { failInList = false }()
		return handshakeByName("failing-voluntary-then-bind-receiver").run(f)
	}},
	{"failing-voluntary-list-last-receiver", func(f fault) result {
		failInList = true
		defer func() { failInList = false }()
		stepFailed = false
		r := receiver(xmpp.Secure|xmpp.Authn, false, func() []xmpp.StreamFeature { return []xmpp.StreamFeature{xmpp.BindResource(), failingVoluntary()} }, func(step int, w string) string {
			switch step {
			case 0:
				return hdr("jabber:client", "me@example.com", "example.com")
			case 1:
				return `<iq type='set' id='b1'><bind xmlns='` + bindNS + `'/></iq>`
			}
			return ""
		})(f)
		r.stepErr = stepFailed
		return r
	}},
	{"sasl-bind-receiver", receiver(xmpp.Secure, false, saslBindServer, func(step int, w string) string {
		switch step {
		case 0, 2:
			return hdr("jabber:client", "me@example.com", "example.com")
		case 1:
			return `<auth xmlns='` + saslNS + `' mechanism='PLAIN'>` + b64creds + `</auth>`
		case 3:
			return `<iq type='set' id='b1'><bind xmlns='` + bindNS + `'><resource>r</resource></bind></iq>`
		}
		return ""
	})},
	{"failing-voluntary-then-bind-receiver", func(f fault) result {
		stepFailed = false
		r := receiver(xmpp.Secure|xmpp.Authn, false, func() []xmpp.StreamFeature { return []xmpp.StreamFeature{failingVoluntary(), xmpp.BindResource()} }, func(step int, w string) string {
			switch step {
			case 0:
				return hdr("jabber:client", "me@example.com", "example.com")
			case 1:
				return `<f xmlns='urn:vf'/>`
			case 2:
				return `<iq type='set' id='b1'><bind xmlns='` + bindNS + `'/></iq>`
			}
			return ""
		})(f)
		r.stepErr = stepFailed
		return r
	}},
	{"websocket-receiver", receiver(xmpp.Secure|xmpp.Authn, true, func() []xmpp.StreamFeature { return []xmpp.StreamFeature{xmpp.BindResource()} }, func(step int, w string) string {
		switch step {
		case 0:
			return `<open xmlns='urn:ietf:params:xml:ns:xmpp-framing' version='1.0' from='me@example.com' to='example.com'/>`
		case 1:
			return `<iq xmlns='jabber:client' type='set' id='b1'><bind xmlns='` + bindNS + `'/></iq>`
		}
		return ""
	})},
	{"starttls-sasl-bind-initiator", func(f fault) result {
		var c *faulty
		ctx, cancel := context.WithCancel(context.Background())
		defer cancel()
		c02.WrapConn = func(r *sess.Reactive) io.ReadWriter { c = &faulty{r: r, f: f, cancel: cancel}; return c }
		c02.WrapCtx = func(context.Context) context.Context { return ctx }
		defer func() { c02.WrapConn, c02.WrapCtx = nil, nil }()
		ready, errText, p := c02.TLSHandshake()
		res := result{ready: ready, panic: p, conn: c}
		if errText != "" {
			res.err = fmt.Errorf("%s", errText)
		}
		return res
	}},
}

// handshakeByName is set in init (the table refers to itself through it).
var handshakeByName func(n string) handshake

func init() {
	handshakeByName = func(n string) handshake {
		for _, h := range handshakes {
			if h.name == n {
				return h
			}
		}
		panic("c04: no handshake " + n)
	}
}

type baseline struct {
	bytes, reads, writes int
	ready                bool
	err                  string
}

var (
	baseMu sync.Mutex
	bases  = map[int]baseline{}
)

func base(h int) baseline {
	baseMu.Lock()
	defer baseMu.Unlock()
	if b, ok := bases[h]; ok {
		return b
	}
	r := handshakes[h].run(fault{kind: "none"})
	b := baseline{bytes: r.conn.delivered, reads: r.conn.reads, writes: r.conn.writes, ready: r.ready}
	if r.err != nil {
		b.err = r.err.Error()
	}
	if r.panic != nil {
		b.err = "panic: " + r.panic.Value
	}
	// the byte layout must be the same in every run, or offsets are not comparable
	r2 := handshakes[h].run(fault{kind: "none"})
	if r2.conn.delivered != b.bytes || r2.conn.reads != b.reads || r2.conn.writes != b.writes {
		panic(fmt.Sprintf("c04: handshake %s is not reproducible: %d/%d/%d vs %d/%d/%d", handshakes[h].name, b.bytes, b.reads, b.writes, r2.conn.delivered, r2.conn.reads, r2.conn.writes))
	}
	bases[h] = b
	return b
}

var kinds = []string{"cut", "read-error", "write-error", "short-write", "cancel"}

func faultBody(stride int) nd.Body {
	return func(c *nd.Ctx) nd.Result {
		h := c.Choose(len(handshakes), "handshake")
		b := base(h)
		name := handshakes[h].name
		failing := strings.HasPrefix(name, "failing-voluntary") || strings.HasPrefix(name, "two-failing")
		refused := strings.HasPrefix(name, "stream-error") // the peer answers with a stream error: the fault-free run fails too
		k := c.Choose(len(kinds)+1, "fault-kind")
		if k == 0 {
			// the fault-free run itself
			c.Note("%s without fault: ready=%v err=%q", name, b.ready, b.err)
			res := nd.Result{Outcome: "fault-free", NonTrivial: name}
			switch {
			case refused && strings.HasPrefix(b.err, "panic"):
				res.Violation = &nd.Violation{Sig: "stream-error-in-place-of-header:panic", Msg: fmt.Sprintf("%s: %s", name, b.err)}
			case refused && (b.ready || b.err == ""):
				res.Violation = &nd.Violation{Sig: "stream-error-in-place-of-header:ignored", Msg: fmt.Sprintf("%s: the peer refused the stream but session establishment returned ready=%v err=%q", name, b.ready, b.err)}
			case refused:
			case failing && (b.ready || b.err == ""):
				res.Violation = &nd.Violation{Sig: "step-error-swallowed", Msg: fmt.Sprintf("%s: a negotiation step returned an error but session establishment returned ready=%v err=%q", name, b.ready, b.err)}
			case !failing && (!b.ready || b.err != ""):
				panic(fmt.Sprintf("c04: handshake %s does not succeed without faults: ready=%v err=%q", name, b.ready, b.err))
			}
			return res
		}
		kind := kinds[k-1]
		bound := b.bytes
		switch kind {
		case "read-error":
			bound = b.reads
		case "write-error", "short-write":
			bound = b.writes
		case "cancel":
			// the context is cancelled right before the at-th read or write of the
			// handshake is served (0: before any I/O); the transport is a plain
			// io.ReadWriter, so only the library's own checks can notice
			bound = b.reads + b.writes
		}
		if kind == "cut" {
			bound = (bound + stride - 1) / stride
		}
		if bound == 0 {
			return nd.Result{Skip: true}
		}
		at := c.Choose(bound, "fault-at")
		if kind == "cut" {
			at *= stride
		}
		f := fault{kind: kind, at: at}
		r := handshakes[h].run(f)
		desc := fmt.Sprintf("%s with %s at %d (fault-free run: %d peer bytes, %d reads, %d writes)", name, kind, at, b.bytes, b.reads, b.writes)
		c.Note("%s -> ready=%v err=%v", desc, r.ready, r.err)
		res := nd.Result{Outcome: kind + ":error", NonTrivial: desc}
		if r.panic != nil {
			res.Violation = &nd.Violation{Sig: "fault:" + r.panic.Sig(), Msg: desc + ": panic " + r.panic.Value + "\n" + r.panic.Stack}
			return res
		}
		if !r.conn.hit {
			// the run ended before reaching the fault point (only legitimate when
			// it failed for another reason, i.e. the failing-feature handshakes)
			res.Outcome = kind + ":not-reached"
			if r.err == nil || r.ready {
				res.Violation = &nd.Violation{Sig: "fault:not-reached-but-succeeded", Msg: desc + fmt.Sprintf(": the fault point was not reached and the session is ready=%v err=%v", r.ready, r.err)}
			}
			return res
		}
		if kind == "short-write" && r.err == nil && r.ready {
			// a short write whose remainder is irrelevant cannot happen: every byte matters
		}
		var perr *nd.Panic
		if r.err != nil {
			perr = nd.Catch(func() { _ = r.err.Error() })
		}
		switch {
		case perr != nil:
			res.Violation = &nd.Violation{Sig: "fault:unprintable-error", Msg: desc + ": the returned error panics when printed: " + perr.Value}
		case r.err == nil || r.ready:
			res.Violation = &nd.Violation{Sig: "fault:fails-open:" + kind + ":" + name, Msg: desc + fmt.Sprintf(": session establishment returned ready=%v err=%v events=%q", r.ready, r.err, r.events)}
		}
		return res
	}
}

func init() {
	drv.Register(&drv.Prop{
		ID:    "C04",
		Level: "fault_enumeration",
		Rule: "10 recorded handshakes (plain, SASL+bind, WebSocket, component, failing voluntary feature followed by bind, two failing voluntary features as initiator; SASL+bind, failing voluntary + bind, WebSocket as receiver; STARTTLS+SASL+bind over a real TLS peer): for each, the peer's byte stream is cut after N bytes for every N (raw bytes, so inside TLS records too; quick: every 3rd byte of the TLS handshake), the i-th read fails for every i, the j-th write fails or is short for every j. Oracle: constructor returns a non-nil printable error and the session is not ready; no panic; handshakes containing a failing step never return nil. " +
			"The cancellation part (context cancelled at every instant, all interleavings with the library's own deadline goroutine) is the 'cancel' part, run on the controlled scheduler. Non-trivial = every distinct (handshake, fault kind, index).",
		Assumptions: []string{"the scripted peers send exactly the bytes the handshake needs, so every cut before the end must fail", "the TLS peer uses an Ed25519 certificate and no session tickets, so the byte layout is identical in every run (asserted at run time)"},
		Parts: func(tier string) []drv.Part {
			stride := 1
			b := 5 * time.Minute
			return append([]drv.Part{{Name: "faults", Body: faultBody(stride), CutDepth: 2, Budget: b}}, cancelParts(tier)...)
		},
	})
}
