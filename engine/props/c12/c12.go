// Package c12: negotiation carries addresses and identifiers faithfully and checks them.
package c12

import (
	"context"
	"encoding/xml"
	"errors"
	"fmt"
	"io"
	"strings"
	"time"

	"mellium.im/xmlstream"
	"mellium.im/xmpp"
	"mellium.im/xmpp/jid"
	"mellium.im/xmpp/stanza"
	"mellium.im/xmpp/stream"
	"mellium.im/xmpp/websocket"

	"verif/drv"
	"verif/nd"
	"verif/sess"
	"verif/xu"
)

func viol(sig, f string, a ...any) *nd.Violation { return &nd.Violation{Sig: sig, Msg: fmt.Sprintf(f, a...)} }

const wsNS = "urn:ietf:params:xml:ns:xmpp-framing"

func negotiator(ws bool, lang string, features ...xmpp.StreamFeature) xmpp.Negotiator {
	cfg := func(*xmpp.Session, *xmpp.StreamConfig) xmpp.StreamConfig {
		return xmpp.StreamConfig{Lang: lang, Features: features}
	}
	if ws {
		return websocket.Negotiator(cfg)
	}
	return xmpp.NewNegotiator(cfg)
}

// ---------------------------------------------------------------- part A: emitted headers

var origins = []string{"me@example.com/res", `me@example.com/it's<&>"r`, "example.org", "é@bücher.example/ü", "a@example.com/x y"}
var locations = []string{"example.com", "bücher.example"}
var langs = []string{"", "en", `e'n"<&`}

// firstElement returns the first start element of a byte stream (after an
// optional XML declaration) and checks that the header is well-formed XML once
// closed.
func headerOf(b string, ws bool) (xml.StartElement, error) {
	doc := b
	if !ws {
		doc += "</stream:stream>"
	}
	if _, err := xu.Parse([]byte(doc)); err != nil {
		return xml.StartElement{}, err
	}
	d := xml.NewDecoder(strings.NewReader(doc))
	for {
		t, err := d.Token()
		if err != nil {
			return xml.StartElement{}, err
		}
		if s, ok := t.(xml.StartElement); ok {
			return s.Copy(), nil
		}
	}
}

func attrOf(s xml.StartElement, space, local string) (string, bool) {
	for _, a := range s.Attr {
		if a.Name.Local == local && a.Name.Space == space {
			return a.Value, true
		}
	}
	return "", false
}

func emitBody(c *nd.Ctx) nd.Result {
	origin := jid.MustParse(origins[c.Choose(len(origins), "origin")])
	location := jid.MustParse(locations[c.Choose(len(locations), "location")])
	lang := langs[c.Choose(len(langs), "lang")]
	s2s := c.Choose(2, "s2s") == 1
	ws := c.Choose(2, "framing") == 1
	c.Note("origin=%q location=%q lang=%q s2s=%v ws=%v", origin.String(), location.String(), lang, s2s, ws)
	desc := fmt.Sprintf("origin=%q location=%q lang=%q s2s=%v ws=%v", origin.String(), location.String(), lang, s2s, ws)
	res := nd.Result{Outcome: "emit", NonTrivial: desc}
	var st xmpp.SessionState
	wantNS := stanza.NSClient
	if s2s {
		st = xmpp.S2S
		wantNS = stanza.NSServer
	}
	ctx := context.Background()
	var v *nd.Violation
	if p := nd.Catch(func() {
		// 1. what the initiator sends
		r1 := sess.NewReactive(func(int, string) (string, error) { return "", nil })
		xmpp.NewSession(ctx, location, origin, r1, st, negotiator(ws, lang))
		hi := r1.Written()
		start, err := headerOf(hi, ws)
		if err != nil {
			v = viol("emit:initiator-header-malformed", "%s: initiator sent %q: %v", desc, hi, err)
			return
		}
		if to, _ := attrOf(start, "", "to"); to != location.String() {
			v = viol("emit:initiator-header-wrong-address", "%s: initiator header %q has to=%q", desc, hi, to)
			return
		}
		if from, _ := attrOf(start, "", "from"); from != origin.String() {
			v = viol("emit:initiator-header-wrong-address", "%s: initiator header %q has from=%q", desc, hi, from)
			return
		}
		// 2. a receiving library instance parses it and answers
		r2 := sess.NewReactive(func(step int, w string) (string, error) {
			if step == 0 {
				return hi, nil
			}
			return "", nil
		})
		rs, _ := xmpp.ReceiveSession(ctx, r2, st, negotiator(ws, lang))
		in := rs.In()
		if !in.To.Equal(location) || !in.From.Equal(origin) || in.Version != stream.DefaultVersion || in.Lang != lang || (!ws && in.XMLNS != wantNS) {
			v = viol("emit:receiver-recovers-different-header", "%s: initiator sent %q; the receiving session reports to=%q from=%q version=%v lang=%q xmlns=%q", desc, hi, in.To.String(), in.From.String(), in.Version, in.Lang, in.XMLNS)
			return
		}
		hr := r2.Written()
		if s2s && hr == "" {
			// A receiving server-to-server session created through the public
			// constructors starts without a known peer and refuses every first
			// header that names one; nothing to hand on (recorded as an outcome).
			return
		}
		rstart, err := headerOf(hr, ws)
		if err != nil {
			// features follow the header; cut at the end of the first tag
			v = viol("emit:receiver-header-malformed", "%s: receiver sent %q: %v", desc, hr, err)
			return
		}
		rid, _ := attrOf(rstart, "", "id")
		if rid == "" {
			v = viol("emit:receiver-header-without-id", "%s: receiver sent %q", desc, hr)
			return
		}
		// 3. an initiating library instance parses the receiver's header
		r3 := sess.NewReactive(func(step int, w string) (string, error) {
			if step == 0 {
				return hr, nil
			}
			return "", nil
		})
		is, ierr := xmpp.NewSession(ctx, location, origin, r3, st, negotiator(ws, lang))
		in = is.In()
		if ierr != nil {
			v = viol("emit:initiator-rejects-receiver-header", "%s: receiver sent %q; initiator fails: %v", desc, hr, ierr)
			return
		}
		if !in.From.Equal(location) || !in.To.Equal(origin) || in.Version != stream.DefaultVersion || in.Lang != lang || in.ID != rid || (!ws && in.XMLNS != wantNS) {
			v = viol("emit:initiator-recovers-different-header", "%s: receiver sent %q; the initiating session reports to=%q from=%q id=%q version=%v lang=%q xmlns=%q", desc, hr, in.To.String(), in.From.String(), in.ID, in.Version, in.Lang, in.XMLNS)
			return
		}
	}); p != nil {
		v = viol("emit:"+p.Sig(), "%s: panic %s\n%s", desc, p.Value, p.Stack)
	}
	res.Violation = v
	return res
}

// ---------------------------------------------------------------- part B: accepted headers

type hdrVariant struct {
	name    string // element: "stream:stream", "stream:other", "open", "foo", "error"
	streamP string // what the stream prefix is bound to
	xmlns   string // "-" = missing
	version string // "-" = missing
	id      bool
	from    string // "" absent
	to      string
	// foreign: version and id are only present as attributes of another
	// namespace (x:version, x:id): the header declares neither
	foreign bool
}

const streamNS = "http://etherx.jabber.org/streams"

func (h hdrVariant) render(closeIt bool) string {
	var b strings.Builder
	switch h.name {
	case "error":
		return `<stream:error xmlns:stream='` + streamNS + `'><host-unknown xmlns='urn:ietf:params:xml:ns:xmpp-streams'/></stream:error>`
	case "open":
		b.WriteString(`<open xmlns='` + wsNS + `'`)
	case "ws:close", "ws:other":
		// other elements of the framing namespace are not the stream-open element
		b.WriteString(`<` + h.name[3:] + ` xmlns='` + wsNS + `'`)
	case "foo":
		b.WriteString(`<foo`)
		if h.xmlns != "-" {
			fmt.Fprintf(&b, ` xmlns='%s'`, h.xmlns)
		}
	default:
		b.WriteString("<" + h.name)
		if h.xmlns != "-" {
			fmt.Fprintf(&b, ` xmlns='%s'`, h.xmlns)
		}
		fmt.Fprintf(&b, ` xmlns:stream='%s'`, h.streamP)
	}
	if h.foreign {
		fmt.Fprintf(&b, ` xmlns:x='urn:x' x:version='1.0' x:id='s1' x:lang='de'`)
	} else {
		if h.version != "-" {
			fmt.Fprintf(&b, ` version='%s'`, h.version)
		}
		if h.id {
			b.WriteString(` id='s1'`)
		}
	}
	if h.from != "" {
		fmt.Fprintf(&b, ` from='%s'`, h.from)
	}
	if h.to != "" {
		fmt.Fprintf(&b, ` to='%s'`, h.to)
	}
	if h.name == "open" || strings.HasPrefix(h.name, "ws:") || closeIt {
		b.WriteString("/>")
	} else {
		b.WriteString(">")
	}
	return b.String()
}

var hdrNames = []string{"stream:stream", "stream:other", "open", "foo", "error", "ws:close", "ws:other"}
var hdrPrefix = []string{streamNS, "urn:wrong"}
var hdrXMLNS = []string{stanza.NSClient, stanza.NSServer, "urn:other", "-"}
var hdrVersions = []string{"1.0", "0.9", "2.0", "-", "junk", "1.1", "", "257.0", "1.256", "513.512", "-255.0", "+1.0", "1", "1.0.0", " 1.0", "1.0 "}

func acceptBody(c *nd.Ctx) nd.Result {
	recv := c.Choose(2, "role") == 1
	ws := c.Choose(2, "framing") == 1
	h := hdrVariant{name: hdrNames[c.Choose(len(hdrNames), "element")]}
	h.streamP = hdrPrefix[c.Choose(len(hdrPrefix), "stream-prefix-ns")]
	h.xmlns = hdrXMLNS[c.Choose(len(hdrXMLNS), "xmlns")]
	h.version = hdrVersions[c.Choose(len(hdrVersions), "version")]
	h.id = c.Choose(2, "id") == 0
	if h.version == "1.0" && h.id {
		h.foreign = c.Choose(2, "version-and-id-only-as-attributes-of-another-namespace") == 1
	}
	// addresses: 0 matching, 1 absent, 2 unparsable
	addr := c.Choose(3, "addresses")
	origin := jid.MustParse("me@example.com/res")
	location := jid.MustParse("example.com")
	peerFrom, peerTo := location.String(), origin.String()
	if recv {
		peerFrom, peerTo = origin.String(), location.String()
	}
	switch addr {
	case 1:
		peerFrom, peerTo = "", ""
	case 2:
		peerFrom, peerTo = "@@", "@@"
	}
	h.from, h.to = peerFrom, peerTo
	doc := h.render(false)
	c.Note("role=%s framing ws=%v peer header %s", map[bool]string{false: "initiator", true: "receiver"}[recv], ws, doc)
	desc := fmt.Sprintf("recv=%v ws=%v header=%s", recv, ws, doc)
	res := nd.Result{Outcome: "rejected", NonTrivial: desc}

	// what the statement requires for acceptance
	var okName bool
	if ws {
		okName = h.name == "open"
	} else {
		okName = h.name == "stream:stream" && h.streamP == streamNS
	}
	okNS := ws || h.xmlns == stanza.NSClient || h.xmlns == stanza.NSServer
	mayAccept := okName && okNS && h.version == "1.0" && (recv || h.id) && addr != 2 && !h.foreign
	mustAccept := mayAccept && addr == 0 && (ws || h.xmlns == stanza.NSClient)

	var s *xmpp.Session
	var err error
	r := sess.NewReactive(func(step int, w string) (string, error) {
		if step == 0 {
			if recv {
				return doc, nil
			}
			return doc + `<stream:features xmlns:stream='` + streamNS + `'/>`, nil
		}
		return "", nil
	})
	if p := nd.Catch(func() {
		if recv {
			s, err = xmpp.ReceiveSession(context.Background(), r, 0, negotiator(ws, ""))
		} else {
			s, err = xmpp.NewSession(context.Background(), location, origin, r, 0, negotiator(ws, ""))
		}
	}); p != nil {
		res.Violation = viol("accept:"+p.Sig(), "%s: panic %s\n%s", desc, p.Value, p.Stack)
		return res
	}
	// accepted = the library went on past the header: as initiator it became
	// ready; as receiver it answered with its own header and features.
	accepted := false
	if recv {
		accepted = strings.Contains(r.Written(), "features")
	} else {
		accepted = err == nil && s.State()&xmpp.Ready != 0
	}
	if accepted {
		res.Outcome = "accepted"
	}
	if h.name == "error" {
		var se stream.Error
		if accepted || !errors.As(err, &se) || se.Err != "host-unknown" {
			res.Violation = viol("accept:stream-error-not-returned", "%s: a stream error sent in place of the header gave err=%v (%T), accepted=%v", desc, err, err, accepted)
		}
		res.Outcome = "stream-error"
		return res
	}
	if accepted && !mayAccept {
		why := "element"
		switch {
		case !okName:
		case !okNS:
			why = "namespace"
		case h.version != "1.0":
			why = "version"
		case !recv && !h.id:
			why = "missing-id"
		default:
			why = "address"
		}
		res.Violation = viol("accept:invalid-header-accepted:"+why, "%s: accepted (err=%v)", desc, err)
		return res
	}
	if !accepted && mustAccept {
		res.Violation = viol("accept:valid-header-rejected", "%s: rejected with %v", desc, err)
	}
	return res
}

// ---------------------------------------------------------------- part C: restarts

// restartFeature is a negotiable feature that needs no I/O and restarts the stream.
func restartFeature(n int) xmpp.StreamFeature {
	name := xml.Name{Space: fmt.Sprintf("urn:restart:%d", n), Local: "r"}
	return xmpp.StreamFeature{
		Name:       name,
		Prohibited: xmpp.SessionState(0),
		List: func(ctx context.Context, e xmlstream.TokenWriter, start xml.StartElement) (bool, error) {
			if err := e.EncodeToken(start); err != nil {
				return true, err
			}
			return true, e.EncodeToken(start.End())
		},
		Parse: func(ctx context.Context, d *xml.Decoder, start *xml.StartElement) (bool, interface{}, error) {
			return true, nil, d.Skip()
		},
		Negotiate: func(ctx context.Context, s *xmpp.Session, data interface{}) (xmpp.SessionState, io.ReadWriter, error) {
			if s.State()&xmpp.Received != 0 {
				// consume the selection element
				r := s.TokenReader()
				defer r.Close()
				if _, err := r.Token(); err != nil {
					return 0, nil, err
				}
				if err := xmlstream.Skip(r); err != nil {
					return 0, nil, err
				}
			}
			return 0, s.Conn(), nil
		},
	}
}

// address variants for a later header: 0 same, 1 other domain/user, 2 absent, 3 same bare different resource
func variantAddr(base string, v int) string {
	switch v {
	case 1:
		if strings.Contains(base, "@") {
			return "mallory@example.com/res"
		}
		return "evil.example"
	case 2:
		return ""
	case 3:
		// the same account under another resource (only for addresses that have one)
		if i := strings.Index(base, "/"); i >= 0 {
			return base[:i] + "/evil"
		}
		return base
	}
	return base
}

func restartBody(c *nd.Ctx) nd.Result {
	recv := c.Choose(2, "role") == 1
	nRestarts := 1 + c.Choose(2, "restarts")
	var fromV, toV, nsV []int
	for i := 0; i < nRestarts; i++ {
		fromV = append(fromV, c.Choose(4, "from-variant"))
		toV = append(toV, c.Choose(4, "to-variant"))
		nsV = append(nsV, c.Choose(3, "content-namespace-variant")) // 0 as before, 1 not declared, 2 unsupported
	}
	// a client need not name itself before it has authenticated: the first
	// header (and then every later one) carries no from; the to it names is
	// established all the same
	noFrom := recv && c.Choose(2, "client-never-sends-from") == 1
	if noFrom {
		for _, v := range fromV {
			if v != 2 {
				return nd.Result{Skip: true}
			}
		}
	}
	origin := jid.MustParse("me@example.com/res")
	location := jid.MustParse("example.com")
	c.Note("role recv=%v restarts=%d from-variants=%v to-variants=%v namespace-variants=%v", recv, nRestarts, fromV, toV, nsV)
	desc := fmt.Sprintf("recv=%v restarts=%d from-variants=%v to-variants=%v (0 same, 1 different, 2 absent, 3 same account under another resource) content-namespace-variants=%v (0 same, 1 not declared, 2 unsupported)", recv, nRestarts, fromV, toV, nsV)
	res := nd.Result{Outcome: "restart", NonTrivial: desc}
	feats := []xmpp.StreamFeature{restartFeature(1), restartFeature(2)}

	hdr := func(from, to string, nsVariant int) string {
		h := hdrVariant{name: "stream:stream", streamP: streamNS, xmlns: []string{stanza.NSClient, "-", "urn:other"}[nsVariant], version: "1.0", id: true, from: from, to: to}
		return h.render(false)
	}
	baseFrom, baseTo := location.String(), origin.String()
	if recv {
		baseFrom, baseTo = origin.String(), location.String()
	}
	if noFrom {
		baseFrom = ""
		desc += " (the client never sends a from)"
		res.NonTrivial = desc
	}
	// the first differing header index (1-based restart), 0 if none differs
	firstDiff := 0
	nsCause := false // the first bad header is bad only because of its content namespace
	for i := 0; i < nRestarts; i++ {
		fromDiffers := fromV[i] == 1 || (fromV[i] == 3 && variantAddr(baseFrom, 3) != baseFrom)
		toDiffers := toV[i] == 1 || (toV[i] == 3 && variantAddr(baseTo, 3) != baseTo)
		if fromDiffers || toDiffers || nsV[i] != 0 {
			firstDiff = i + 1
			nsCause = !fromDiffers && !toDiffers
			break
		}
	}
	headersAccepted := 0
	var s *xmpp.Session
	var err error
	r := sess.NewReactive(func(step int, w string) (string, error) {
		// every step corresponds to one stream (re)start
		if step > nRestarts {
			return "", nil
		}
		from, to, nsVar := baseFrom, baseTo, 0
		if step > 0 {
			from, to, nsVar = variantAddr(baseFrom, fromV[step-1]), variantAddr(baseTo, toV[step-1]), nsV[step-1]
		}
		if recv {
			// the peer (a client) sends its header and, once the receiver
			// advertised, selects the next restart feature
			if step > 0 && !strings.Contains(w, "features") {
				return "", nil
			}
			out := hdr(from, to, nsVar)
			if step < nRestarts {
				out += fmt.Sprintf(`<r xmlns='urn:restart:%d'/>`, step+1)
			}
			return out, nil
		}
		out := hdr(from, to, nsVar)
		if step < nRestarts {
			out += fmt.Sprintf(`<stream:features><r xmlns='urn:restart:%d'/></stream:features>`, step+1)
		} else {
			out += `<stream:features/>`
		}
		return out, nil
	})
	if p := nd.Catch(func() {
		if recv {
			s, err = xmpp.ReceiveSession(context.Background(), r, 0, negotiator(false, "", feats...))
		} else {
			s, err = xmpp.NewSession(context.Background(), location, origin, r, 0, negotiator(false, "", feats...))
		}
	}); p != nil {
		res.Violation = viol("restart:"+p.Sig(), "%s: panic %s\n%s", desc, p.Value, p.Stack)
		return res
	}
	// count the headers the library sent: it sends one per accepted (re)start
	headersAccepted = strings.Count(r.Written(), "<stream:stream")
	if recv {
		// the receiver answers each accepted header with its own
	} else {
		// the initiator sends its header first, so one more than accepted
	}
	_ = headersAccepted
	if firstDiff > 0 {
		// negotiation must fail at (or before) the differing header: in
		// particular the session must not be established and, as initiator,
		// nothing may be sent after it; as receiver no header answers it.
		established := err == nil && s != nil && s.State()&xmpp.Ready != 0
		sent := strings.Count(r.Written(), "<stream:stream")
		limit := firstDiff + 1 // initiator: headers for streams 0..firstDiff
		if recv {
			limit = firstDiff // receiver: answers only streams 0..firstDiff-1
		}
		if established || sent > limit {
			sig := "restart:changed-address-accepted"
			if nsCause {
				sig = "restart:header-without-supported-content-namespace-accepted"
			}
			res.Violation = viol(sig, "%s: header %d differs from the established addresses but err=%v, ready=%v, headers sent by the library=%d (limit %d); events %q", desc, firstDiff, err, established, sent, limit, r.Events)
		}
		res.Outcome = "restart-rejected"
		return res
	}
	// all same (or absent on a later header)
	allSame := true
	for i := range fromV {
		if fromV[i] != 0 || toV[i] != 0 || nsV[i] != 0 {
			allSame = false
		}
	}
	if allSame && !recv && err != nil {
		res.Violation = viol("restart:unchanged-header-rejected", "%s: err=%v events %q", desc, err, r.Events)
	}
	return res
}

// ---------------------------------------------------------------- part D: resource binding

const bindNS = "urn:ietf:params:xml:ns:xmpp-bind"

var bindOrigins = []string{"me@example.com", "me@example.com/res", `me@example.com/it's<&>"r`, "me@example.com/ a b "}

// replies: how the scripted server answers the bind request with id ID
var bindReplies = []string{
	"result-jid-as-requested", "result-jid-other-resource", "result-jid-other-account", "result-jid-other-account-same-resource", "result-empty-bind", "result-no-payload",
	"error-with-payload", "error-without-payload", "wrong-id", "no-id", "empty-id", "type-get", "message-kind", "malformed", "eof", "stream-error", "text",
}

func bindClientBody(c *nd.Ctx) nd.Result {
	origin := jid.MustParse(bindOrigins[c.Choose(len(bindOrigins), "origin")])
	reply := bindReplies[c.Choose(len(bindReplies), "reply")]
	// servers may leave the to attribute out of their response header (the
	// negotiator tolerates it): what the session knows about itself stays
	noTo := c.Choose(2, "server-header-without-to") == 1
	c.Note("initiator %q, server reply %s, server header without to: %v", origin.String(), reply, noTo)
	desc := fmt.Sprintf("initiator %q, server reply %s, server header without to=%v", origin.String(), reply, noTo)
	res := nd.Result{Outcome: reply, NonTrivial: desc}
	location := origin.Domain()
	var request string
	assigned := ""
	r := sess.NewReactive(func(step int, w string) (string, error) {
		switch step {
		case 0:
			h := hdrVariant{name: "stream:stream", streamP: streamNS, xmlns: stanza.NSClient, version: "1.0", id: true, from: location.String(), to: origin.String()}
			esc := func(s string) string { var b strings.Builder; xml.EscapeText(&b, []byte(s)); return b.String() }
			h.to = esc(h.to)
			if noTo {
				h.to = ""
				return h.render(false) + `<stream:features><bind xmlns='` + bindNS + `'/></stream:features>`, nil
			}
			return strings.Replace(h.render(false), "'"+h.to+"'", `"`+strings.Replace(h.to, "&#39;", "'", -1)+`"`, 1) + `<stream:features><bind xmlns='` + bindNS + `'/></stream:features>`, nil
		case 1:
			request = w
			roots, err := xu.Parse([]byte(sess.Header(stanza.NSClient) + w + "</stream:stream>"))
			id := ""
			if err == nil && len(roots) == 1 && len(roots[0].Children) > 0 {
				id, _ = roots[0].Children[0].AttrVal("", "id")
			}
			esc := func(s string) string { var b strings.Builder; xml.EscapeText(&b, []byte(s)); return b.String() }
			switch reply {
			case "result-jid-as-requested":
				assigned = origin.String()
				if origin.Resourcepart() == "" {
					assigned = origin.String() + "/srv"
				}
			case "result-jid-other-resource":
				assigned = origin.Bare().String() + "/other'<r"
			case "result-jid-other-account":
				assigned = "someone@else.example/x"
			case "result-jid-other-account-same-resource":
				// another bare address, the resourcepart that was asked for
				rp := origin.Resourcepart()
				if rp == "" {
					rp = "srv"
				}
				oa, _ := jid.New("someone", "else.example", rp)
				assigned = oa.String()
			}
			switch reply {
			case "result-jid-as-requested", "result-jid-other-resource", "result-jid-other-account", "result-jid-other-account-same-resource":
				return fmt.Sprintf(`<iq type='result' id='%s'><bind xmlns='%s'><jid>%s</jid></bind></iq>`, id, bindNS, esc(assigned)), nil
			case "result-empty-bind":
				return fmt.Sprintf(`<iq type='result' id='%s'><bind xmlns='%s'/></iq>`, id, bindNS), nil
			case "result-no-payload":
				return fmt.Sprintf(`<iq type='result' id='%s'/>`, id), nil
			case "error-with-payload":
				return fmt.Sprintf(`<iq type='error' id='%s'><error type='cancel'><conflict xmlns='urn:ietf:params:xml:ns:xmpp-stanzas'/></error></iq>`, id), nil
			case "error-without-payload":
				return fmt.Sprintf(`<iq type='error' id='%s'/>`, id), nil
			case "wrong-id":
				return fmt.Sprintf(`<iq type='result' id='%sx'><bind xmlns='%s'><jid>%s</jid></bind></iq>`, id, bindNS, esc(origin.Bare().String()+"/z")), nil
			case "no-id":
				// (a reply that does not name the request answers nothing)
				return fmt.Sprintf(`<iq type='result'><bind xmlns='%s'><jid>%s</jid></bind></iq>`, bindNS, esc(origin.Bare().String()+"/z")), nil
			case "empty-id":
				return fmt.Sprintf(`<iq type='result' id=''><bind xmlns='%s'><jid>%s</jid></bind></iq>`, bindNS, esc(origin.Bare().String()+"/z")), nil
			case "type-get":
				return fmt.Sprintf(`<iq type='get' id='%s'><bind xmlns='%s'><jid>%s</jid></bind></iq>`, id, bindNS, esc(origin.Bare().String()+"/z")), nil
			case "message-kind":
				return fmt.Sprintf(`<message type='result' id='%s'><bind xmlns='%s'><jid>%s</jid></bind></message>`, id, bindNS, esc(origin.Bare().String()+"/z")), nil
			case "malformed":
				return fmt.Sprintf(`<iq type='result' id='%s'><bind xmlns='%s'><jid>`, id, bindNS) + `</iq>`, nil
			case "stream-error":
				return `<stream:error><conflict xmlns='urn:ietf:params:xml:ns:xmpp-streams'/></stream:error>`, nil
			case "text":
				return "junk", nil
			}
			return "", nil
		}
		return "", nil
	})
	var s *xmpp.Session
	var err error
	if p := nd.Catch(func() {
		s, err = xmpp.NewSession(context.Background(), location, origin, r, xmpp.Secure|xmpp.Authn, negotiator(false, "", xmpp.BindResource()))
	}); p != nil {
		res.Violation = viol("bind-client:"+p.Sig(), "%s: panic %s\n%s", desc, p.Value, p.Stack)
		return res
	}
	// the request asks for exactly the resourcepart of the own address, or none
	roots, perr := xu.Parse([]byte(sess.Header(stanza.NSClient) + request + "</stream:stream>"))
	if perr != nil || len(roots) != 1 || len(roots[0].Children) != 1 {
		res.Violation = viol("bind-client:request-malformed", "%s: request %q: %v; err=%v events=%q", desc, request, perr, err, r.Events)
		return res
	}
	iq := roots[0].Children[0]
	ty, _ := iq.AttrVal("", "type")
	if iq.Name.Local != "iq" || ty != "set" || len(iq.Children) != 1 || iq.Children[0].Name != (xml.Name{Space: bindNS, Local: "bind"}) {
		res.Violation = viol("bind-client:request-shape", "%s: request %s", desc, request)
		return res
	}
	bind := iq.Children[0]
	asked := ""
	hasRes := false
	for _, ch := range bind.Children {
		if ch.Name.Local == "resource" {
			hasRes = true
			for _, t := range ch.Children {
				asked += t.Text
			}
		}
	}
	if hasRes != (origin.Resourcepart() != "") || asked != origin.Resourcepart() {
		res.Violation = viol("bind-client:request-wrong-resource", "%s: own resourcepart %q but the request is %s", desc, origin.Resourcepart(), request)
		return res
	}
	// outcome
	ok := err == nil && s.State()&xmpp.Ready != 0
	var perrv *nd.Panic
	if err != nil {
		perrv = nd.Catch(func() { _ = err.Error() })
	}
	if perrv != nil {
		res.Violation = viol("bind-client:unprintable-error", "%s: the returned error (%T) panics when printed: %s", desc, err, perrv.Value)
		return res
	}
	switch reply {
	case "result-jid-as-requested", "result-jid-other-resource", "result-jid-other-account", "result-jid-other-account-same-resource":
		if !ok {
			res.Violation = viol("bind-client:valid-reply-rejected", "%s: err=%v", desc, err)
		} else if s.LocalAddr().String() != jid.MustParse(assigned).String() {
			res.Violation = viol("bind-client:reports-wrong-address", "%s: server assigned %q, LocalAddr()=%q", desc, assigned, s.LocalAddr().String())
		}
	default:
		if ok {
			res.Violation = viol("bind-client:invalid-reply-accepted:"+reply, "%s: session ready with LocalAddr()=%q", desc, s.LocalAddr().String())
		}
	}
	return res
}

var reqResources = []string{"", "r", `it's<&>"r`}

var chosenDesc string

func bindServerBody(c *nd.Ctx) (res nd.Result) {
	cb := c.Choose(4, "callback") // 0 nil (BindResource), 1 returns jid, 2 returns stanza error, 3 returns other error
	reqRes := reqResources[c.Choose(len(reqResources), "requested-resource")]
	sessions := 1 + c.Choose(2, "sessions-with-same-feature")
	c.Note("callback=%d requested resource %q sessions=%d", cb, reqRes, sessions)
	desc := fmt.Sprintf("callback=%d (0 none, 1 jid, 2 stanza error, 3 other error) requested resource %q sessions=%d", cb, reqRes, sessions)
	defer func() {
		if cb == 1 && res.Violation != nil {
			res.Violation.Msg = "callback address " + chosenDesc + ": " + res.Violation.Msg
		}
	}()
	res = nd.Result{Outcome: fmt.Sprintf("cb%d", cb), NonTrivial: desc}
	var gotReq []string
	var feature xmpp.StreamFeature
	// the address the callback chooses: the requesting account with a resource of
	// its own, another localpart, another domain, a domain-only account
	chosen := jid.MustParse("me@example.com/chosen'<")
	if cb == 1 {
		chosen = jid.MustParse([]string{"me@example.com/chosen'<", "anon-7f3a@example.com/r1", "me@other.example/r1", "example.com/r1"}[c.Choose(4, "callback-address")])
	}
	chosenDesc = chosen.String()
	switch cb {
	case 0:
		feature = xmpp.BindResource()
	case 1:
		feature = xmpp.BindCustom(func(j jid.JID, r string) (jid.JID, error) { gotReq = append(gotReq, r); return chosen, nil })
	case 2:
		feature = xmpp.BindCustom(func(j jid.JID, r string) (jid.JID, error) {
			gotReq = append(gotReq, r)
			return jid.JID{}, stanza.Error{Type: stanza.Cancel, Condition: stanza.Conflict}
		})
	case 3:
		feature = xmpp.BindCustom(func(j jid.JID, r string) (jid.JID, error) { gotReq = append(gotReq, r); return jid.JID{}, errors.New("nope") })
	}
	var assignedRes []string
	for n := 0; n < sessions; n++ {
		esc := func(s string) string { var b strings.Builder; xml.EscapeText(&b, []byte(s)); return b.String() }
		reqID := fmt.Sprintf("bind%d", n)
		var replyDoc string
		r := sess.NewReactive(func(step int, w string) (string, error) {
			switch step {
			case 0:
				h := hdrVariant{name: "stream:stream", streamP: streamNS, xmlns: stanza.NSClient, version: "1.0", from: "me@example.com", to: "example.com"}
				return h.render(false), nil
			case 1:
				inner := ""
				if reqRes != "" {
					inner = "<resource>" + esc(reqRes) + "</resource>"
				}
				return fmt.Sprintf(`<iq type='set' id='%s'><bind xmlns='%s'>%s</bind></iq>`, reqID, bindNS, inner), nil
			case 2:
				replyDoc = w
			}
			return "", nil
		})
		var s *xmpp.Session
		var err error
		if p := nd.Catch(func() {
			s, err = xmpp.ReceiveSession(context.Background(), r, xmpp.Secure|xmpp.Authn, negotiator(false, "", feature))
		}); p != nil {
			res.Violation = viol("bind-server:"+p.Sig(), "%s: panic %s\n%s", desc, p.Value, p.Stack)
			return res
		}
		if replyDoc == "" {
			replyDoc = r.Unseen()
		}
		_ = s
		if cb == 3 {
			if err == nil {
				res.Violation = viol("bind-server:callback-error-swallowed", "%s: the callback failed but ReceiveSession returned nil", desc)
				return res
			}
			continue
		}
		// the reply answers the request's id
		full := r.Written()
		i := strings.Index(full, "<iq")
		if i < 0 {
			res.Violation = viol("bind-server:no-reply", "%s: wrote %q err=%v", desc, full, err)
			return res
		}
		roots, perr := xu.Parse([]byte(sess.Header(stanza.NSClient) + full[i:] + "</stream:stream>"))
		if perr != nil || len(roots) != 1 || len(roots[0].Children) < 1 {
			res.Violation = viol("bind-server:reply-malformed", "%s: reply %q: %v", desc, full[i:], perr)
			return res
		}
		iq := roots[0].Children[0]
		id, _ := iq.AttrVal("", "id")
		if id != reqID {
			res.Violation = viol("bind-server:reply-wrong-id", "%s: request id %q, reply %s", desc, reqID, full[i:])
			return res
		}
		if cb <= 1 {
			ty, _ := iq.AttrVal("", "type")
			j := ""
			for _, b := range iq.Children {
				for _, ch := range b.Children {
					if ch.Name.Local == "jid" {
						for _, t := range ch.Children {
							j += t.Text
						}
					}
				}
			}
			if ty != "result" || j == "" {
				res.Violation = viol("bind-server:reply-without-address", "%s: reply %s", desc, full[i:])
				return res
			}
			pj, perr := jid.Parse(j)
			if perr != nil {
				res.Violation = viol("bind-server:reply-address-invalid", "%s: reply %s: %v", desc, full[i:], perr)
				return res
			}
			if cb == 1 && !pj.Equal(chosen) {
				res.Violation = viol("bind-server:reply-not-callback-address", "%s: callback chose %q, reply carries %q", desc, chosen.String(), j)
				return res
			}
			if cb == 0 {
				if pj.Resourcepart() == "" || pj.Bare().String() != "me@example.com" {
					res.Violation = viol("bind-server:reply-address-not-fresh-resource", "%s: reply carries %q", desc, j)
					return res
				}
				assignedRes = append(assignedRes, pj.Resourcepart())
			}
			if err != nil || s.State()&xmpp.Ready == 0 {
				res.Violation = viol("bind-server:not-ready-after-bind", "%s: err=%v", desc, err)
				return res
			}
		}
		if cb >= 1 && (len(gotReq) != n+1 || gotReq[n] != reqRes) {
			res.Violation = viol("bind-server:callback-gets-wrong-resource", "%s: callback saw %q", desc, gotReq)
			return res
		}
	}
	if cb == 0 && len(assignedRes) == 2 && assignedRes[0] == assignedRes[1] {
		res.Violation = viol("bind-server:resource-not-fresh-per-session", "%s: two sessions were both assigned resource %q", desc, assignedRes[0])
	}
	return res
}

func init() {
	drv.Register(&drv.Prop{
		ID:    "C12",
		Level: "model_checking",
		Rule: "emit: 5 own addresses (resourceparts with quotes/&/<>/spaces, non-ASCII) x 2 domains x 3 language strings x c2s/s2s x TCP/WebSocket: the header an initiating library instance sends is checked for well-formedness and handed to a receiving instance, whose answer is handed to another initiating instance; both must report the same to/from/id/version/lang/xmlns. " +
			"accept: every incoming start element from {stream:stream, stream:other, open, foo, stream:error} x stream prefix namespace x 4 xmlns x 16 versions (incl. components that overflow a byte, signs, extra components, blanks) x id x 3 address shapes, on both roles and both framings. restart: every sequence of up to 3 headers with same/different/absent from and to across restarts, both roles. bind: 4 own addresses x 14 server replies (initiator), 4 callbacks x 3 requested resources x 1-2 sessions sharing the feature value (receiver). Non-trivial = every distinct configuration.",
		Assumptions: []string{"'accepted only if' is checked in that direction; a fully valid header with matching addresses must be accepted", "WebSocket framing is driven through websocket.Negotiator over an in-memory stream (no WebSocket handshake)"},
		Parts: func(tier string) []drv.Part {
			b := 2 * time.Minute
			return []drv.Part{
				{Name: "emit", Body: emitBody, CutDepth: 2, Budget: b},
				{Name: "accept", Body: acceptBody, CutDepth: 4, Budget: b},
				{Name: "restart", Body: restartBody, CutDepth: 2, Budget: b},
				{Name: "bind-client", Body: bindClientBody, CutDepth: 1, Budget: b},
				{Name: "bind-server", Body: bindServerBody, CutDepth: 1, Budget: b},
			}
		},
	})
}
