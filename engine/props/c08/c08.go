// Package c08: handlers see one element at a time; stream-level input never reaches them.
package c08

import (
	"encoding/xml"
	"errors"
	"fmt"
	"io"
	"strings"
	"time"

	"mellium.im/xmlstream"
	"mellium.im/xmpp"
	"mellium.im/xmpp/stanza"
	"mellium.im/xmpp/stream"

	"verif/drv"
	"verif/nd"
	"verif/sess"
	"verif/xu"
)

const (
	kElem      = iota // a top-level element: handler invoked, session continues
	kKeepAlive        // ignored
	kElemBad          // a top-level element containing a stream-level construct: handler invoked, then the session ends with an error
	kClose            // </stream:stream>: Serve returns nil
	kStreamErr        // <stream:error>: Serve returns the stream.Error
	kBad              // any other stream-level construct: Serve returns a non-nil error
	kElemStreamErr    // an element with a <stream:error> nested inside: handler invoked, Serve returns that stream error
	kElemTrunc        // an element cut off by the end of input (only as the last item): handler invoked; nil or error
)

type item struct {
	name string
	text string
	kind int
}

const se = `<stream:error><host-gone xmlns='urn:ietf:params:xml:ns:xmpp-streams'/></stream:error>`

var items = []item{
	{"message-own-bare-from", `<message from='me@example.net' type='chat'><body>hi</body><x xmlns='urn:x'><y>t</y></x></message>`, kElem},
	{"message-domain-from", `<message from='example.net' type='chat'><body>d</body></message>`, kElem},
	{"presence-other-from", `<presence from='other@example.net/r'><show>away</show></presence>`, kElem},
	{"non-stanza", `<x xmlns='urn:other' from='me@example.net'><y><z/>t</y></x>`, kElem},
	{"empty-message-full-from", `<message from='me@example.net/res'/>`, kElem},
	{"iq-result-unknown-id", `<iq type='result' id='nobody' from='me@example.net'><q xmlns='urn:q'/></iq>`, kElem},
	{"stanza-named-child", `<message><message xmlns='urn:fwd' from='me@example.net'><stream xmlns='urn:s'/></message></message>`, kElem},
	{"long-message", "<message type='chat'>" + strings.Repeat("<x xmlns='urn:x'/>", 2100) + "<body>end</body></message>", kElem}, // more tokens than any fixed drain limit
	{"keep-alive", " \n\t", kKeepAlive},
	{"close", `</stream:stream>`, kClose},
	{"stream-error", se, kStreamErr},
	{"text", `junk`, kBad},
	{"nbsp", "\u00a0", kBad},
	{"unicode-spaces", " \u2003\u0085\u3000 ", kBad},
	{"comment", `<!-- c -->`, kBad},
	{"procinst", `<?pi x?>`, kBad},
	{"xml-declaration", `<?xml version='1.0'?>`, kBad}, // the one processing instruction a parser knows by name: legal before the header only
	{"directive", `<!DOCTYPE x>`, kBad},
	{"restart", `<stream:stream xmlns='jabber:client' xmlns:stream='http://etherx.jabber.org/streams' version='1.0'>`, kBad},
	{"stream-other", `<stream:other/>`, kBad},
	{"stream-features", `<stream:features><bind xmlns='urn:ietf:params:xml:ns:xmpp-bind'/></stream:features>`, kBad}, // a features list outside negotiation is just another stream-namespace element
	{"bad-close", `</foo>`, kBad},
	{"truncated-element", `<message><body>`, kElemTrunc},
	{"nested1-comment", `<message><!-- c --><body/></message>`, kElemBad},
	{"nested2-comment", `<message><body>a<!-- c --></body></message>`, kElemBad},
	{"nested1-procinst", `<message><?pi x?></message>`, kElemBad},
	{"nested2-directive", `<message><a><b/><!DOCTYPE x></a></message>`, kElemBad},
	{"nested1-stream-error", `<message>` + se + `</message>`, kElemStreamErr},
	{"nested2-stream-error", `<message><a>` + se + `</a></message>`, kElemStreamErr},
	{"nested1-restart", `<message><stream:stream/></message>`, kElemBad},
	{"nested2-stream-other", `<message><a><stream:features/></a></message>`, kElemBad},
	// requests nobody answers (the session adds its own error reply) whose
	// unread part holds a stream-level construct
	{"iq-get-nested-comment", `<iq type='get' id='q1' from='juliet@example.com/r'><q xmlns='urn:q'/><!-- c --><x xmlns='urn:x'/></iq>`, kElemBad},
	{"iq-get-nested2-comment", `<iq type='get' id='q3' from='juliet@example.com/r'><q xmlns='urn:q'><!-- c --></q><x xmlns='urn:x'/></iq>`, kElemBad},
	{"iq-set-nested-stream-error", `<iq type='set' id='q2' from='juliet@example.com/r'><q xmlns='urn:q'/>` + se + `<x xmlns='urn:x'/></iq>`, kElemStreamErr},
}

type invocation struct {
	start   string
	toks    []string
	readErr string // non-EOF error from Token
	pastEnd string // anything other than (nil, EOF) after the end
}

// refTokens tokenises one element in the stream's namespace context and
// returns its start token and the tokens obtainable after it, cut before the
// first stream-level construct.
func refTokens(ns, text string) (start string, rest []string, cut bool) {
	d := xml.NewDecoder(strings.NewReader(sess.Header(ns) + text))
	d.Token() // header
	depth := 0
	first := true
	for {
		t, err := d.Token()
		if err != nil {
			return start, rest, true
		}
		switch tt := t.(type) {
		case xml.Comment, xml.ProcInst, xml.Directive:
			return start, rest, true
		case xml.StartElement:
			if tt.Name.Space == stream.NS {
				return start, rest, true
			}
			depth++
		case xml.EndElement:
			depth--
		}
		s := xu.TokString([]xml.Token{t})
		if first {
			start = s
			first = false
		} else {
			rest = append(rest, s)
		}
		if depth == 0 {
			return start, rest, false
		}
	}
}

func blankOwnFrom(start string) string {
	return strings.Replace(start, ` {}from="me@example.net"`, ` {}from=""`, 1)
}

func body(maxItems int) nd.Body {
	return func(c *nd.Ctx) nd.Result {
		ns := []string{stanza.NSClient, stanza.NSServer}[c.Choose(2, "ns")]
		n := 1 + c.Choose(maxItems, "nitems")
		var seq []item
		for i := 0; i < n; i++ {
			seq = append(seq, items[c.Choose(len(items), "item")])
		}
		for i, it := range seq {
			if it.kind == kElemTrunc && i != len(seq)-1 {
				return nd.Result{Skip: true}
			}
			if it.name == "long-message" && len(seq) > 2 {
				return nd.Result{Skip: true} // (costly to parse: in sequences of one or two items only)
			}
		}
		prog := c.Choose(8, "handler-program")
		setup := c.Choose(3, "session-setup") // 0 plain, 1 own address learned during negotiation, 2 the peer's stream header carried a language
		rebound := setup == 1
		var names []string
		var input strings.Builder
		for _, it := range seq {
			names = append(names, it.name)
			input.WriteString(it.text)
		}
		c.Note("ns=%s items=%v handler-program=%d own-address-learned-during-negotiation=%v header-language=%v", ns, names, prog, rebound, setup == 2)
		res := nd.Result{Outcome: "ok", NonTrivial: fmt.Sprintf("%v/%d/%v", names, prog, setup)}
		fail := func(sig, f string, a ...any) nd.Result {
			res.Outcome = "violation"
			res.Violation = &nd.Violation{Sig: sig, Msg: fmt.Sprintf("ns=%s items=%v handler-program=%d own-address-learned-during-negotiation=%v input=%q: ", ns, names, prog, rebound, input.String()) + fmt.Sprintf(f, a...)}
			return res
		}

		mk := sess.New
		if rebound {
			mk = sess.NewRebound
		}
		if setup == 2 {
			mk = sess.NewLang
		}
		s, _, err := mk(ns, input.String())
		if err != nil {
			panic("c08: session setup failed: " + err.Error())
		}
		var invs []invocation
		handler := xmpp.HandlerFunc(func(t xmlstream.TokenReadEncoder, start *xml.StartElement) error {
			inv := invocation{start: xu.TokString([]xml.Token{*start})}
			want := []int{0, 1, 1 << 20, 1 << 20, 2, 1 << 20, 1 << 20, 1}[prog]
			var rerr error
			for i := 0; i < want; i++ {
				tok, err := t.Token()
				if tok != nil {
					inv.toks = append(inv.toks, xu.TokString([]xml.Token{tok}))
				}
				if err == io.EOF {
					break
				}
				if err != nil {
					inv.readErr = err.Error()
					rerr = err
					if prog == 6 {
						// ignores the error and keeps reading for a while
						for k := 0; k < 3; k++ {
							t.Token()
						}
					}
					break
				}
				if tok == nil || i > 10000 {
					inv.readErr = "nil token with nil error / no end"
					break
				}
			}
			if prog == 3 && rerr == nil {
				for i := 0; i < 3; i++ {
					tok, err := t.Token()
					if tok != nil || err != io.EOF {
						inv.pastEnd = fmt.Sprintf("read %d past the end gave %v, %v", i, tok, err)
					}
				}
			}
			if prog == 4 {
				t.EncodeToken(xml.StartElement{Name: xml.Name{Space: "urn:r", Local: "r"}})
				t.EncodeToken(xml.EndElement{Name: xml.Name{Space: "urn:r", Local: "r"}})
			}
			invs = append(invs, inv)
			if prog == 5 || prog == 6 {
				return nil // swallows read errors
			}
			if prog == 7 && rerr == nil {
				// reads one token and fails with an error that wraps io.EOF: the
				// session ends with an error, it is not the peer's closing tag
				return fmt.Errorf("handler: short payload: %w", io.EOF)
			}
			return rerr
		})
		var serveErr error
		if p := nd.Catch(func() { serveErr = s.Serve(handler) }); p != nil {
			return fail("serve:"+p.Sig(), "panic %s", p.Value)
		}

		// reference
		var want []invocation
		wantEnd := "eof" // eof: nil or error; nil; stream-error; error
		for _, it := range seq {
			stop := false
			switch it.kind {
			case kKeepAlive:
			case kElem, kElemBad, kElemStreamErr, kElemTrunc:
				st, rest, _ := refTokens(ns, it.text)
				if strings.HasPrefix(st, "<{"+ns+"}") { // stanza in the stream's own namespace (or any element of it)
					if l := st[len("<{"+ns+"}"):]; strings.HasPrefix(l, "message") || strings.HasPrefix(l, "iq") || strings.HasPrefix(l, "presence") {
						st = blankOwnFrom(st)
					}
				}
				want = append(want, invocation{start: st, toks: rest})
				if it.kind == kElemBad {
					wantEnd = "error"
					stop = true
				}
				if it.kind == kElemStreamErr {
					wantEnd = "stream-error"
					stop = true
				}
				if prog == 7 {
					// the handler fails on the first element it is given
					wantEnd = "error"
					stop = true
				}
			case kClose:
				wantEnd = "nil"
				stop = true
			case kStreamErr:
				wantEnd = "stream-error"
				stop = true
			case kBad:
				wantEnd = "error"
				stop = true
			}
			if stop {
				break
			}
		}
		res.Outcome = wantEnd
		// compare invocations
		if len(invs) != len(want) {
			var got []string
			for _, i := range invs {
				got = append(got, i.start)
			}
			return fail("handler:invocation-count", "handler invoked %d times %v, reference %d", len(invs), got, len(want))
		}
		for i := range want {
			g, w := invs[i], want[i]
			if g.start != w.start {
				return fail("handler:wrong-start-element", "invocation %d start %s, reference %s", i, g.start, w.start)
			}
			if g.pastEnd != "" {
				return fail("handler:reads-past-end", "invocation %d: %s", i, g.pastEnd)
			}
			limit := []int{0, 1, 1 << 20, 1 << 20, 2, 1 << 20, 1 << 20, 1}[prog]
			exp := w.toks
			if len(exp) > limit {
				exp = exp[:limit]
			}
			if fmt.Sprint(g.toks) != fmt.Sprint(exp) {
				return fail("handler:wrong-tokens", "invocation %d read %v, reference %v", i, g.toks, exp)
			}
		}
		switch wantEnd {
		case "nil":
			if serveErr != nil {
				return fail("serve:error-on-clean-close", "Serve returned %v", serveErr)
			}
		case "stream-error":
			var se stream.Error
			if !errors.As(serveErr, &se) || se.Err != "host-gone" {
				return fail("serve:stream-error-not-returned", "Serve returned %v (%T)", serveErr, serveErr)
			}
		case "error":
			if serveErr == nil {
				sig := "serve:stream-level-construct-ignored"
				if prog == 5 || prog == 6 {
					sig += ":handler-swallows-read-error"
				}
				return fail(sig, "Serve returned nil")
			}
		}
		return res
	}
}

func init() {
	drv.Register(&drv.Prop{
		ID:    "C08",
		Level: "model_checking",
		Rule: "every sequence (up to the tier's length) over 25 top-level items — stanzas with children to depth 2 (own bare / other / full from), non-stanza element, keep-alive, text, comment, PI, directive, stream error, restart, other stream element, closing tag, bad close tag, truncated element, and the stream-level constructs nested at depth 1 and 2 — x 6 handler consumption programs (no tokens, 1, 2 + a write, all, all + reads past the end, all while swallowing read errors) x client/server namespace, fed to the real Session.Serve; " +
			"oracle: a reference splitter (encoding/xml tokenisation of each item on its own) decides invocation count, start elements (from blanking), obtainable tokens and Serve's result class. Non-trivial = distinct (item sequence, handler program).",
		Assumptions: []string{"a raw EOF without </stream:stream> may end Serve with nil or an error (the statement fixes only the closing-tag case)", "sessions are built with a negotiator that consumes the peer's header and returns Ready (public API only)"},
		Parts: func(tier string) []drv.Part {
			k, b := 3, 100*time.Second
			if tier == "thorough" {
				k, b = 4, 20*time.Minute
			}
			return []drv.Part{{Name: "serve", Desc: fmt.Sprintf("sequences of <= %d items", k), Body: body(k), CutDepth: 3, Budget: b}}
		},
	})
}
