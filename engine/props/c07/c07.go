// Package c07: every incoming get/set IQ is answered exactly once; replies are never answered.
package c07

import (
	"encoding/xml"
	"errors"
	"fmt"
	"io"
	"strings"
	"time"

	"mellium.im/xmlstream"
	"mellium.im/xmpp"
	"mellium.im/xmpp/mux"
	"mellium.im/xmpp/jid"
	"mellium.im/xmpp/stanza"
	"mellium.im/xmpp/stream"

	"verif/drv"
	"verif/nd"
	"verif/sess"
	"verif/xu"
)

type req struct {
	kind, typ, id, from, to, payload string
	xmlns                            string // "" = inherited from the stream, else declared on the element
	ext                              bool   // attributes of another namespace that are named like the stanza attributes (and say the opposite)
}

func (r req) doc() string {
	var b strings.Builder
	b.WriteString("<" + r.kind)
	if r.xmlns != "" {
		fmt.Fprintf(&b, " xmlns='%s'", r.xmlns)
	}
	if r.typ != "-" {
		fmt.Fprintf(&b, " type='%s'", r.typ)
	}
	if r.id != "" {
		fmt.Fprintf(&b, " id='%s'", r.id)
	}
	if r.from != "" {
		fmt.Fprintf(&b, " from='%s'", r.from)
	}
	if r.to != "" {
		fmt.Fprintf(&b, " to='%s'", r.to)
	}
	if r.ext {
		opposite := "get"
		if r.typ == "get" || r.typ == "set" {
			opposite = "result"
		}
		fmt.Fprintf(&b, " xmlns:ext='urn:ext' ext:type='%s' ext:id='zz' ext:from='evil@example.org/x'", opposite)
	}
	b.WriteString(">" + r.payload + "</" + r.kind + ">")
	return b.String()
}

var kinds = []string{"iq", "message", "presence"}
var types = []string{"get", "set", "result", "error", "-", "", "bogus"}
var ids = []string{"a", "", " ", "\u00a0"} // the last two: ids are opaque - white space is an id like any other
var froms = []string{"", "juliet@example.com/balcony", "me@example.net", "@@bad", "Juliet@Example.COM/balcony", "me@example.net/res"} // the last one: a spelling that is not the canonical form of the address ; then the address this session is bound to (only the bare form stands for "no sender")
var tos = []string{"", "me@example.net/res", "example.net", "someone@else.example/x"} // the last two: our domain, and an address that is not ours (a gateway, a misrouted request): any to
var payloads = []string{"", `<q xmlns='urn:q'/>`, `<iq xmlns='urn:q' id='a' type='result'/>`, `text`, `<other xmlns='urn:other'><q xmlns='urn:q'/></other>`}

const nPrograms = 20

// program writes to the encoder per the chosen behaviour; returns how many
// matching replies (top-level iq, type result|error, request id) it wrote and
// the error the handler returns.
func program(p int, t xmlstream.TokenReadEncoder, r req) (matching int, herr error) {
	iq := func(typ, id string, inner ...xml.Token) {
		start := xml.StartElement{Name: xml.Name{Local: "iq"}, Attr: []xml.Attr{{Name: xml.Name{Local: "type"}, Value: typ}}}
		if typ == "-" {
			start.Attr = nil
		}
		if id != "" {
			start.Attr = append(start.Attr, xml.Attr{Name: xml.Name{Local: "id"}, Value: id})
		}
		if r.from != "" && r.from != "@@bad" {
			start.Attr = append(start.Attr, xml.Attr{Name: xml.Name{Local: "to"}, Value: r.from})
		}
		t.EncodeToken(start)
		for _, tok := range inner {
			t.EncodeToken(tok)
		}
		t.EncodeToken(start.End())
	}
	errPayload := []xml.Token{
		xml.StartElement{Name: xml.Name{Local: "error"}, Attr: []xml.Attr{{Name: xml.Name{Local: "type"}, Value: "cancel"}}},
		xml.StartElement{Name: xml.Name{Space: stanza.NSError, Local: "item-not-found"}},
		xml.EndElement{Name: xml.Name{Space: stanza.NSError, Local: "item-not-found"}},
		xml.EndElement{Name: xml.Name{Local: "error"}},
	}
	msg := func() {
		s := xml.StartElement{Name: xml.Name{Local: "message"}, Attr: []xml.Attr{{Name: xml.Name{Local: "id"}, Value: r.id}, {Name: xml.Name{Local: "type"}, Value: "result"}}}
		t.EncodeToken(s)
		t.EncodeToken(s.End())
	}
	switch p {
	case 0: // writes nothing
	case 1:
		iq("result", r.id)
		matching = 1
	case 2:
		iq("error", r.id, errPayload...)
		matching = 1
	case 3:
		iq("result", "other")
	case 4:
		iq("get", r.id)
	case 5:
		iq("set", r.id)
	case 6:
		iq("", r.id)
	case 7:
		iq("bogus", r.id)
	case 8: // non-reply then reply
		msg()
		iq("result", r.id)
		matching = 1
	case 9: // reply then an unrelated request
		iq("result", r.id)
		iq("get", "push1")
		matching = 1
	case 10: // reply nested inside another element: not a reply
		w := xml.StartElement{Name: xml.Name{Space: "urn:w", Local: "wrapper"}}
		t.EncodeToken(w)
		iq("result", r.id)
		t.EncodeToken(w.End())
	case 11: // reply with a nested iq-named child
		inner := xml.StartElement{Name: xml.Name{Space: "urn:q", Local: "iq"}, Attr: []xml.Attr{{Name: xml.Name{Local: "id"}, Value: r.id}, {Name: xml.Name{Local: "type"}, Value: "get"}}}
		iq("result", r.id, inner, inner.End())
		matching = 1
	case 12:
		herr = errors.New("handler failed")
	case 13:
		iq("result", r.id)
		matching = 1
		herr = errors.New("handler failed after replying")
	case 14: // wrapper containing nested iq first, then a get with the same id, then nothing
		w := xml.StartElement{Name: xml.Name{Space: "urn:w", Local: "wrapper"}}
		t.EncodeToken(w)
		t.EncodeToken(w.End())
		iq("-", r.id)
	}
	if p == 19 {
		// the reply is addressed as the library's own handlers address theirs:
		// to the parsed (canonical) form of the sender's address
		start := xml.StartElement{Name: xml.Name{Local: "iq"}, Attr: []xml.Attr{{Name: xml.Name{Local: "type"}, Value: "result"}}}
		if r.id != "" {
			start.Attr = append(start.Attr, xml.Attr{Name: xml.Name{Local: "id"}, Value: r.id})
		}
		if j, err := jid.Parse(r.from); err == nil && r.from != "" {
			start.Attr = append(start.Attr, xml.Attr{Name: xml.Name{Local: "to"}, Value: j.String()})
		}
		t.EncodeToken(start)
		t.EncodeToken(start.End())
		matching = 1
	}
	if p == 18 {
		// writes nothing and fails with a stanza-level error value
		herr = stanza.Error{Type: stanza.Cancel, Condition: stanza.ItemNotFound}
	}
	if p == 17 {
		// fails with an error that wraps io.EOF (eg. a decoder that ran out of
		// input inside the payload): an error like any other, not the peer's
		// closing tag
		herr = fmt.Errorf("handler: payload truncated: %w", io.EOF)
	}
	switch p {
	case 15, 16: // the reply is written through the encoder's value methods
		type reply struct {
			XMLName xml.Name `xml:"iq"`
			Type    string   `xml:"type,attr"`
			ID      string   `xml:"id,attr,omitempty"`
			To      string   `xml:"to,attr,omitempty"`
		}
		v := reply{Type: "result", ID: r.id}
		if r.from != "" && r.from != "@@bad" {
			v.To = r.from
		}
		if p == 15 {
			t.Encode(v)
		} else {
			start := xml.StartElement{Name: xml.Name{Local: "iq"}}
			t.EncodeElement(v, start)
		}
		matching = 1
	}
	if r.id == "" && matching > 0 {
		matching = 0 // without an id nothing can match
	}
	return
}

func body(c *nd.Ctx) nd.Result {
	ns := []string{stanza.NSClient, stanza.NSServer}[c.Choose(2, "ns")]
	r := req{kind: kinds[c.Choose(len(kinds), "kind")]}
	r.typ = types[c.Choose(len(types), "type")]
	r.id = ids[c.Choose(len(ids), "id")]
	r.from = froms[c.Choose(len(froms), "from")]
	r.to = tos[c.Choose(len(tos), "to")]
	r.payload = payloads[c.Choose(len(payloads), "payload")]
	if c.Choose(2, "element-namespace") == 1 {
		// the stanza declares the other stanza namespace (a jabber:server iq on
		// a client stream and vice versa): the session treats it as a stanza
		r.xmlns = map[string]string{stanza.NSClient: stanza.NSServer, stanza.NSServer: stanza.NSClient}[ns]
	}
	r.ext = c.Choose(2, "foreign-namespace-attributes-named-like-stanza-attributes") == 1
	prog := c.Choose(nPrograms, "handler-program")
	readAll := c.Choose(2, "handler-reads-payload") == 1
	wiring := c.Choose(3, "wiring") // 0 bare handler, 1 mux with matching IQ handler(s), 2 mux without
	precede := c.Choose(2, "preceded-by-answered-request") == 1
	if (r.ext || r.id == " " || r.id == "\u00a0") && (r.to != tos[0] || r.payload != payloads[1] || r.xmlns != "" || precede) {
		// the rarer header shapes are combined with the first value of the
		// dimensions that do not look at the header
		return nd.Result{Skip: true}
	}
	doc := r.doc()
	c.Note("ns=%s request=%s handler-program=%d reads-payload=%v wiring=%d preceded=%v", ns, doc, prog, readAll, wiring, precede)
	res := nd.Result{Outcome: "no-reply-needed", NonTrivial: fmt.Sprintf("%s|%d|%v|%d|%v|%s", doc, prog, readAll, wiring, precede, ns)}
	fail := func(sig, f string, a ...any) nd.Result {
		res.Outcome = "violation"
		res.Violation = &nd.Violation{Sig: sig, Msg: fmt.Sprintf("ns=%s request=%s handler-program=%d reads-payload=%v wiring=%d preceded=%v: ", ns, doc, prog, readAll, wiring, precede) + fmt.Sprintf(f, a...)}
		return res
	}

	input := doc + `</stream:stream>`
	if precede {
		input = `<iq type='get' id='first' from='romeo@example.net/x'><q xmlns='urn:q'/></iq>` + input
	}
	s, rw, err := sess.New(ns, input)
	if err != nil {
		panic("c07: setup: " + err.Error())
	}
	invoked := 0
	matching := 0
	var herr error
	calls := 0
	run := func(t xmlstream.TokenReadEncoder) error {
		calls++
		if precede && calls == 1 {
			// the first request is answered properly
			st := xml.StartElement{Name: xml.Name{Local: "iq"}, Attr: []xml.Attr{{Name: xml.Name{Local: "type"}, Value: "result"}, {Name: xml.Name{Local: "id"}, Value: "first"}}}
			t.EncodeToken(st)
			t.EncodeToken(st.End())
			return nil
		}
		invoked++
		if readAll {
			xmlstream.Copy(xmlstream.Discard(), t)
		}
		var m int
		m, herr = program(prog, t, r)
		matching += m
		return herr
	}
	var h xmpp.Handler
	switch wiring {
	case 0:
		h = xmpp.HandlerFunc(func(t xmlstream.TokenReadEncoder, start *xml.StartElement) error { return run(t) })
	case 1:
		var opts []mux.Option
		for _, ty := range []stanza.IQType{"get", "set", "result", "error", "", "bogus"} {
			opts = append(opts, mux.IQFunc(ty, xml.Name{}, func(iq stanza.IQ, t xmlstream.TokenReadEncoder, start *xml.StartElement) error { return run(t) }))
		}
		opts = append(opts,
			mux.MessageFunc("", xml.Name{}, func(m stanza.Message, t xmlstream.TokenReadEncoder) error { return run(t) }),
			mux.MessageFunc("normal", xml.Name{}, func(m stanza.Message, t xmlstream.TokenReadEncoder) error { return run(t) }),
			mux.PresenceFunc("", xml.Name{}, func(m stanza.Presence, t xmlstream.TokenReadEncoder) error { return run(t) }))
		h = mux.New(ns, opts...)
	case 2:
		if precede {
			return nd.Result{Skip: true}
		}
		h = mux.New(ns)
	}
	var serveErr error
	if p := nd.Catch(func() { serveErr = s.Serve(h) }); p != nil {
		return fail("serve:"+p.Sig(), "panic %s", p.Value)
	}
	out := rw.Out.String()
	roots, perr := xu.Parse([]byte(sess.Header(ns) + out))
	if perr != nil || len(roots) != 1 {
		return fail("wire:output-malformed", "output %q: %v", out, perr)
	}
	var replies, auto, streamErrs int
	var autoTo string
	for _, el := range roots[0].Children {
		if el.Name.Local == "error" && el.Name.Space == stream.NS {
			streamErrs++
		}
		if el.Name.Local != "iq" || (el.Name.Space != stanza.NSClient && el.Name.Space != stanza.NSServer) {
			continue
		}
		ty, _ := el.AttrVal("", "type")
		id, _ := el.AttrVal("", "id")
		if (ty == "result" || ty == "error") && id == r.id && r.id != "" {
			replies++
		}
		if ty == "error" && strings.Contains(el.String(), "service-unavailable") {
			auto++
			autoTo, _ = el.AttrVal("", "to")
			if id != r.id && r.id != "" {
				return fail("auto-reply:wrong-id", "automatic reply has id %q: %s", id, out)
			}
		}
	}
	needs := r.kind == "iq" && (r.typ == "get" || r.typ == "set")
	if !needs {
		// IQs with a missing or undefined type are invalid; the statement only
		// speaks about result/error IQs and other stanzas.
		invalidType := r.kind == "iq" && r.typ != "result" && r.typ != "error"
		if auto != 0 && !invalidType {
			return fail("auto-reply:for-non-request", "an automatic service-unavailable was sent: %s", out)
		}
		if replies > matching && !invalidType {
			return fail("auto-reply:for-non-request", "%d reply IQs with the stanza's id are on the wire, the handler wrote %d: %s", replies, matching, out)
		}
		return res
	}
	// The session sends its stream errors without flushing them (known
	// observation, pinned by the repository's own TestServe expectations), so
	// "terminated with a stream error" is judged by Serve's result.
	if streamErrs > 0 || serveErr != nil {
		res.Outcome = "stream-error"
		if auto > 0 && matching > 0 {
			return fail("auto-reply:both-handler-and-automatic", "output %s", out)
		}
		return res
	}
	if r.id == "" {
		res.Outcome = "request-without-id"
		return res
	}
	if wiring == 2 || (wiring == 1 && invoked == 0) {
		matching += 0 // the mux's own fallback is also "the session's" default reply: counted through auto
	}
	res.Outcome = "answered-by-handler"
	if matching == 0 {
		res.Outcome = "answered-automatically"
	}
	switch {
	case matching > 0 && auto > 0:
		return fail("auto-reply:both-handler-and-automatic", "the handler replied and a service-unavailable was added as well: %s (Serve: %v)", out, serveErr)
	case matching == 0 && auto == 0:
		return fail("auto-reply:request-never-answered", "no reply with id %q on the wire: %s (Serve: %v)", r.id, out, serveErr)
	case matching == 0 && auto > 1:
		return fail("auto-reply:answered-twice", "%d automatic replies: %s", auto, out)
	case replies != matching+auto:
		return fail("auto-reply:reply-count", "%d replies with the request id on the wire, handler wrote %d, automatic %d: %s", replies, matching, auto, out)
	}
	sameAddr := func(a, b string) bool {
		// the canonical form of an address names the same entity
		ja, ea := jid.Parse(a)
		jb, eb := jid.Parse(b)
		return a == b || (ea == nil && eb == nil && ja.Equal(jb))
	}
	if matching == 0 && r.from != "" && r.from != "me@example.net" && !sameAddr(autoTo, r.from) {
		return fail("auto-reply:not-addressed-to-sender", "automatic reply to=%q, request from=%q: %s", autoTo, r.from, out)
	}
	return res
}

func init() {
	drv.Register(&drv.Prop{
		ID:    "C07",
		Level: "model_checking",
		Rule: "full product: {iq,message,presence} x 7 types (get,set,result,error,absent,empty,bogus) x id present/absent x 4 from (absent, valid, own bare, unparsable) x 2 to x 5 payload shapes x client/server namespace x 15 handler programs (nothing; matching result/error; other id; same id with get/set/empty/bogus/no type; non-reply then reply; reply then a push; reply nested in a wrapper; reply with nested iq-named child; returns error; reply + error) x reads payload or not x {bare handler, mux with handler, mux without} x {first stanza, after an earlier answered request}, each run through the real Session.Serve on a scripted connection; " +
			"oracle: the wire output is parsed and top-level reply IQs with the request id counted against what the handler program wrote. Non-trivial = every distinct configuration.",
		Assumptions: []string{"requests without an id and requests whose from is the session's own bare address are not checked for the to of the automatic reply", "a handler that replies and returns an error yields reply + stream error: accepted"},
		Parts: func(tier string) []drv.Part {
			return []drv.Part{{Name: "serve", Body: body, CutDepth: 4, Budget: 5 * time.Minute}}
		},
	})
}
