package c06

import (
	"context"
	"encoding/xml"
	"fmt"
	"strings"

	"mellium.im/xmlstream"
	"mellium.im/xmpp"
	"mellium.im/xmpp/mux"
	"mellium.im/xmpp/receipts"
	"mellium.im/xmpp/stanza"

	"verif/nd"
	"verif/vs"
	"verif/vsess"
)

var receiptPlans = []string{"receipt-now", "receipt-late", "duplicate-receipt", "never", "unknown-id-then-receipt", "receipt-then-error-message"}

// receiptsBody: receipts.Handler.SendMessageElement blocks until the delivery
// receipt for its message arrives or its context is cancelled.
func receiptsBody(nsend int) nd.Body {
	return func(c *nd.Ctx) nd.Result {
		planOf := make([]int, nsend)
		for i := range planOf {
			planOf[i] = c.Choose(len(receiptPlans), "peer-plan")
		}
		sendFails := c.Choose(2, "output-closed-before-send") == 1 && nsend == 1
		// without a canceller every call can only end with its receipt: a receipt
		// that is lost (handled before the sender waits for it, say) leaves the
		// call waiting for good, which the scheduler reports
		withCanceller := c.Choose(2, "nobody-cancels") == 0
		if !withCanceller {
			if sendFails {
				return nd.Result{Skip: true}
			}
			for _, p := range planOf {
				if pl := receiptPlans[p]; pl == "never" || pl == "receipt-late" {
					return nd.Result{Skip: true}
				}
			}
		}
		ns := stanza.NSClient
		type outcome struct {
			returned, cancelled bool
			err                 error
		}
		outs := make([]outcome, nsend)
		var topLevel []string // ids of stanzas the serve loop dispatched
		var unhandled []string
		var env *vsess.Env
		var setupErr error
		receiptsSent := map[string]int{}
		type inst struct {
			id string
			n  int
		}
		instOf := map[string]inst{} // id of a receipt message -> (acknowledged id, instance)
		var dispatching inst
		lostReceipt := ""
		var late []string // ids whose receipt is sent only after every sender has returned
		ctxs := make([]context.Context, nsend)
		cancels := make([]context.CancelFunc, nsend)
		for i := range ctxs {
			ctxs[i], cancels[i] = context.WithCancel(context.Background())
		}
		out := vs.Run(c, vs.Options{Horizon: 20000}, func() {
			env, setupErr = vsess.New(ns, 0)
			if setupErr != nil {
				return
			}
			h := &receipts.Handler{Unhandled: func(id string) {
				unhandled = append(unhandled, id)
				// the first receipt for a message whose sender is still waiting (not
				// cancelled, not returned) is a response somebody waits for
				var idx int
				if n, _ := fmt.Sscanf(id, "m%d", &idx); n == 1 && idx >= 1 && idx <= nsend && dispatching.id == id && dispatching.n == 1 &&
					!outs[idx-1].returned && ctxs[idx-1].Err() == nil && !sendFails && lostReceipt == "" {
					lostReceipt = id
				}
			}}
			m := mux.New(ns, receipts.Handle(h))
			answered := map[string]bool{}
			var seenOut strings.Builder
			receipt := func(id string) string {
				receiptsSent[id]++
				mid := fmt.Sprintf("rc%d", len(receiptsSent)*10+receiptsSent[id])
				instOf[mid] = inst{id, receiptsSent[id]}
				return fmt.Sprintf(`<message from='example.net' id='%s'><received xmlns='urn:xmpp:receipts' id='%s'/></message>`, mid, id)
			}
			env.Lib.OnWrite = func(p []byte) {
				seenOut.Write(p)
				for _, el := range vsess.TopLevel(ns, seenOut.String()) {
					id := el.Attr("id")
					if el.Start.Name.Local != "message" || !strings.HasPrefix(id, "m") || answered[id] {
						continue
					}
					answered[id] = true
					var idx int
					fmt.Sscanf(id, "m%d", &idx)
					switch receiptPlans[planOf[idx-1]] {
					case "receipt-now":
						env.PeerWrite(receipt(id))
					case "receipt-late":
						late = append(late, id)
					case "duplicate-receipt":
						env.PeerWrite(receipt(id))
						env.PeerWrite(receipt(id))
					case "never":
					case "unknown-id-then-receipt":
						env.PeerWrite(receipt("zz" + id))
						env.PeerWrite(receipt(id))
					case "receipt-then-error-message":
						env.PeerWrite(receipt(id))
						env.PeerWrite(fmt.Sprintf(`<message type='error' id='%s'><received xmlns='urn:xmpp:receipts' id='%s'/></message>`, id, id))
					}
				}
			}
			env.Serve(xmpp.HandlerFunc(func(t xmlstream.TokenReadEncoder, start *xml.StartElement) error {
				dispatching = inst{}
				for _, a := range start.Attr {
					if a.Name.Local == "id" {
						topLevel = append(topLevel, a.Value)
						dispatching = instOf[a.Value]
					}
				}
				return m.HandleXMPP(t, start)
			}))
			if sendFails {
				// the application already closed the session's output: the send fails
				env.S.Close()
			}
			send := func(i int) {
				id := fmt.Sprintf("m%d", i+1)
				err := h.SendMessageElement(ctxs[i], env.S, xmlstream.Wrap(xmlstream.Token(xml.CharData("hi")), xml.StartElement{Name: xml.Name{Local: "body"}}),
					stanza.Message{ID: id, Type: stanza.ChatMessage})
				outs[i].err = err
				outs[i].cancelled = ctxs[i].Err() != nil
				vs.Atomically(func() { outs[i].returned = true })
			}
			if withCanceller {
				vs.GoNamed("canceller", false, func() {
					for i := range cancels {
						vs.Yield("cancel")
						cancels[i]()
					}
				})
			}
			for i := 0; i < nsend-1; i++ {
				i := i
				vs.GoNamed(fmt.Sprintf("send%d", i+1), false, func() { send(i) })
			}
			send(nsend - 1)
			vsess.Wait("senders-done", func() bool {
				for i := range outs {
					if !outs[i].returned {
						return false
					}
				}
				return true
			})
			for _, id := range late {
				env.PeerWrite(receipt(id))
			}
			if sendFails {
				// a receipt for the message whose transmission failed
				env.PeerWrite(receipt("m1"))
			}
			env.PeerWrite(`<message id='sentinel'><body/></message></stream:stream>`)
			vsess.Wait("serve-done", func() bool { return env.ServeDone })
		})
		if setupErr != nil {
			panic("c06: setup: " + setupErr.Error())
		}
		var pn []string
		for _, p := range planOf {
			pn = append(pn, receiptPlans[p])
		}
		desc := fmt.Sprintf("receipts plans=%v output-closed-before-send=%v canceller=%v", pn, sendFails, withCanceller)
		c.Note("%s outcome=%s", desc, out.Kind)
		for _, t := range out.Trace {
			c.Note("  %s", t)
		}
		res := nd.Result{Outcome: out.Kind}
		fail := func(sig, f string, a ...any) nd.Result {
			res.Violation = &nd.Violation{Sig: "receipts:" + sig, Msg: desc + fmt.Sprintf(" [senders=%+v dispatched=%v unhandled=%v]: ", outs, topLevel, unhandled) + fmt.Sprintf(f, a...)}
			return res
		}
		switch out.Kind {
		case "panic":
			return fail(out.Panic.Sig(), "panic in thread %s: %s\n%s", out.PanicIn, out.Panic.Value, out.Panic.Stack)
		case "deadlock":
			sig := "permanent-stall"
			for _, b := range out.Blocked {
				if strings.HasPrefix(b, "serve:") && strings.Contains(b, "send") {
					sig = "serve-loop-stalled-on-receipt"
				}
			}
			return fail(sig, "nothing can run; blocked threads: %v", out.Blocked)
		case "horizon":
			return fail("does-not-terminate", "blocked: %v", out.Blocked)
		}
		for i, o := range outs {
			id := fmt.Sprintf("m%d", i+1)
			switch {
			case o.err == nil:
				if receiptsSent[id] == 0 {
					return fail("returned-without-receipt", "%s returned nil but the peer never sent a receipt for it", id)
				}
			case sendFails:
			case !o.cancelled:
				return fail("error-without-cancellation", "%s returned %v although its context was not cancelled", id, o.err)
			}
		}
		if lostReceipt != "" {
			return fail("receipt-for-waiting-call-went-to-unhandled", "the first receipt for %s was reported as unhandled while its sender was waiting for it (not cancelled, not returned)", lostReceipt)
		}
		// a receipt that arrives after its call has returned (given up) is a
		// response nobody waits for: it goes to the handler's Unhandled callback
		for _, id := range late {
			n := 0
			for _, u := range unhandled {
				if u == id {
					n++
				}
			}
			if n != 1 {
				return fail("late-receipt-not-reported-as-unhandled", "the receipt for %s arrived after its call had returned; Unhandled was called %d times for it", id, n)
			}
		}
		if len(topLevel) == 0 || topLevel[len(topLevel)-1] != "sentinel" {
			return fail("serve-loop-stalled", "the sentinel stanza was never dispatched")
		}
		if outs[0].cancelled {
			res.NonTrivial = fmt.Sprint(c.Vector())
		}
		return res
	}
}
