// Package c06: every correlated wait ends exactly once with its own reply or its context error.
package c06

import (
	"context"
	"encoding/xml"
	"fmt"
	"io"
	"strings"
	"time"

	"mellium.im/xmlstream"
	"mellium.im/xmpp"
	"mellium.im/xmpp/stanza"

	"verif/drv"
	"verif/nd"
	"verif/vs"
	"verif/vsess"
)

var plans = []string{"reply-now", "reply-deferred", "duplicate-now", "wrong-kind-then-reply", "unknown-id-then-reply", "never", "error-reply-now", "request-with-same-id-then-reply"}

type seenStanza struct {
	name, id, typ, n string
}

type reqOutcome struct {
	returned  bool
	sendDone  bool // the blocking call itself has returned (a response may still be open)
	err       error
	cancelled bool // its context was cancelled before it returned
	got       seenStanza
	readErr   string
}

func marker(n int) string { return fmt.Sprintf(`<a xmlns='urn:a' n='%d'/>`, n) }

// reply renders a correlated reply for the given request kind.
func replyXML(kind, id, typ string, n int) string {
	switch kind {
	case "iq":
		return fmt.Sprintf(`<iq type='%s' id='%s'>%s</iq>`, typ, id, marker(n))
	default: // tracked messages and presences are answered by type='error' stanzas
		return fmt.Sprintf(`<%s type='error' id='%s'>%s</%s>`, kind, id, marker(n), kind)
	}
}

func otherKind(kind string) string {
	if kind == "iq" {
		return "message"
	}
	return "iq"
}

func readMarker(r xml.TokenReader, how int) (n string, rerr string) {
	// how: 0 read nothing, 1 one token, 2 everything
	limit := []int{0, 1, 1 << 20}[how]
	for i := 0; i < limit; i++ {
		t, err := r.Token()
		if se, ok := t.(xml.StartElement); ok && se.Name.Local == "a" {
			for _, a := range se.Attr {
				if a.Name.Local == "n" {
					n = a.Value
				}
			}
		}
		if err == io.EOF {
			break
		}
		if err != nil {
			return n, err.Error()
		}
	}
	return n, ""
}

// idShapes: how the request names itself. 0: the caller supplies the id; 1: an
// empty id attribute; 2: no id attribute (the library chooses the id in both);
// 3: id supplied, element name qualified by the stream's namespace.
func correlatedBody(kind string, nreq int, planSet []int, idShapes ...int) nd.Body {
	return func(c *nd.Ctx) nd.Result {
		idShape := 0
		if len(idShapes) > 0 {
			if nreq != 1 {
				panic("c06: generated ids are explored with one requester")
			}
			idShape = idShapes[c.Choose(len(idShapes), "id-shape")]
		}
		ids := make([]string, nreq)
		for i := range ids {
			ids[i] = fmt.Sprintf("r%d", i+1)
		}
		planOf := make([]int, nreq)
		consume := make([]int, nreq)
		for i := range planOf {
			planOf[i] = planSet[c.Choose(len(planSet), "peer-plan")]
			if plans[planOf[i]] == "request-with-same-id-then-reply" && kind != "iq" {
				return nd.Result{Skip: true}
			}
			consume[i] = c.Choose(3, "consume")
		}
		// without a canceller a call can only end with its reply: a reply that is
		// lost on the way (consumed by nobody) leaves the call waiting for good,
		// which the scheduler reports as a deadlock
		withCanceller := c.Choose(2, "nobody-cancels") == 0
		if !withCanceller {
			for _, p := range planOf {
				if pl := plans[p]; pl == "never" || pl == "reply-deferred" {
					return nd.Result{Skip: true}
				}
			}
		}
		ns := stanza.NSClient
		outs := make([]reqOutcome, nreq)
		var handled []seenStanza
		var sent []seenStanza // reply instances the peer sent (n = instance)
		var setupErr error
		var env *vsess.Env
		var misrouted []string
		sentAfterReturn := map[string]bool{} // reply instances the peer sent after the request's caller had returned
		var answered map[string]bool
		ctxs := make([]context.Context, nreq)
		cancels := make([]context.CancelFunc, nreq)
		out := vs.Run(c, vs.Options{Horizon: 20000}, func() {
			env, setupErr = vsess.New(ns, 0)
			if setupErr != nil {
				return
			}
			// The peer is reactive: it answers inside the library's Write (no
			// thread of its own; when the serve loop gets to see the answer is
			// still up to the scheduler), which keeps the interleaving space to
			// the threads that matter: requesters, canceller, serve loop and the
			// library's own per-send deadline goroutines.
			answered = map[string]bool{}
			var deferred []string
			inst := 0
			var seenOut strings.Builder
			send := func(x string, st seenStanza) {
				env.PeerWrite(x)
				if st.n != "" {
					sent = append(sent, st)
				}
			}
			rep := func(id, typ string) (string, seenStanza) {
				inst++
				t := typ
				if kind != "iq" {
					t = "error"
				}
				return replyXML(kind, id, typ, inst), seenStanza{name: kind, id: id, typ: t, n: fmt.Sprint(inst)}
			}
			env.Lib.OnWrite = func(p []byte) {
				seenOut.Write(p)
				for _, el := range vsess.TopLevel(ns, seenOut.String()) {
					id := el.Attr("id")
					if idShape != 0 && el.Start.Name.Local == kind && id != "" && !answered[id] && len(answered) == 0 {
						ids[0] = id // the id the library chose for the only request
					} else if el.Start.Name.Local != kind || !strings.HasPrefix(id, "r") || answered[id] {
						continue
					}
					answered[id] = true
					idx := 1
					if idShape == 0 {
						fmt.Sscanf(id, "r%d", &idx)
					}
					switch plans[planOf[idx-1]] {
					case "reply-now":
						send(rep(id, "result"))
					case "reply-deferred":
						deferred = append(deferred, id)
					case "duplicate-now":
						send(rep(id, "result"))
						send(rep(id, "result"))
					case "wrong-kind-then-reply":
						inst++
						ok := otherKind(kind)
						send(fmt.Sprintf(`<%s type='error' id='%s'>%s</%s>`, ok, id, marker(inst), ok), seenStanza{name: ok, id: id, typ: "error", n: fmt.Sprint(inst)})
						send(rep(id, "result"))
					case "unknown-id-then-reply":
						send(rep("zz"+id, "result"))
						send(rep(id, "result"))
					case "never":
					case "error-reply-now":
						send(rep(id, "error"))
					case "request-with-same-id-then-reply":
						inst++
						send(fmt.Sprintf(`<iq type='get' id='%s'>%s</iq>`, id, marker(inst)), seenStanza{name: "iq", id: id, typ: "get", n: fmt.Sprint(inst)})
						send(rep(id, "result"))
					}
				}
			}
			env.Serve(xmpp.HandlerFunc(func(t xmlstream.TokenReadEncoder, start *xml.StartElement) error {
				st := seenStanza{name: start.Name.Local}
				for _, a := range start.Attr {
					switch a.Name.Local {
					case "id":
						st.id = a.Value
					case "type":
						st.typ = a.Value
					}
				}
				st.n, _ = readMarker(t, 2)
				handled = append(handled, st)
				// a reply for a caller that is still waiting with a live context
				// belongs to that caller, not to the handler
				if st.name == kind && (st.typ == "error" || (kind == "iq" && st.typ == "result")) {
					for i := range outs {
						if ids[i] == st.id && answered[st.id] && !outs[i].sendDone && ctxs[i] != nil && ctxs[i].Err() == nil {
							misrouted = append(misrouted, fmt.Sprintf("%+v", st))
						}
					}
				}
				return nil
			}))
			request := func(i int) {
				id := fmt.Sprintf("r%d", i+1)
				var resp xmlstream.TokenReadCloser
				var err error
				payload := xmlstream.Wrap(nil, xml.StartElement{Name: xml.Name{Space: "urn:q", Local: "q"}})
				if idShape != 0 {
					// the start element is spelled out: the id attribute is empty or absent
					st := xml.StartElement{Name: xml.Name{Local: kind}}
					switch kind {
					case "iq":
						st.Attr = append(st.Attr, xml.Attr{Name: xml.Name{Local: "type"}, Value: "get"})
					case "message":
						st.Attr = append(st.Attr, xml.Attr{Name: xml.Name{Local: "type"}, Value: "chat"})
					}
					switch idShape {
					case 1:
						st.Attr = append(st.Attr, xml.Attr{Name: xml.Name{Local: "id"}, Value: ""})
					case 3:
						// the id is given and the element name already carries the
						// stream's namespace (a stanza rebuilt from a received one)
						st.Name.Space = ns
						st.Attr = append(st.Attr, xml.Attr{Name: xml.Name{Local: "id"}, Value: id})
					}
					payload = xmlstream.Wrap(payload, st)
				}
				switch {
				case idShape != 0 && kind == "iq":
					resp, err = env.S.SendIQ(ctxs[i], payload)
				case idShape != 0 && kind == "message":
					resp, err = env.S.SendMessage(ctxs[i], payload)
				case idShape != 0 && kind == "presence":
					resp, err = env.S.SendPresence(ctxs[i], payload)
				}
				if idShape == 0 {
					switch kind {
					case "iq":
						resp, err = env.S.SendIQ(ctxs[i], stanza.IQ{ID: id, Type: stanza.GetIQ}.Wrap(payload))
					case "message":
						resp, err = env.S.SendMessage(ctxs[i], stanza.Message{ID: id, Type: stanza.ChatMessage}.Wrap(payload))
					case "presence":
						resp, err = env.S.SendPresence(ctxs[i], stanza.Presence{ID: id}.Wrap(payload))
					}
				}
				o := &outs[i]
				o.sendDone = true
				o.err = err
				o.cancelled = ctxs[i].Err() != nil
				if err == nil && resp != nil {
					tok, terr := resp.Token()
					if se, ok := tok.(xml.StartElement); ok {
						o.got.name = se.Name.Local
						for _, a := range se.Attr {
							switch a.Name.Local {
							case "id":
								o.got.id = a.Value
							case "type":
								o.got.typ = a.Value
							}
						}
					} else {
						o.readErr = fmt.Sprintf("first token %T %v", tok, terr)
					}
					var rerr string
					o.got.n, rerr = readMarker(resp, consume[i])
					if rerr != "" {
						o.readErr = rerr
					}
					if cerr := resp.Close(); cerr != nil {
						o.readErr += " close: " + cerr.Error()
					}
				}
				o.cancelled = ctxs[i].Err() != nil
				vs.Atomically(func() { o.returned = true })
			}
			for i := 0; i < nreq; i++ {
				ctxs[i], cancels[i] = context.WithCancel(context.Background())
			}
			if withCanceller {
				vs.GoNamed("canceller", false, func() {
					for i := 0; i < nreq; i++ {
						vs.Yield("cancel")
						cancels[i]()
					}
				})
			}
			// the last requester runs in the main thread
			for i := 0; i < nreq-1; i++ {
				i := i
				vs.GoNamed(fmt.Sprintf("req%d", i+1), false, func() { request(i) })
			}
			request(nreq - 1)
			vsess.Wait("requesters-done", func() bool {
				for i := range outs {
					if !outs[i].returned {
						return false
					}
				}
				return true
			})
			// late answers, a sentinel, and the peer closes its stream
			for _, id := range deferred {
				x, st := rep(id, "result")
				// sent after every requester has returned: nobody waits for it any more
				sentAfterReturn[st.n] = true
				send(x, st)
			}
			inst++
			send(fmt.Sprintf(`<message id='sentinel'>%s</message>`, marker(inst)), seenStanza{name: "message", id: "sentinel", n: fmt.Sprint(inst)})
			env.PeerWrite(`</stream:stream>`)
			vsess.Wait("serve-done", func() bool { return env.ServeDone })
		})
		var planNames []string
		for i := range planOf {
			planNames = append(planNames, fmt.Sprintf("%s/consume=%d", plans[planOf[i]], consume[i]))
		}
		desc := fmt.Sprintf("%s requests=%v", kind, planNames)
		if idShape != 0 {
			desc += fmt.Sprintf(" id-shape=%s", []string{"given", "empty-attribute", "absent", "given-with-namespaced-name"}[idShape])
		}
		c.Note("%s outcome=%s", desc, out.Kind)
		for _, t := range out.Trace {
			c.Note("  %s", t)
		}
		res := nd.Result{Outcome: out.Kind}
		if setupErr != nil {
			panic("c06: setup: " + setupErr.Error())
		}
		fail := func(sig, f string, a ...any) nd.Result {
			res.Violation = &nd.Violation{Sig: kind + ":" + sig, Msg: desc + fmt.Sprintf(" [requesters=%+v handler-saw=%+v peer-sent=%+v serve-err=%v]: ", outs, handled, sent, env.ServeErr) + fmt.Sprintf(f, a...)}
			return res
		}
		switch out.Kind {
		case "panic":
			return fail(out.Panic.Sig(), "panic in thread %s: %s\n%s", out.PanicIn, out.Panic.Value, out.Panic.Stack)
		case "deadlock":
			return fail("permanent-stall", "nothing can run; blocked threads: %v", out.Blocked)
		case "horizon":
			return fail("does-not-terminate", "blocked: %v", out.Blocked)
		}
		if len(misrouted) > 0 {
			return fail("reply-given-to-handler-while-caller-waits", "the handler was given %v although the request with that id was still waiting and its context was live", misrouted)
		}
		// per-call outcome
		consumed := map[string]int{}
		nontrivial := false
		for i, o := range outs {
			id := ids[i]
			switch {
			case o.err != nil:
				if !o.cancelled {
					return fail("error-without-cancellation", "request %s returned %v although its context was not cancelled", id, o.err)
				}
				nontrivial = true
			default:
				wantType := map[string]bool{"result": true, "error": true}
				if kind != "iq" {
					wantType = map[string]bool{"error": true}
				}
				if o.got.name != kind || o.got.id != id || !wantType[o.got.typ] {
					return fail("wrong-response-delivered", "request %s received <%s id=%q type=%q>", id, o.got.name, o.got.id, o.got.typ)
				}
				if o.readErr != "" {
					return fail("response-read-error", "request %s: %s", id, o.readErr)
				}
				if o.got.n != "" {
					consumed[o.got.n]++
				}
			}
		}
		for n, k := range consumed {
			if k > 1 {
				return fail("response-delivered-twice", "reply instance %s reached %d callers", n, k)
			}
		}
		// every stanza the peer sent is accounted for
		seenByHandler := map[string]bool{}
		for _, h := range handled {
			if seenByHandler[h.n] && h.n != "" {
				return fail("handled-twice", "instance %s reached the handler twice", h.n)
			}
			seenByHandler[h.n] = true
		}
		for _, st := range sent {
			byCaller := consumed[st.n] > 0
			// a caller that did not read the marker still consumed its reply: find by id
			if !byCaller {
				for i, o := range outs {
					if o.err == nil && ids[i] == st.id && o.got.n == "" && st.name == kind && (st.typ == "result" || st.typ == "error") {
						// it consumed one reply instance with that id without reading the marker:
						// attribute the first unaccounted one to it
						byCaller = true
						outs[i].got.n = st.n
						break
					}
				}
			}
			switch {
			case byCaller && seenByHandler[st.n]:
				return fail("response-to-caller-and-handler", "instance %s (%+v) reached both a caller and the handler", st.n, st)
			case byCaller || seenByHandler[st.n]:
			default:
				// tolerated only in the documented window: the requester was looked up
				// and then cancelled
				tolerated := false
				for i, o := range outs {
					// the serve loop may drop a reply when it finds the requester's
					// context cancelled at hand-off time, whether or not the requester
					// later obtains another (duplicate) reply
					if ids[i] == st.id && o.cancelled && st.name == kind && (st.typ == "result" || st.typ == "error") && !sentAfterReturn[st.n] {
						tolerated = true
					}
				}
				if !tolerated {
					sig := "stanza-lost"
					if sentAfterReturn[st.n] {
						sig = "late-reply-lost"
					}
					return fail(sig, "the peer sent %+v but neither a caller nor the handler saw it", st)
				}
				nontrivial = true
			}
		}
		if !seenByHandler[sent[len(sent)-1].n] {
			return fail("serve-loop-stalled", "the sentinel stanza never reached the handler")
		}
		// (what Serve returns after the peer's close is C10's business)
		if nontrivial {
			res.NonTrivial = fmt.Sprint(c.Vector())
		}
		return res
	}
}

func init() {
	drv.Register(&drv.Prop{
		ID:    "C06",
		Level: "model_checking",
		Rule: "real Session on an in-memory net.Conn under the controlled scheduler: serve loop + N concurrent requesters (SendIQ / SendMessage / SendPresence, distinct ids given by the caller or - single requester - an empty or absent id attribute completed by the library, each reading none/one/all tokens of its response and closing it) + a canceller thread cancelling each request's context + a scripted peer whose per-request plan is one of {reply now, reply late (after the requester is gone), duplicate, same id but wrong stanza kind first, unknown id first, never, error reply, an incoming request re-using the id first}, followed by a sentinel stanza and the closing tag; every interleaving of all threads up to the preemption bound, with select ties enumerated. " +
			"Oracle: each call returns its own reply (kind, id, reply type) xor its context's error after cancellation; a reply instance reaches at most one caller and never caller and handler both; every stanza the peer sent reaches a caller or the handler (except a reply whose requester was cancelled); the sentinel reaches the handler and Serve returns nil; no panic, no deadlock. Non-trivial = executions in which a cancellation or a tolerated drop occurred.",
		Assumptions: []string{"sequentially consistent interleavings at synchronisation operations and connection I/O; unsynchronised accesses are looked for separately by the free-running -race part (the same bodies on real goroutines), which samples schedules", "a reply looked up by the serve loop before a concurrent cancellation may be dropped or handled"},
		Parts: func(tier string) []drv.Part {
			pre, b := 1, 3*time.Minute
			if tier == "thorough" {
				pre, b = 2, 20*time.Minute
			}
			env := []string{"GOMAXPROCS=1"}
			all := []int{0, 1, 2, 3, 4, 5, 6, 7}
			two := []int{0, 2, 5, 7} // quick: reply now, duplicate, never, incoming request re-using the id
			if tier == "thorough" {
				two = all
			}
			return []drv.Part{
				{Name: "iq-1", Desc: "one IQ requester", Body: correlatedBody("iq", 1, all), MaxDev: pre + 1, ShardLevels: 3, Budget: b, Env: env},
				{Name: "ids-iq", Desc: "one IQ requester whose request carries an empty or no id attribute (the library chooses the id)", Body: correlatedBody("iq", 1, all, 1, 2, 3), MaxDev: pre, ShardLevels: 3, Budget: b, Env: env},
				{Name: "ids-message", Desc: "one tracked message with an empty or no id attribute", Body: correlatedBody("message", 1, all, 1, 2, 3), MaxDev: pre, ShardLevels: 3, Budget: b, Env: env},
				{Name: "ids-presence", Desc: "one tracked presence with an empty or no id attribute", Body: correlatedBody("presence", 1, all, 1, 2, 3), MaxDev: pre, ShardLevels: 3, Budget: b, Env: env},
				{Name: "iq-2", Desc: "two IQ requesters", Body: correlatedBody("iq", 2, two), MaxDev: pre - 1, ShardLevels: 3, Budget: b, Env: env},
				{Name: "message-1", Desc: "one tracked message", Body: correlatedBody("message", 1, all), MaxDev: pre + 1, ShardLevels: 3, Budget: b, Env: env},
				{Name: "presence-1", Desc: "one tracked presence", Body: correlatedBody("presence", 1, all), MaxDev: pre + 1, ShardLevels: 3, Budget: b, Env: env},
				{Name: "receipts-1", Desc: "delivery receipts: one tracked message", Body: receiptsBody(1), MaxDev: pre + 1, ShardLevels: 3, Budget: b, Env: env},
				drv.RacePart(pre+2, pre+1, b, correlatedBody("iq", 1, all), correlatedBody("iq", 2, all), correlatedBody("message", 1, all), correlatedBody("presence", 1, all), correlatedBody("iq", 1, all, 1, 2, 3), receiptsBody(1)),
			}
		},
	})
}

var _ = time.Second
