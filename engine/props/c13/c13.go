// Package c13: core stanzas and errors encode consistently and round-trip.
package c13

import (
	"bytes"
	"encoding/xml"
	"fmt"
	"sort"
	"strings"
	"time"

	"mellium.im/xmpp/jid"
	"mellium.im/xmpp/stanza"
	"mellium.im/xmpp/stream"

	"verif/drv"
	"verif/nd"
	"verif/xu"
)

var strPool = []string{"", "a", `<&>'"`, "é", "a\nb", " "}
var langPool = []string{"", "en", `<&'">`}
var jidPool = []jid.JID{{}, jid.MustParse("example.net"), jid.MustParse("a@example.net/r"), jid.MustParse(`me@example.com/it's<&>"`)}
var nsPool = []string{"", stanza.NSClient, stanza.NSServer}

var iqTypes = []stanza.IQType{stanza.GetIQ, stanza.SetIQ, stanza.ResultIQ, stanza.ErrorIQ}
var msgTypes = []stanza.MessageType{stanza.NormalMessage, stanza.ChatMessage, stanza.ErrorMessage, stanza.GroupChatMessage, stanza.HeadlineMessage}
var presTypes = []stanza.PresenceType{stanza.AvailablePresence, stanza.ErrorPresence, stanza.ProbePresence, stanza.SubscribePresence, stanza.SubscribedPresence, stanza.UnavailablePresence, stanza.UnsubscribePresence, stanza.UnsubscribedPresence}

func viol(sig, f string, a ...any) *nd.Violation {
	return &nd.Violation{Sig: sig, Msg: fmt.Sprintf(f, a...)}
}

// generic view of a stanza header
type hdr struct {
	kind         string
	space        string
	id, lang, ty string
	to, from     jid.JID
}

func (h hdr) String() string {
	return fmt.Sprintf("%s{ns=%q id=%q to=%q from=%q lang=%q type=%q}", h.kind, h.space, h.id, h.to.String(), h.from.String(), h.lang, h.ty)
}

func (h hdr) eq(o hdr, withSpace bool) bool {
	return h.kind == o.kind && (!withSpace || h.space == o.space) && h.id == o.id && h.lang == o.lang && h.ty == o.ty && h.to.Equal(o.to) && h.from.Equal(o.from)
}

func ofIQ(v stanza.IQ) hdr {
	return hdr{"iq", v.XMLName.Space, v.ID, v.Lang, string(v.Type), v.To, v.From}
}
func ofMsg(v stanza.Message) hdr {
	return hdr{"message", v.XMLName.Space, v.ID, v.Lang, string(v.Type), v.To, v.From}
}
func ofPres(v stanza.Presence) hdr {
	return hdr{"presence", v.XMLName.Space, v.ID, v.Lang, string(v.Type), v.To, v.From}
}

type stz struct {
	h        hdr
	marshal  func() ([]byte, error)
	wrap     func(xml.TokenReader) xml.TokenReader
	start    func() xml.StartElement
	fromTok  func(xml.StartElement) (hdr, error)
	decode   func([]byte) (hdr, string, error) // header + XMLName.Local
	errorRdr func(stanza.Error) xml.TokenReader
	result   func(xml.TokenReader) xml.TokenReader // nil unless IQ
}

func build(kind int, space, id string, to, from jid.JID, lang string, ti int) stz {
	switch kind {
	case 0:
		v := stanza.IQ{XMLName: xml.Name{Space: space, Local: "iq"}, ID: id, To: to, From: from, Lang: lang, Type: iqTypes[ti]}
		return stz{h: ofIQ(v), marshal: func() ([]byte, error) { return xml.Marshal(v) }, wrap: v.Wrap, start: v.StartElement,
			fromTok: func(s xml.StartElement) (hdr, error) { x, err := stanza.NewIQ(s); return ofIQ(x), err },
			decode: func(b []byte) (hdr, string, error) {
				var x stanza.IQ
				err := xml.Unmarshal(b, &x)
				return ofIQ(x), x.XMLName.Local, err
			}, errorRdr: v.Error, result: v.Result}
	case 1:
		v := stanza.Message{XMLName: xml.Name{Space: space, Local: "message"}, ID: id, To: to, From: from, Lang: lang, Type: msgTypes[ti]}
		return stz{h: ofMsg(v), marshal: func() ([]byte, error) { return xml.Marshal(v) }, wrap: v.Wrap, start: v.StartElement,
			fromTok: func(s xml.StartElement) (hdr, error) { x, err := stanza.NewMessage(s); return ofMsg(x), err },
			decode: func(b []byte) (hdr, string, error) {
				var x stanza.Message
				err := xml.Unmarshal(b, &x)
				return ofMsg(x), x.XMLName.Local, err
			}, errorRdr: v.Error}
	default:
		v := stanza.Presence{XMLName: xml.Name{Space: space, Local: "presence"}, ID: id, To: to, From: from, Lang: lang, Type: presTypes[ti]}
		return stz{h: ofPres(v), marshal: func() ([]byte, error) { return xml.Marshal(v) }, wrap: v.Wrap, start: v.StartElement,
			fromTok: func(s xml.StartElement) (hdr, error) { x, err := stanza.NewPresence(s); return ofPres(x), err },
			decode: func(b []byte) (hdr, string, error) {
				var x stanza.Presence
				err := xml.Unmarshal(b, &x)
				return ofPres(x), x.XMLName.Local, err
			}, errorRdr: v.Error}
	}
}

var payloads = []string{"", `<x xmlns="urn:p" a="1">a&amp;b<y/>c</x>`, `<iq xmlns="urn:p"><error/></iq>`,
	"\n  <x xmlns=\"urn:p\"><y/></x>\n",              // as read from an indented stream: character data around the element
	`<a xmlns="urn:p"/><b xmlns="urn:p">t</b>`} // two sibling elements

func payloadReader(i int) xml.TokenReader {
	return xu.Reader(payloads[i])
}

func payloadTokens(i int) []xml.Token {
	t, _ := xu.Tokens(payloadReader(i))
	return t
}

func stanzaBody(c *nd.Ctx) nd.Result {
	kind := c.Choose(3, "kind")
	space := nsPool[c.Choose(len(nsPool), "ns")]
	id := strPool[c.Choose(len(strPool), "id")]
	to := jidPool[c.Choose(len(jidPool), "to")]
	from := jidPool[c.Choose(len(jidPool), "from")]
	lang := langPool[c.Choose(len(langPool), "lang")]
	nt := []int{len(iqTypes), len(msgTypes), len(presTypes)}[kind]
	ti := c.Choose(nt, "type")
	s := build(kind, space, id, to, from, lang, ti)
	c.Note("%v", s.h)
	res := nd.Result{Outcome: s.h.kind, NonTrivial: s.h.String()}
	var v *nd.Violation
	if p := nd.Catch(func() { v = checkStanza(s) }); p != nil {
		v = viol("stanza:"+p.Sig(), "%v: panic %s", s.h, p.Value)
	}
	res.Violation = v
	return res
}

func checkStanza(s stz) *nd.Violation {
	h := s.h
	mb, err := s.marshal()
	if err != nil {
		return viol("stanza:marshal-error:"+h.kind, "%v: xml.Marshal: %v", h, err)
	}
	if err := xu.WellFormed(mb); err != nil {
		return viol("stanza:marshal-malformed:"+h.kind, "%v: xml.Marshal gives %s: %v", h, mb, err)
	}
	tb, err := xu.Render(s.wrap(nil))
	if err != nil {
		return viol("stanza:token-path-error:"+h.kind, "%v: encoding Wrap(nil): %v", h, err)
	}
	if err := xu.WellFormed(tb); err != nil {
		return viol("stanza:token-path-malformed:"+h.kind, "%v: Wrap(nil) encodes to %s: %v", h, tb, err)
	}
	dm, lm, err := s.decode(mb)
	if err != nil {
		return viol("stanza:marshal-output-does-not-decode:"+h.kind, "%v: %s: %v", h, mb, err)
	}
	dt, lt, err := s.decode(tb)
	if err != nil {
		return viol("stanza:token-output-does-not-decode:"+h.kind, "%v: %s: %v", h, tb, err)
	}
	if lm != h.kind || lt != h.kind {
		return viol("stanza:wrong-element-name:"+h.kind, "%v: decoded names %q %q", h, lm, lt)
	}
	// the stanza namespace is inherited from the stream in the marshaller path
	// (struct tag without namespace); it is compared only on the token path.
	if !dm.eq(dt, false) {
		return viol("stanza:marshal-and-token-paths-differ:"+h.kind, "%v: xml.Marshal %s decodes to %v; token path %s decodes to %v", h, mb, dm, tb, dt)
	}
	if !dt.eq(h, true) {
		return viol("stanza:roundtrip-differs:"+h.kind, "%v: token path %s decodes to %v", h, tb, dt)
	}
	if !dm.eq(h, false) {
		return viol("stanza:roundtrip-differs:"+h.kind, "%v: xml.Marshal %s decodes to %v", h, mb, dm)
	}
	// start element conversion is the inverse of start element parsing
	back, err := s.fromTok(s.start())
	if err != nil || !back.eq(h, true) {
		return viol("stanza:start-element-not-inverse:"+h.kind, "%v: New(StartElement()) = %v, %v", h, back, err)
	}
	// wrapping helpers
	for pi := range payloads {
		toks, err := xu.Tokens(s.wrap(payloadReader(pi)))
		if err != nil {
			return viol("stanza:wrap-error:"+h.kind, "%v: Wrap(%s): %v", h, payloads[pi], err)
		}
		want := append([]xml.Token{s.start()}, payloadTokens(pi)...)
		want = append(want, s.start().End())
		if xu.TokString(toks) != xu.TokString(want) {
			return viol("stanza:wrap-alters-payload:"+h.kind, "%v: Wrap(%s) = %s, want %s", h, payloads[pi], xu.TokString(toks), xu.TokString(want))
		}
		if s.result != nil {
			toks, err := xu.Tokens(s.result(payloadReader(pi)))
			if err != nil || len(toks) < 2 {
				return viol("stanza:result-error", "%v: Result(%s): %v", h, payloads[pi], err)
			}
			rh, err := s.fromTok(toks[0].(xml.StartElement))
			wantH := h
			wantH.ty = "result"
			wantH.to, wantH.from = h.from, h.to
			if err != nil || !rh.eq(wantH, true) {
				return viol("stanza:result-header", "%v: Result() header %v, want %v", h, rh, wantH)
			}
			if xu.TokString(toks[1:len(toks)-1]) != xu.TokString(payloadTokens(pi)) {
				return viol("stanza:result-alters-payload", "%v: Result(%s) = %s", h, payloads[pi], xu.TokString(toks))
			}
		}
	}
	se := stanza.Error{Type: stanza.Cancel, Condition: stanza.ItemNotFound, Text: map[string]string{"en": "x<y"}}
	toks, err := xu.Tokens(s.errorRdr(se))
	if err != nil || len(toks) < 2 {
		return viol("stanza:error-helper-error:"+h.kind, "%v: Error(): %v", h, err)
	}
	eh, err := s.fromTok(toks[0].(xml.StartElement))
	wantH := h
	wantH.ty = "error"
	wantH.to, wantH.from = h.from, h.to
	if err != nil || !eh.eq(wantH, true) {
		return viol("stanza:error-helper-header:"+h.kind, "%v: Error() header %v, want %v", h, eh, wantH)
	}
	wantInner, _ := xu.Tokens(se.TokenReader())
	if xu.TokString(toks[1:len(toks)-1]) != xu.TokString(wantInner) {
		return viol("stanza:error-helper-payload:"+h.kind, "%v: Error() inner %s want %s", h, xu.TokString(toks[1:len(toks)-1]), xu.TokString(wantInner))
	}
	return nil
}

// ---- stanza errors

var errTypes = []stanza.ErrorType{"", stanza.Cancel, stanza.Auth, stanza.Continue, stanza.Modify, stanza.Wait}
var conds = []stanza.Condition{"", stanza.BadRequest, stanza.ItemNotFound, stanza.UndefinedCondition, stanza.ServiceUnavailable}
var textLangs = []string{"", "en", "de", "en-US"}
var maxTexts = 2

func normErr(e stanza.Error) string {
	cond := e.Condition
	if cond == "" {
		cond = stanza.UndefinedCondition
	}
	var texts []string
	for l, t := range e.Text {
		if t != "" {
			texts = append(texts, fmt.Sprintf("%q=%q", l, t))
		}
	}
	sort.Strings(texts)
	return fmt.Sprintf("type=%q cond=%q by=%q text=%v", e.Type, cond, e.By.String(), texts)
}

func stanzaErrBody(c *nd.Ctx) nd.Result {
	e := stanza.Error{Type: errTypes[c.Choose(len(errTypes), "type")], Condition: conds[c.Choose(len(conds), "cond")], By: jidPool[c.Choose(len(jidPool), "by")]}
	n := c.Choose(maxTexts+1, "ntexts")
	if n > 0 {
		e.Text = map[string]string{}
		used := map[int]bool{}
		for i := 0; i < n; i++ {
			li := c.Choose(len(textLangs), "text-lang")
			if used[li] {
				return nd.Result{Skip: true}
			}
			used[li] = true
			e.Text[textLangs[li]] = strPool[c.Choose(len(strPool), "text")]
		}
	}
	carrier := c.Choose(2+2*len(echoed), "carrier") // 0 bare, 1 inside an IQ via UnmarshalIQError, 2.. inside an error stanza that echoes the sender's payload first (client / server namespace)
	desc := normErr(e)
	c.Note("stanza.Error{%s} carrier=%d", desc, carrier)
	res := nd.Result{Outcome: "stanza-error", NonTrivial: desc}
	var v *nd.Violation
	if p := nd.Catch(func() { v = checkStanzaErr(e, desc, carrier) }); p != nil {
		v = viol("stanza-error:"+p.Sig(), "%s: panic %s", desc, p.Value)
	}
	res.Violation = v
	return res
}

// echoed: payloads of the original stanza that an error stanza carries in
// front of its error element; their descendants named "error" are not the
// stanza error.
var echoed = []string{
	`<query xmlns='urn:q'><item><error code='7'>boom</error></item></query>`,
	`<x xmlns='urn:x'><message xmlns='%NS%' type='error'><error type='auth'><forbidden xmlns='urn:ietf:params:xml:ns:xmpp-stanzas'/></error></message></x>text`,
}

func checkStanzaErr(e stanza.Error, desc string, carrier int) *nd.Violation {
	if carrier >= 2 {
		ns := []string{stanza.NSClient, stanza.NSServer}[(carrier-2)%2]
		payload := strings.ReplaceAll(echoed[(carrier-2)/2], "%NS%", ns)
		eb, err := xu.Render(e.TokenReader())
		if err != nil {
			return viol("stanza-error:token-path-error", "%s: %v", desc, err)
		}
		for _, kind := range []string{"message", "presence", "iq"} {
			doc := fmt.Sprintf(`<%s xmlns='%s' type='error' id='e1'>%s%s</%s>`, kind, ns, payload, eb, kind)
			d := xml.NewDecoder(strings.NewReader(doc))
			if _, err := d.Token(); err != nil {
				return viol("stanza-error:harness", "%s: %v", doc, err)
			}
			got, uerr := stanza.UnmarshalError(d)
			if uerr != nil || normErr(got) != desc {
				return viol("stanza-error:unmarshal-error-beside-echoed-payload", "%s: UnmarshalError over %s = {%s}, %v", desc, doc, normErr(got), uerr)
			}
		}
		return nil
	}
	mb, err := xml.Marshal(e)
	if err != nil {
		return viol("stanza-error:marshal-error", "%s: %v", desc, err)
	}
	if err := xu.WellFormed(mb); err != nil {
		return viol("stanza-error:marshal-malformed", "%s: %s: %v", desc, mb, err)
	}
	tb, err := xu.Render(e.TokenReader())
	if err != nil {
		return viol("stanza-error:token-path-error", "%s: %v", desc, err)
	}
	if err := xu.WellFormed(tb); err != nil {
		return viol("stanza-error:token-path-malformed", "%s: %s: %v", desc, tb, err)
	}
	var dm, dt stanza.Error
	if err := xml.Unmarshal(mb, &dm); err != nil {
		return viol("stanza-error:marshal-output-does-not-decode", "%s: %s: %v", desc, mb, err)
	}
	if err := xml.Unmarshal(tb, &dt); err != nil {
		return viol("stanza-error:token-output-does-not-decode", "%s: %s: %v", desc, tb, err)
	}
	if normErr(dm) != normErr(dt) {
		return viol("stanza-error:paths-differ", "%s: marshal %s -> {%s}; tokens %s -> {%s}", desc, mb, normErr(dm), tb, normErr(dt))
	}
	if normErr(dm) != desc {
		return viol("stanza-error:roundtrip-differs", "%s: %s decodes to {%s}", desc, mb, normErr(dm))
	}
	// an application-specific condition next to the defined one (RFC 6120 8.3.2)
	// is an element of the application's namespace, whatever its local name: it
	// is none of the fields of the value and changes none of them
	if i := bytes.LastIndex(mb, []byte("</error>")); i >= 0 {
		for _, app := range []string{`<text xmlns="urn:app">app</text>`, `<text xmlns="urn:app" xml:lang="en">app</text>`, `<bad-request xmlns="urn:app"/>`, `<by xmlns="urn:app">x</by>`} {
			doc := string(mb[:i]) + app + "</error>"
			var da stanza.Error
			if err := xml.Unmarshal([]byte(doc), &da); err != nil {
				return viol("stanza-error:application-condition-not-tolerated", "%s: %s: %v", desc, doc, err)
			}
			if normErr(da) != desc {
				return viol("stanza-error:application-condition-mistaken-for-a-field", "%s: %s decodes to {%s}", desc, doc, normErr(da))
			}
		}
	}
	if carrier == 1 {
		iq := stanza.IQ{ID: "1", Type: stanza.GetIQ, To: jidPool[2]}
		b, err := xu.Render(iq.Error(e))
		if err != nil {
			return viol("stanza-error:iq-error-encode", "%s: %v", desc, err)
		}
		d := xml.NewDecoder(strings.NewReader(string(b)))
		tok, _ := d.Token()
		start := tok.(xml.StartElement)
		riq, uerr := stanza.UnmarshalIQError(d, start)
		got, ok := uerr.(stanza.Error)
		if !ok || normErr(got) != desc || riq.Type != stanza.ErrorIQ || !riq.From.Equal(jidPool[2]) {
			return viol("stanza-error:unmarshal-iq-error", "%s: %s -> UnmarshalIQError = %+v, %v", desc, b, riq, uerr)
		}
		// the same reply handed over as tokens (what a handler or a test double
		// passes on without writing it out), for IQs of each stanza namespace
		for _, ns := range []string{"", stanza.NSClient, stanza.NSServer} {
			iq := stanza.IQ{XMLName: xml.Name{Space: ns, Local: "iq"}, ID: "1", Type: stanza.GetIQ, To: jidPool[2]}
			tr := iq.Error(e)
			tok, terr := tr.Token()
			start, isStart := tok.(xml.StartElement)
			if terr != nil || !isStart {
				return viol("stanza-error:iq-error-encode", "%s: first token of IQ.Error is %v, %v", desc, tok, terr)
			}
			riq, uerr := stanza.UnmarshalIQError(tr, start)
			got, ok := uerr.(stanza.Error)
			if !ok || normErr(got) != desc || riq.Type != stanza.ErrorIQ || !riq.From.Equal(jidPool[2]) {
				return viol("stanza-error:unmarshal-iq-error:tokens", "%s: tokens of IQ.Error (iq namespace %q) -> UnmarshalIQError = %+v, %v", desc, ns, riq, uerr)
			}
		}
	}
	return nil
}

// ---- stream errors

var streamConds = []string{"bad-format", "host-unknown", "see-other-host", "not-authorized", "undefined-condition"}
var contents = []string{"", "example.org:5222", `<&>`, "[::1]:5222", "::1", "2001:db8::7"} // the last two: bare IPv6 literals given by the application as they are

func normStream(e stream.Error) string {
	return fmt.Sprintf("err=%q text=%q content=%q", e.Err, fmt.Sprint(e.Text), e.Content)
}

func streamErrBody(c *nd.Ctx) nd.Result {
	e := stream.Error{Err: streamConds[c.Choose(len(streamConds), "cond")]}
	n := c.Choose(maxTexts+1, "ntexts")
	for i := 0; i < n; i++ {
		e.Text = append(e.Text, struct{ Lang, Value string }{textLangs[c.Choose(len(textLangs), "text-lang")], strPool[c.Choose(len(strPool), "text")]})
	}
	if e.Err == "see-other-host" {
		e.Content = contents[c.Choose(len(contents), "content")]
	}
	app := c.Choose(3, "app-payload")
	desc := normStream(e)
	c.Note("stream.Error{%s} app-payload=%d", desc, app)
	res := nd.Result{Outcome: "stream-error", NonTrivial: desc + fmt.Sprint(app)}
	var v *nd.Violation
	if p := nd.Catch(func() { v = checkStreamErr(e, desc, app) }); p != nil {
		v = viol("stream-error:"+p.Sig(), "%s: panic %s", desc, p.Value)
	}
	res.Violation = v
	return res
}

var appPayloads = []string{"", `<escape-your-data xmlns="http://example.org/ns"/>`, `<x xmlns="urn:app"><text>nested</text>chardata</x>`}

func checkStreamErr(e stream.Error, desc string, app int) *nd.Violation {
	mk := func() stream.Error {
		if app == 0 {
			return e
		}
		return e.ApplicationError(xu.Reader(appPayloads[app]))
	}
	sfx := ""
	if app > 0 {
		sfx = ":with-application-payload"
	}
	mb, err := xml.Marshal(mk())
	if err != nil {
		return viol("stream-error:marshal-error"+sfx, "%s: %v", desc, err)
	}
	if err := xu.WellFormed(mb); err != nil {
		return viol("stream-error:marshal-malformed"+sfx, "%s: %s: %v", desc, mb, err)
	}
	tb, err := xu.Render(mk().TokenReader())
	if err != nil {
		return viol("stream-error:token-path-error"+sfx, "%s: %v", desc, err)
	}
	if err := xu.WellFormed(tb); err != nil {
		return viol("stream-error:token-path-malformed"+sfx, "%s: %s: %v", desc, tb, err)
	}
	var dm, dt stream.Error
	if err := xml.Unmarshal(mb, &dm); err != nil {
		return viol("stream-error:marshal-output-does-not-decode"+sfx, "%s: %s: %v", desc, mb, err)
	}
	if err := xml.Unmarshal(tb, &dt); err != nil {
		return viol("stream-error:token-output-does-not-decode"+sfx, "%s: %s: %v", desc, tb, err)
	}
	if normStream(dm) != normStream(dt) {
		return viol("stream-error:paths-differ"+sfx, "%s: marshal %s -> {%s}; tokens %s -> {%s}", desc, mb, normStream(dm), tb, normStream(dt))
	}
	if normStream(dm) != desc {
		return viol("stream-error:roundtrip-differs"+sfx, "%s: %s decodes to {%s}", desc, mb, normStream(dm))
	}
	if app > 0 {
		// the application payload is carried unchanged
		roots, _ := xu.Parse(mb)
		want, _ := xu.Parse([]byte(appPayloads[app]))
		found := false
		for _, ch := range roots[0].Children {
			if ch.String() == want[0].String() {
				found = true
			}
		}
		if !found {
			return viol("stream-error:application-payload-altered", "%s: %s does not contain %s", desc, mb, appPayloads[app])
		}
	}
	return nil
}

func init() {
	drv.Register(&drv.Prop{
		ID:    "C13",
		Level: "exploration",
		Rule: "full cross product: {iq,message,presence} x {no ns, jabber:client, jabber:server} x 6 ids x 4 to x 4 from (incl. resourcepart with quotes/&/<>) x 3 langs x every defined type constant; stanza.Error: 6 types x 5 conditions x 4 by x text maps with 0-2 languages x 6 texts, bare and via IQ.Error/UnmarshalIQError; stream.Error: 5 conditions x text lists of 0-2 x content x 3 application payloads. " +
			"Each value goes through xml.Marshal and the TokenReader path; oracle: both well-formed (encoding/xml), decode to the same value, equal to the original modulo stated normalisation; Wrap/Result/Error helper laws; NewX(StartElement()) identity. Non-trivial = every distinct value (each is a separate encode/decode case).",
		Assumptions: []string{"the stanza namespace is not carried by the xml.Marshal path of IQ/Message/Presence (struct tag without namespace: it is inherited from the stream); it is compared on the token path only",
			"stanza.Error: empty condition encodes as undefined-condition and empty texts are dropped (documented); stream.Error.Content is only exercised for see-other-host (documented)"},
		Parts: func(tier string) []drv.Part {
			b := 100 * time.Second
			if tier == "thorough" {
				// every defined condition constant, more
				// awkward strings and addresses
				b = 20 * time.Minute
				conds = append([]stanza.Condition{""}, stanza.BadRequest, stanza.Conflict, stanza.FeatureNotImplemented, stanza.Forbidden, stanza.Gone, stanza.InternalServerError, stanza.ItemNotFound, stanza.JIDMalformed, stanza.NotAcceptable, stanza.NotAllowed, stanza.NotAuthorized, stanza.PolicyViolation, stanza.RecipientUnavailable, stanza.Redirect, stanza.RegistrationRequired, stanza.RemoteServerNotFound, stanza.RemoteServerTimeout, stanza.ResourceConstraint, stanza.ServiceUnavailable, stanza.SubscriptionRequired, stanza.UndefinedCondition, stanza.UnexpectedRequest)
				streamConds = []string{"bad-format", "bad-namespace-prefix", "conflict", "connection-timeout", "host-gone", "host-unknown", "improper-addressing", "internal-server-error", "invalid-from", "invalid-namespace", "invalid-xml", "not-authorized", "not-well-formed", "policy-violation", "remote-connection-failed", "reset", "resource-constraint", "restricted-xml", "see-other-host", "system-shutdown", "undefined-condition", "unsupported-encoding", "unsupported-feature", "unsupported-stanza-type", "unsupported-version"}
				strPool = append(strPool, "]]>", "&amp;", "\t", "\U0001F600", strings.Repeat("x<", 300))
				langPool = append(langPool, "de-CH")
				jidPool = append(jidPool, jid.MustParse("a@example.net"), jid.MustParse("example.net/r&<"))
			}
			return []drv.Part{
				{Name: "stanzas", Body: stanzaBody, CutDepth: 3, Budget: b},
				{Name: "stanza-errors", Body: stanzaErrBody, CutDepth: 3, Budget: b},
				{Name: "stream-errors", Body: streamErrBody, CutDepth: 3, Budget: b},
			}
		},
	})
}
