package c05

import (
	"context"
	"encoding/xml"
	"fmt"
	"strings"

	"mellium.im/xmpp/stanza"

	"verif/nd"
	"verif/sess"
	"verif/xu"
)

// closedWriterBody: a token writer obtained from the session is closed and then
// used again. The writer has given the output back: nothing it is asked to
// write afterwards may be reported as written or reach the wire, whatever else
// the session transmits in between.
func closedWriterBody(c *nd.Ctx) nd.Result {
	s2s := c.Choose(2, "s2s") == 1
	firstEmpty := c.Choose(2, "nothing-written-before-close") == 1
	lateKind := []string{"message", "presence", "iq"}[c.Choose(3, "late-element")]
	lateFlush := c.Choose(2, "flush-after-late-write") == 1
	closeAgain := c.Choose(2, "second-close") == 1
	between := c.Choose(2, "another-call-in-between") == 1
	streamNS := stanza.NSClient
	if s2s {
		streamNS = stanza.NSServer
	}
	s, rw, err := sess.New(streamNS, "")
	if err != nil {
		panic("c05: setup: " + err.Error())
	}
	desc := fmt.Sprintf("token writer: %s, Close, then <%s id='late'/> (flush=%v second-close=%v other-call-in-between=%v) s2s=%v",
		map[bool]string{true: "nothing", false: "<message id='a'/>"}[firstEmpty], lateKind, lateFlush, closeAgain, between, s2s)
	c.Note("%s", desc)
	res := nd.Result{Outcome: "closed-writer", NonTrivial: desc}
	fail := func(sig, f string, a ...any) nd.Result {
		res.Violation = &nd.Violation{Sig: "closed-writer:" + sig, Msg: desc + fmt.Sprintf(" [wire=%q]: ", rw.Out.String()) + fmt.Sprintf(f, a...)}
		return res
	}
	before := rw.Out.Len()
	var lateErr, late2Err, flushErr, sendErr, closeErr error
	el := func(kind, id string) xml.StartElement {
		return xml.StartElement{Name: xml.Name{Local: kind}, Attr: []xml.Attr{{Name: xml.Name{Local: "id"}, Value: id}, {Name: xml.Name{Local: "type"}, Value: "error"}}}
	}
	pn := nd.Catch(func() {
		w := s.TokenWriter()
		if !firstEmpty {
			a := el("message", "a")
			w.EncodeToken(a)
			w.EncodeToken(a.End())
		}
		closeErr = w.Close()
		if between {
			sendErr = s.Send(context.Background(), &xu.SliceReader{Toks: []xml.Token{el("message", "c"), el("message", "c").End()}})
		}
		late := el(lateKind, "late")
		lateErr = w.EncodeToken(late)
		late2Err = w.EncodeToken(late.End())
		if lateFlush {
			flushErr = w.Flush()
		}
		if closeAgain {
			w.Close()
		}
		if !between {
			sendErr = s.Send(context.Background(), &xu.SliceReader{Toks: []xml.Token{el("message", "c"), el("message", "c").End()}})
		}
	})
	if pn != nil {
		return fail(pn.Sig(), "panic %s\n%s", pn.Value, pn.Stack)
	}
	if closeErr != nil || sendErr != nil {
		return fail("unexpected-error", "Close %v, Send %v", closeErr, sendErr)
	}
	wire := rw.Out.String()[before:]
	if strings.Contains(wire, `id="late"`) {
		return fail("late-write-reaches-the-wire", "what was written through the closed writer is on the wire")
	}
	_ = flushErr // a Flush that has nothing to write may well succeed
	if lateErr == nil || late2Err == nil {
		return fail("late-write-reported-as-written", "EncodeToken on the closed writer returned %v / %v, Flush %v", lateErr, late2Err, flushErr)
	}
	roots, perr := xu.Parse([]byte(sess.Header(streamNS) + wire + "</stream:stream>"))
	if perr != nil || len(roots) != 1 {
		return fail("wire-malformed", "%v", perr)
	}
	want := 2
	if firstEmpty {
		want = 1
	}
	if n := len(roots[0].Children); n != want {
		return fail("element-count", "%d top-level elements on the wire, %d were transmitted", n, want)
	}
	return res
}
