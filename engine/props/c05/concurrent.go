package c05

import (
	"context"
	"encoding/xml"
	"fmt"
	"sort"
	"strings"
	"time"

	"mellium.im/xmlstream"
	"mellium.im/xmpp"
	"mellium.im/xmpp/jid"
	"mellium.im/xmpp/stanza"

	"verif/drv"
	"verif/nd"
	"verif/sess"
	"verif/vs"
	"verif/vsess"
	"verif/xu"
)

func mustJID(s string) jid.JID { return jid.MustParse(s) }

type payloadIQ struct {
	stanza.IQ
	P struct {
		Text string `xml:",chardata"`
	} `xml:"urn:t p"`
}

type payloadMsg struct {
	stanza.Message
	Body string `xml:"body"`
}

var senderKinds = []string{"EncodeIQ", "EncodeMessage", "TokenWriter+Flush", "Send-large", "SendElement", "EncodePresenceElement"}

// sendOne transmits one element with the given id through the chosen entry
// point and returns the reference rendering of what the peer must receive.
func sendOne(s *xmpp.Session, kind, id string) (error, string) {
	ctx := context.Background()
	text := strings.Repeat(id, 40)
	switch kind {
	case "EncodeIQ":
		v := payloadIQ{IQ: stanza.IQ{ID: id, Type: stanza.ResultIQ}}
		v.P.Text = text
		_, err := s.EncodeIQ(ctx, v)
		// (the zero To of the embedded header marshals as to="": that is what the caller passed)
		return err, fmt.Sprintf(`<iq xmlns="jabber:client" type="result" id="%s" to=""><p xmlns="urn:t">%s</p></iq>`, id, text)
	case "EncodeMessage":
		v := payloadMsg{Message: stanza.Message{ID: id, Type: stanza.ErrorMessage}, Body: text}
		_, err := s.EncodeMessage(ctx, v)
		return err, fmt.Sprintf(`<message xmlns="jabber:client" type="error" id="%s" to=""><body>%s</body></message>`, id, text)
	case "TokenWriter+Flush":
		w := s.TokenWriter()
		st := xml.StartElement{Name: xml.Name{Local: "message"}, Attr: []xml.Attr{{Name: xml.Name{Local: "id"}, Value: id}}}
		body := xml.StartElement{Name: xml.Name{Local: "body"}}
		err := w.EncodeToken(st)
		if err == nil {
			err = w.EncodeToken(body)
		}
		if err == nil {
			err = w.Flush() // half an element is on the wire while we hold the writer
		}
		if err == nil {
			err = w.EncodeToken(xml.CharData(text))
		}
		if err == nil {
			err = w.EncodeToken(body.End())
		}
		if err == nil {
			err = w.EncodeToken(st.End())
		}
		cerr := w.Close()
		if err == nil {
			err = cerr
		}
		return err, fmt.Sprintf(`<message xmlns="jabber:client" id="%s"><body>%s</body></message>`, id, text)
	case "Send-large":
		big := strings.Repeat(id, 1500) // crosses the encoder's 4096 byte buffer: several writes for one element
		st := xml.StartElement{Name: xml.Name{Local: "message"}, Attr: []xml.Attr{{Name: xml.Name{Local: "id"}, Value: id}}}
		err := s.Send(ctx, xmlstream.Wrap(xmlstream.Wrap(xmlstream.Token(xml.CharData(big)), xml.StartElement{Name: xml.Name{Local: "body"}}), st))
		return err, fmt.Sprintf(`<message xmlns="jabber:client" id="%s"><body>%s</body></message>`, id, big)
	case "SendElement":
		st := xml.StartElement{Name: xml.Name{Local: "presence"}, Attr: []xml.Attr{{Name: xml.Name{Local: "id"}, Value: id}}}
		err := s.SendElement(ctx, xmlstream.Wrap(xmlstream.Token(xml.CharData(text)), xml.StartElement{Name: xml.Name{Local: "status"}}), st)
		return err, fmt.Sprintf(`<presence xmlns="jabber:client" id="%s"><status>%s</status></presence>`, id, text)
	case "EncodePresenceElement":
		_, err := s.EncodePresenceElement(ctx, struct {
			XMLName xml.Name `xml:"status"`
			T       string   `xml:",chardata"`
		}{T: text}, stanza.Presence{ID: id, Type: stanza.ErrorPresence})
		return err, fmt.Sprintf(`<presence xmlns="jabber:client" type="error" id="%s"><status>%s</status></presence>`, id, text)
	}
	panic("unknown sender kind")
}

func canon(doc string) string {
	roots, err := xu.Parse([]byte(doc))
	if err != nil || len(roots) != 1 {
		panic(fmt.Sprintf("c05: reference %q: %v", doc, err))
	}
	return roots[0].String()
}

func concurrentBody(nsenders int) nd.Body {
	return func(c *nd.Ctx) nd.Result {
		kinds := make([]string, nsenders)
		for i := range kinds {
			kinds[i] = senderKinds[c.Choose(len(senderKinds), "sender")]
		}
		replyKind := c.Choose(3, "handler-reply") // 0 none, 1 plain, 2 with stanza-named elements inside (a forwarded message, a presence): closing one of those is not the end of the reply
		handlerReplies := replyKind != 0
		errs := make([]error, nsenders)
		want := make([]string, nsenders)
		done := make([]bool, nsenders)
		var env *vsess.Env
		var setupErr error
		out := vs.Run(c, vs.Options{Horizon: 20000}, func() {
			env, setupErr = vsess.New(stanza.NSClient, 0)
			if setupErr != nil {
				return
			}
			if handlerReplies {
				env.PeerWrite(`<iq type='get' id='req1' from='a@example.org/x'><q xmlns='urn:q'/></iq>`)
			}
			env.Serve(xmpp.HandlerFunc(func(t xmlstream.TokenReadEncoder, start *xml.StartElement) error {
				if start.Name.Local != "iq" {
					return nil
				}
				st := xml.StartElement{Name: xml.Name{Local: "iq"}, Attr: []xml.Attr{{Name: xml.Name{Local: "type"}, Value: "result"}, {Name: xml.Name{Local: "id"}, Value: "req1"}}}
				p := xml.StartElement{Name: xml.Name{Space: "urn:q", Local: "q"}}
				toks := []xml.Token{st, p, xml.CharData(strings.Repeat("reply", 30)), p.End(), st.End()}
				if replyKind == 2 {
					fm := xml.StartElement{Name: xml.Name{Space: stanza.NSClient, Local: "message"}, Attr: []xml.Attr{{Name: xml.Name{Local: "to"}, Value: "c@example.org"}}}
					fp := xml.StartElement{Name: xml.Name{Space: stanza.NSClient, Local: "presence"}}
					fi := xml.StartElement{Name: xml.Name{Space: "urn:q", Local: "iq"}}
					toks = []xml.Token{st, p, fm, xml.CharData("fwd"), fm.End(), fp, fp.End(), fi, fi.End(), xml.CharData(strings.Repeat("reply", 30)), p.End(), st.End()}
				}
				for _, tok := range toks {
					if err := t.EncodeToken(tok); err != nil {
						return err
					}
				}
				return nil
			}))
			for i := 0; i < nsenders-1; i++ {
				i := i
				vs.GoNamed(fmt.Sprintf("sender%d", i+1), false, func() {
					errs[i], want[i] = sendOne(env.S, kinds[i], fmt.Sprintf("s%d", i+1))
					vs.Atomically(func() { done[i] = true })
				})
			}
			k := nsenders - 1
			errs[k], want[k] = sendOne(env.S, kinds[k], fmt.Sprintf("s%d", k+1))
			done[k] = true
			vsess.Wait("senders-done", func() bool {
				for _, d := range done {
					if !d {
						return false
					}
				}
				return true
			})
			env.PeerWrite(`</stream:stream>`)
			vsess.Wait("serve-done", func() bool { return env.ServeDone })
		})
		if setupErr != nil {
			panic("c05: setup: " + setupErr.Error())
		}
		desc := fmt.Sprintf("senders=%v handler-reply=%v", kinds, []string{"none", "plain", "with-stanza-named-elements-inside"}[replyKind])
		c.Note("%s outcome=%s", desc, out.Kind)
		for _, t := range out.Trace {
			c.Note("  %s", t)
		}
		res := nd.Result{Outcome: out.Kind, NonTrivial: desc + fmt.Sprint(c.Vector())}
		wire := string(env.Lib.Written())
		short := wire
		if len(short) > 700 {
			short = short[:350] + "…" + short[len(short)-300:]
		}
		fail := func(sig, f string, a ...any) nd.Result {
			res.Violation = &nd.Violation{Sig: "concurrent:" + sig, Msg: desc + fmt.Sprintf(" [errors=%v wire=%q]: ", errs, short) + fmt.Sprintf(f, a...)}
			return res
		}
		switch out.Kind {
		case "panic":
			return fail(out.Panic.Sig(), "panic in thread %s: %s\n%s", out.PanicIn, out.Panic.Value, out.Panic.Stack)
		case "deadlock":
			return fail("deadlock", "blocked threads: %v", out.Blocked)
		case "horizon":
			return fail("does-not-terminate", "blocked: %v", out.Blocked)
		}
		for i, e := range errs {
			if e != nil {
				return fail("transmit-error", "sender %d (%s) returned %v", i+1, kinds[i], e)
			}
		}
		roots, perr := xu.Parse([]byte(sess.Header(stanza.NSClient) + wire))
		if perr != nil || len(roots) != 1 {
			return fail("wire-malformed", "the peer's byte stream does not parse: %v", perr)
		}
		var got, exp []string
		for _, el := range roots[0].Children {
			got = append(got, el.String())
		}
		for _, w := range want {
			exp = append(exp, canon(w))
		}
		if replyKind == 1 {
			exp = append(exp, canon(`<iq xmlns="jabber:client" type="result" id="req1"><q xmlns="urn:q">`+strings.Repeat("reply", 30)+`</q></iq>`))
		}
		if replyKind == 2 {
			exp = append(exp, canon(`<iq xmlns="jabber:client" type="result" id="req1"><q xmlns="urn:q"><message xmlns="jabber:client" to="c@example.org">fwd</message><presence xmlns="jabber:client"></presence><iq></iq>`+strings.Repeat("reply", 30)+`</q></iq>`))
		}
		sort.Strings(got)
		sort.Strings(exp)
		if strings.Join(got, "\n") != strings.Join(exp, "\n") {
			for i := range exp {
				if i >= len(got) || got[i] != exp[i] {
					g := "(nothing)"
					if i < len(got) {
						g = got[i]
					}
					if len(g) > 300 {
						g = g[:300] + "…"
					}
					e := exp[i]
					if len(e) > 300 {
						e = e[:300] + "…"
					}
					return fail("elements-differ", "%d elements on the wire, %d expected; first difference:\n got  %s\n want %s", len(got), len(exp), g, e)
				}
			}
			return fail("elements-differ", "%d elements on the wire, %d expected", len(got), len(exp))
		}
		return res
	}
}

func concurrentParts(tier string) []drv.Part {
	pre, b := 1, 3*time.Minute
	if tier == "thorough" {
		pre, b = 2, 40*time.Minute
	}
	env := []string{"GOMAXPROCS=1"}
	return []drv.Part{
		{Name: "concurrent-2", Desc: "two concurrent senders + handler reply", Body: concurrentBody(2), MaxDev: pre, ShardLevels: 3, Budget: b, Env: env},
		{Name: "concurrent-3", Desc: "three concurrent senders + handler reply", Body: concurrentBody(3), MaxDev: pre - 1, ShardLevels: 3, Budget: b, Env: env},
		drv.RacePart(6*pre, pre, b, concurrentBody(2), concurrentBody(3)),
	}
}
