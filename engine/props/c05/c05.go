// Package c05: each transmit call puts exactly its own element on the wire, whole.
package c05

import (
	"context"
	"encoding/xml"
	"fmt"
	"strings"
	"time"

	"mellium.im/xmlstream"
	"mellium.im/xmpp"
	"mellium.im/xmpp/stanza"

	"verif/drv"
	"verif/nd"
	"verif/sess"
	"verif/xu"
)

// ---- shapes

type shape struct {
	name, ns  string
	id, from  int // 0 absent, 1 empty, 2 set
	xmlnsAttr bool
	nested    bool
	payload   int // 0 none, 1 small, 2 large
	typ       string
	ext       bool // attributes of another namespace named id and from (opaque to the session: neither completed nor dropped nor taken for the stanza's own)
}

var names = []string{"message", "iq", "presence", "foo"}
var spaces = []string{"", "STREAM", "urn:other", "OTHER"} // OTHER: the stanza namespace the stream does not use

func (sh shape) attrs() []xml.Attr {
	var a []xml.Attr
	if sh.typ != "" {
		a = append(a, xml.Attr{Name: xml.Name{Local: "type"}, Value: sh.typ})
	}
	switch sh.id {
	case 1:
		a = append(a, xml.Attr{Name: xml.Name{Local: "id"}, Value: ""})
	case 2:
		a = append(a, xml.Attr{Name: xml.Name{Local: "id"}, Value: "given-id"})
	}
	switch sh.from {
	case 1:
		a = append(a, xml.Attr{Name: xml.Name{Local: "from"}, Value: ""})
	case 2:
		a = append(a, xml.Attr{Name: xml.Name{Local: "from"}, Value: "a@example.org/x"})
	}
	a = append(a, xml.Attr{Name: xml.Name{Local: "to"}, Value: "b@example.org"})
	if sh.ext {
		a = append(a, xml.Attr{Name: xml.Name{Space: "urn:ext", Local: "id"}, Value: "ext-id"}, xml.Attr{Name: xml.Name{Space: "urn:ext", Local: "from"}, Value: ""})
	}
	return a
}

var large = strings.Repeat("0123456789", 500)

// inner returns the content as XML text (children in their own namespaces).
func (sh shape) inner() string {
	var b strings.Builder
	if sh.nested {
		b.WriteString(`<message xmlns="urn:fwd" from=""><iq xmlns="urn:fwd" type="get"></iq></message>`)
	}
	switch sh.payload {
	case 1:
		b.WriteString(`<body xmlns="urn:p" a="1">x &amp; y<c></c></body>`)
	case 2:
		b.WriteString(`<body xmlns="urn:p">` + large + `</body>`)
	}
	return b.String()
}

func (sh shape) start(streamNS string) xml.StartElement {
	ns := sh.ns
	if ns == "STREAM" {
		ns = streamNS
	}
	if ns == "OTHER" {
		ns = otherStanzaNS(streamNS)
	}
	st := xml.StartElement{Name: xml.Name{Space: ns, Local: sh.name}, Attr: sh.attrs()}
	if sh.xmlnsAttr && ns != "" {
		st.Attr = append(st.Attr, xml.Attr{Name: xml.Name{Local: "xmlns"}, Value: ns})
	}
	return st
}

func otherStanzaNS(streamNS string) string {
	if streamNS == stanza.NSClient {
		return stanza.NSServer
	}
	return stanza.NSClient
}

func innerTokens(doc string) []xml.Token {
	return xu.StripNS("<w>" + doc + "</w>")[1 : len(xu.StripNS("<w>"+doc+"</w>"))-1]
}

// tokens of the whole element
func (sh shape) tokens(streamNS string) []xml.Token {
	st := sh.start(streamNS)
	t := []xml.Token{st}
	t = append(t, innerTokens(sh.inner())...)
	return append(t, st.End())
}

// expected renders the tree the peer must receive ("*" for a generated id).
func (sh shape) expected(streamNS string, s2s bool, selfFrom string, idByCaller bool) string {
	ns := sh.ns
	if ns == "STREAM" {
		ns = streamNS
	}
	stanzaName0 := sh.name == "iq" || sh.name == "message" || sh.name == "presence"
	if ns == "OTHER" {
		ns = otherStanzaNS(streamNS)
		if stanzaName0 {
			// a stanza qualified by the other stanza namespace (relayed between a
			// client and a server stream) goes out in this stream's content
			// namespace: "every outgoing stanza carries the stream's content
			// namespace"
			ns = streamNS
		}
	}
	stanzaName := sh.name == "iq" || sh.name == "message" || sh.name == "presence"
	isStanza := stanzaName && (ns == "" || ns == stanza.NSClient || ns == stanza.NSServer)
	var attrs []xml.Attr
	haveID, haveFrom := false, false
	for _, a := range sh.attrs() {
		if a.Name.Space != "" {
			attrs = append(attrs, a)
			continue
		}
		if isStanza && (a.Name.Local == "id" || a.Name.Local == "from") && a.Value == "" {
			continue
		}
		if a.Name.Local == "id" {
			haveID = true
		}
		if a.Name.Local == "from" {
			haveFrom = true
		}
		attrs = append(attrs, a)
	}
	if ns == "" {
		// an element without a namespace inherits the stream's default namespace
		// on the wire; it cannot be told apart from one that names it
		ns = streamNS
	}
	if isStanza {
		if s2s && !haveFrom {
			attrs = append(attrs, xml.Attr{Name: xml.Name{Local: "from"}, Value: selfFrom})
		}
		if !haveID {
			attrs = append(attrs, xml.Attr{Name: xml.Name{Local: "id"}, Value: "*"})
		}
	} else if idByCaller && !haveID || (idByCaller && sh.id == 1) {
		// SendIQ & co. complete the id themselves
		var out []xml.Attr
		for _, a := range attrs {
			if a.Name.Local != "id" {
				out = append(out, a)
			}
		}
		attrs = append(out, xml.Attr{Name: xml.Name{Local: "id"}, Value: "*"})
	}
	st := xml.StartElement{Name: xml.Name{Space: ns, Local: sh.name}, Attr: attrs}
	toks := append([]xml.Token{st}, innerTokens(sh.inner())...)
	toks = append(toks, st.End())
	b, err := xu.Render(&xu.SliceReader{Toks: toks})
	if err != nil {
		panic("c05: reference rendering failed: " + err.Error())
	}
	roots, err := xu.Parse(b)
	if err != nil || len(roots) != 1 {
		panic(fmt.Sprintf("c05: reference does not parse: %s: %v", b, err))
	}
	return roots[0].String()
}

// ---- value forms

// liveSource: readers handed to the library are xml.Decoders over the
// serialized form instead of token slices. A decoder's character data is only
// valid until its next Token call, as with a stored payload that is re-parsed
// or a stream that is proxied.
var liveSource bool

func reader(toks []xml.Token) xml.TokenReader {
	if !liveSource {
		return &xu.SliceReader{Toks: toks}
	}
	b, err := xu.Render(&xu.SliceReader{Toks: toks})
	if err != nil {
		panic("c05: rendering a source failed: " + err.Error())
	}
	return xml.NewDecoder(strings.NewReader(string(b)))
}

type marshalerVal struct{ toks []xml.Token }

func (m marshalerVal) TokenReader() xml.TokenReader { return reader(m.toks) }

type writerToVal struct{ toks []xml.Token }

func (m writerToVal) WriteXML(w xmlstream.TokenWriter) (int, error) {
	return xmlstream.Copy(w, reader(m.toks))
}

// structVal is encoded by encoding/xml.
type structVal struct {
	XMLName xml.Name
	Attrs   []xml.Attr `xml:",any,attr"`
	Inner   string     `xml:",innerxml"`
}

func (sh shape) structValue(streamNS string) structVal {
	st := sh.start(streamNS)
	var attrs []xml.Attr
	for _, a := range st.Attr {
		if a.Name.Local == "xmlns" {
			continue // a struct cannot carry a duplicate declaration; encoding/xml writes xmlns itself
		}
		attrs = append(attrs, a)
	}
	return structVal{XMLName: st.Name, Attrs: attrs, Inner: sh.inner()}
}

var forms = []string{
	"Send(reader-with-a-second-element)",
	"Send", "SendElement", "TokenWriter",
	"Encode(struct)", "Encode(TokenReader)", "Encode(Marshaler)", "Encode(WriterTo)",
	"EncodeElement(struct)", "EncodeElement(struct+attrs)", "EncodeElement(Marshaler)", "EncodeElement(WriterTo)",
	"SendIQ", "SendIQElement", "EncodeIQ", "EncodeIQElement",
	"SendMessage", "SendMessageElement", "EncodeMessage", "EncodeMessageElement",
	"SendPresence", "SendPresenceElement", "EncodePresence", "EncodePresenceElement",
}

// other wraps the same content in a different outer element, to check that
// the supplied start element becomes the outermost tag.
func (sh shape) otherOuter() []xml.Token {
	st := xml.StartElement{Name: xml.Name{Space: "urn:wrong", Local: "wrong"}, Attr: []xml.Attr{{Name: xml.Name{Local: "w"}, Value: "1"}}}
	t := []xml.Token{st}
	t = append(t, innerTokens(sh.inner())...)
	return append(t, st.End())
}

// prebuilt holds the argument values of a call, so that a history can hand the
// very same values (sharing their attribute slices) to several calls.
type prebuilt struct {
	start xml.StartElement
	toks  []xml.Token
	inner []xml.Token // the content alone (nil: built afresh for every call)
}

// asDecoded replaces the stored tokens by what an xml.Decoder reports for the
// same element (copied, as an application keeps a payload it received):
// namespaced names carry their xmlns declaration as an attribute.
func (p *prebuilt) asDecoded() {
	b, err := xu.Render(&xu.SliceReader{Toks: p.toks})
	if err != nil {
		panic("c05: rendering stored tokens failed: " + err.Error())
	}
	toks, err := xu.Tokens(xml.NewDecoder(strings.NewReader(string(b))))
	if err != nil || len(toks) < 2 {
		panic(fmt.Sprintf("c05: decoding stored tokens failed: %v", err))
	}
	p.toks = toks
	p.start = toks[0].(xml.StartElement).Copy()
	p.inner = toks[1 : len(toks)-1]
}

func (sh shape) prebuild(streamNS string) *prebuilt {
	st := sh.start(streamNS)
	// spare capacity, as attribute lists built by append usually have
	st.Attr = append(make([]xml.Attr, 0, len(st.Attr)+4), st.Attr...)
	toks := sh.tokens(streamNS)
	if first, ok := toks[0].(xml.StartElement); ok {
		first.Attr = append(make([]xml.Attr, 0, len(first.Attr)+4), first.Attr...)
		toks[0] = first
	}
	return &prebuilt{start: st, toks: toks}
}

func doTransmit(s *xmpp.Session, form string, sh shape, streamNS string, pre ...*prebuilt) (err error, applicable bool) {
	ctx := context.Background()
	toks := sh.tokens(streamNS)
	inner := func() xml.TokenReader { return reader(innerTokens(sh.inner())) }
	start := sh.start(streamNS)
	if len(pre) > 0 {
		start, toks = pre[0].start, pre[0].toks
		if stored := pre[0].inner; stored != nil {
			inner = func() xml.TokenReader { return reader(stored) }
		}
	}
	plainNS := sh.ns == "" || sh.ns == "STREAM"
	switch form {
	case "Send":
		return s.Send(ctx, reader(toks)), true
	case "Send(reader-with-a-second-element)":
		// Send transmits the first element of the reader: what follows it in the
		// reader (eg. the next stanza of a queue that is relayed one Send at a
		// time) is not part of this call
		second := xml.StartElement{Name: xml.Name{Local: "presence"}, Attr: []xml.Attr{{Name: xml.Name{Local: "id"}, Value: "second-element"}}}
		return s.Send(ctx, reader(append(append([]xml.Token{}, toks...), second, second.End()))), true
	case "SendElement":
		return s.SendElement(ctx, inner(), start), true
	case "TokenWriter":
		w := s.TokenWriter()
		for _, t := range toks {
			if err = w.EncodeToken(t); err != nil {
				break
			}
		}
		cerr := w.Close()
		if err == nil {
			err = cerr
		}
		return err, true
	case "Encode(struct)":
		if sh.xmlnsAttr {
			return nil, false
		}
		return s.Encode(ctx, sh.structValue(streamNS)), true
	case "Encode(TokenReader)":
		return s.Encode(ctx, reader(toks)), true
	case "Encode(Marshaler)":
		return s.Encode(ctx, marshalerVal{toks}), true
	case "Encode(WriterTo)":
		return s.Encode(ctx, writerToVal{toks}), true
	case "EncodeElement(struct)":
		if sh.xmlnsAttr {
			return nil, false
		}
		v := structVal{XMLName: xml.Name{Space: "urn:wrong", Local: "wrong"}, Inner: sh.inner()}
		return s.EncodeElement(ctx, v, start), true
	case "EncodeElement(struct+attrs)":
		// the attributes are fields of the value, the start element only names
		// the element: as with encoding/xml both end up on the outermost tag
		if sh.xmlnsAttr {
			return nil, false
		}
		v := sh.structValue(streamNS)
		v.XMLName = xml.Name{Space: "urn:wrong", Local: "wrong"}
		return s.EncodeElement(ctx, v, xml.StartElement{Name: start.Name}), true
	case "EncodeElement(Marshaler)":
		return s.EncodeElement(ctx, marshalerVal{sh.otherOuter()}, start), true
	case "EncodeElement(WriterTo)":
		return s.EncodeElement(ctx, writerToVal{sh.otherOuter()}, start), true
	}
	// stanza specific, non-blocking (reply-typed) variants
	kind := ""
	switch {
	case strings.Contains(form, "IQ"):
		kind = "iq"
	case strings.Contains(form, "Message"):
		kind = "message"
	case strings.Contains(form, "Presence"):
		kind = "presence"
	}
	if sh.name != kind || !plainNS || sh.xmlnsAttr {
		return nil, false
	}
	idv := ""
	if sh.id == 2 {
		idv = "given-id"
	}
	switch form {
	case "SendIQ":
		_, err = s.SendIQ(ctx, reader(toks))
	case "SendIQElement", "EncodeIQElement":
		if sh.from != 0 || sh.id == 1 {
			return nil, false // the typed header cannot express an empty attribute
		}
		iq := stanza.IQ{XMLName: start.Name, ID: idv, Type: stanza.IQType(sh.typ), To: mustJID("b@example.org")}
		if form == "SendIQElement" {
			_, err = s.SendIQElement(ctx, inner(), iq)
		} else {
			_, err = s.EncodeIQElement(ctx, marshalerVal{innerTokens(sh.inner())}, iq)
		}
	case "EncodeIQ":
		_, err = s.EncodeIQ(ctx, marshalerVal{toks})
	case "SendMessage":
		_, err = s.SendMessage(ctx, reader(toks))
	case "SendMessageElement", "EncodeMessageElement":
		if sh.from != 0 || sh.id == 1 {
			return nil, false
		}
		m := stanza.Message{XMLName: start.Name, ID: idv, Type: stanza.MessageType(sh.typ), To: mustJID("b@example.org")}
		if form == "SendMessageElement" {
			_, err = s.SendMessageElement(ctx, inner(), m)
		} else {
			_, err = s.EncodeMessageElement(ctx, marshalerVal{innerTokens(sh.inner())}, m)
		}
	case "EncodeMessage":
		_, err = s.EncodeMessage(ctx, marshalerVal{toks})
	case "SendPresence":
		_, err = s.SendPresence(ctx, reader(toks))
	case "SendPresenceElement", "EncodePresenceElement":
		if sh.from != 0 || sh.id == 1 {
			return nil, false
		}
		p := stanza.Presence{XMLName: start.Name, ID: idv, Type: stanza.PresenceType(sh.typ), To: mustJID("b@example.org")}
		if form == "SendPresenceElement" {
			_, err = s.SendPresenceElement(ctx, inner(), p)
		} else {
			_, err = s.EncodePresenceElement(ctx, marshalerVal{innerTokens(sh.inner())}, p)
		}
	case "EncodePresence":
		_, err = s.EncodePresence(ctx, marshalerVal{toks})
	default:
		return nil, false
	}
	return err, true
}

func shapesBody(c *nd.Ctx) nd.Result { liveSource = false; return shapesBodyN(c, 1) }

// liveBody: the same product with readers that are live decoders.
func liveBody(c *nd.Ctx) nd.Result {
	liveSource = true
	defer func() { liveSource = false }()
	return shapesBodyN(c, 1)
}

// reuseBody: the same argument values (start element, token list) are handed
// to two consecutive calls, as an application does that keeps a start element
// or a stored stanza around; the second call is judged like the first.
func reuseBody(c *nd.Ctx) nd.Result { liveSource = false; return shapesBodyN(c, 2) }

// seqBody: the judged call is preceded by another call on the same session,
// with its own entry point, element name and namespace: whatever the first
// call leaves behind in the session (the state of the token rewriting, buffered
// output, held locks) must not show in the second call's element.
var seqFirst []string // entry points of the first call; nil: not a sequence run

var seqFirstQuick = []string{"Send", "TokenWriter", "Encode(struct)", "EncodeElement(Marshaler)", "EncodeIQ", "SendMessageElement"}

func seqBody(first []string) nd.Body {
	return func(c *nd.Ctx) nd.Result {
		liveSource = false
		seqFirst = first
		defer func() { seqFirst = nil }()
		return shapesBodyN(c, 1)
	}
}

func shapesBodyN(c *nd.Ctx, calls int) (res nd.Result) {
	nroles := 4
	if seqFirst != nil && len(seqFirst) < len(forms) {
		nroles = 2 // quick tier of the sequences part
	}
	role := c.Choose(nroles, "stream") // 0 client-to-server, 1 server-to-server initiated by us, 2 server-to-server received, 3 the same established by the default negotiator (addresses learned from the peer's header)
	s2s := role != 0
	form := forms[c.Choose(len(forms), "form")]
	sh := shape{name: names[c.Choose(len(names), "name")], ns: spaces[c.Choose(len(spaces), "namespace")]}
	sh.id = c.Choose(3, "id")
	sh.from = c.Choose(3, "from")
	var sh1 shape
	form1 := ""
	if seqFirst == nil {
		sh.xmlnsAttr = c.Choose(2, "xmlns-attribute") == 1
		sh.nested = c.Choose(2, "nested-stanza-named-child") == 1
		sh.payload = c.Choose(3, "payload")
		sh.ext = c.Choose(2, "foreign-namespace-attributes-named-id-and-from") == 1
		headerIsStruct := strings.Contains(form, "struct") || (strings.HasSuffix(form, "Element") && (strings.Contains(form, "IQ") || strings.Contains(form, "Message") || strings.Contains(form, "Presence")))
		if sh.ext && (headerIsStruct || sh.payload == 2 || sh.nested) {
			return nd.Result{Skip: true} // struct values have no place for them; size and nesting play no part
		}
	} else {
		sh.payload = 1
		form1 = seqFirst[c.Choose(len(seqFirst), "first-call-form")]
		sh1 = shape{name: names[c.Choose(len(names), "first-call-name")], ns: spaces[c.Choose(len(spaces), "first-call-namespace")], payload: 1}
		sh1.nested = c.Choose(2, "first-call-nested-stanza-named-child") == 1
		if nroles == 4 {
			sh1.xmlnsAttr = c.Choose(2, "first-call-xmlns-attribute") == 1
		}
		switch sh1.name {
		case "iq":
			sh1.typ = "result"
		case "message", "presence":
			sh1.typ = "error"
		}
	}
	// reply types so that the correlated variants do not block
	switch sh.name {
	case "iq":
		sh.typ = "result"
	case "message", "presence":
		sh.typ = "error"
	}
	streamNS := stanza.NSClient
	if s2s {
		streamNS = stanza.NSServer
	}
	mk := sess.New
	if role == 2 {
		mk = sess.NewReceived
	}
	if role == 3 {
		mk = sess.NewReceivedNegotiated
	}
	s, rw, err := mk(streamNS, "")
	if err != nil {
		panic("c05: setup: " + err.Error())
	}
	desc := fmt.Sprintf("%s name=%s ns=%q id=%d from=%d xmlns-attr=%v nested=%v payload=%d s2s=%v stream-kind=%d", form, sh.name, sh.ns, sh.id, sh.from, sh.xmlnsAttr, sh.nested, sh.payload, s2s, role)
	if sh.ext {
		desc += " +ext:id,ext:from"
	}
	var terr error
	var applicable bool
	before := rw.Out.Len()
	var pn *nd.Panic
	tag := ""
	if liveSource && (sh.xmlnsAttr || sh.ext || sh.payload == 2 || form == "Encode(WriterTo)") {
		// a decoder reports the declaration as an attribute by itself;
		// Encode(WriterTo) is the known finding of the shapes part
		return nd.Result{Skip: true}
	}
	if liveSource {
		tag = "live-source:"
		desc += " (readers are live decoders)"
	}
	if seqFirst != nil {
		if form == "Encode(WriterTo)" || form1 == "Encode(WriterTo)" {
			return nd.Result{Skip: true} // the known finding of the shapes part (nothing is flushed)
		}
		var err1 error
		ok1 := false
		if p1 := nd.Catch(func() { err1, ok1 = doTransmit(s, form1, sh1, streamNS) }); p1 != nil || err1 != nil || !ok1 {
			return nd.Result{Skip: true} // the first call by itself is the business of the shapes part
		}
		tag = "after-another-call:"
		desc += fmt.Sprintf(" (after a first call %s name=%s ns=%q nested=%v xmlns-attr=%v)", form1, sh1.name, sh1.ns, sh1.nested, sh1.xmlnsAttr)
		before = rw.Out.Len()
	}
	if calls == 1 {
		pn = nd.Catch(func() { terr, applicable = doTransmit(s, form, sh, streamNS) })
	} else {
		if sh.payload == 2 || form == "Encode(WriterTo)" {
			// the size of the content plays no part in what is reused;
			// Encode(WriterTo) is the known finding of the shapes part (nothing is flushed)
			return nd.Result{Skip: true}
		}
		pre := sh.prebuild(streamNS)
		if c.Choose(2, "stored-tokens-are-what-a-decoder-reported") == 1 {
			if sh.xmlnsAttr || sh.ext {
				// a decoder reports declarations (xmlns, xmlns:prefix) as attributes by
				// themselves; what encoding/xml's Encoder makes of those is outside
				// this check's domain (see DESIGN.md 0.4)
				return nd.Result{Skip: true}
			}
			pre.asDecoded()
			desc += " (stored tokens as a decoder reports them)"
		}
		tag = "reused-arguments:"
		desc += fmt.Sprintf(" (call %d of %d with the same argument values)", calls, calls)
		pn = nd.Catch(func() {
			for i := 0; i < calls; i++ {
				before = rw.Out.Len()
				terr, applicable = doTransmit(s, form, sh, streamNS, pre)
				if terr != nil || !applicable {
					return
				}
			}
		})
	}
	if pn == nil && !applicable {
		return nd.Result{Skip: true}
	}
	c.Note("%s", desc)
	res = nd.Result{Outcome: form, NonTrivial: desc}
	defer func() {
		if res.Violation != nil && tag != "" {
			res.Violation.Sig = tag + res.Violation.Sig
		}
	}()
	if pn != nil {
		res.Violation = &nd.Violation{Sig: "transmit:" + pn.Sig(), Msg: desc + ": panic " + pn.Value + "\n" + pn.Stack}
		return res
	}
	if terr != nil {
		res.Violation = &nd.Violation{Sig: "transmit:unexpected-error:" + form, Msg: fmt.Sprintf("%s: %v", desc, terr)}
		return res
	}
	wire := rw.Out.String()[before:]
	roots, perr := xu.Parse([]byte(sess.Header(streamNS) + wire + "</stream:stream>"))
	short := wire
	if len(short) > 400 {
		short = short[:200] + "…" + short[len(short)-150:]
	}
	if perr != nil || len(roots) != 1 {
		res.Violation = &nd.Violation{Sig: "wire:malformed:" + form, Msg: fmt.Sprintf("%s: wrote %q: %v", desc, short, perr)}
		return res
	}
	els := roots[0].Children
	if len(els) != 1 {
		sig := "wire:not-exactly-one-element:" + form
		if len(els) == 0 {
			sig = "wire:nothing-written-after-successful-call:" + form
		}
		res.Violation = &nd.Violation{Sig: sig, Msg: fmt.Sprintf("%s: the call returned nil and the wire holds %d new top-level elements: %q", desc, len(els), short)}
		return res
	}
	idByCaller := strings.Contains(form, "IQ") || strings.Contains(form, "Message") || strings.Contains(form, "Presence")
	want := sh.expected(streamNS, s2s, s.LocalAddr().String(), idByCaller)
	got := els[0]
	// generated ids match any non-empty value
	if strings.Contains(want, `{}id="*"`) {
		for i, a := range got.Attr {
			if a.Name.Local == "id" && a.Name.Space == "" && a.Value != "" && a.Value != "given-id" {
				got.Attr[i].Value = "*"
			}
		}
	}
	if sh.ns == "OTHER" && got.String() != want {
		// a stanza-named element qualified by the other stanza namespace: the
		// statement's clauses pull both ways ("same name" / "the stream's content
		// namespace") and the entry points differ; either namespace is accepted,
		// everything else is compared as usual
		alt := strings.Replace(want, "<{"+streamNS+"}", "<{"+otherStanzaNS(streamNS)+"}", 1)
		if got.String() == alt {
			want = alt
		}
	}
	if got.String() != want {
		g, w := got.String(), want
		if len(g) > 600 {
			g, w = g[:300]+"…", w[:300]+"…"
		}
		what := "content"
		if !strings.HasPrefix(got.String(), want[:strings.Index(want, ">")+1]) {
			what = "outermost-tag"
		}
		res.Violation = &nd.Violation{Sig: "wire:element-differs:" + what + ":" + form, Msg: fmt.Sprintf("%s:\n got  %s\n want %s", desc, g, w)}
	}
	return res
}

func init() {
	drv.Register(&drv.Prop{
		ID:    "C05",
		Level: "model_checking",
		Rule: "shapes: 24 transmit entry points / value forms (Send, SendElement, TokenWriter, Encode and EncodeElement with struct / TokenReader / Marshaler / WriterTo values, the Send/Encode IQ, message and presence families with reply types) x element name {message, iq, presence, foo} x namespace {none, the stream's, foreign} x id {absent, empty, set} x from {absent, empty, set} x explicit xmlns attribute x nested stanza-named child x payload {none, small, 5000 bytes} x c2s/s2s: after the call returns nil the wire must hold exactly one more complete top-level element tree-equal to a reference (supplied start outermost, id completed, namespace defaulted, from added on s2s, nothing else altered). " +
			"schedules (part 'concurrent'): 2-3 concurrent senders through different entry points plus a handler reply on the controlled scheduler, every interleaving up to the preemption bound: the peer's byte stream must re-parse into exactly the expected elements, none interleaved. Non-trivial = every distinct case.",
		Assumptions: []string{"elements in a foreign namespace are only required to arrive whole and unaltered", "generated ids match any non-empty value", "comparison is on parsed trees (namespace declarations are not attributes)"},
		Parts: func(tier string) []drv.Part {
			b := 4 * time.Minute
			return append([]drv.Part{{Name: "shapes", Body: shapesBody, CutDepth: 3, Budget: b}, {Name: "closed-writer", Desc: "a token writer used again after Close", Body: closedWriterBody, CutDepth: 2, Workers: 2, Budget: b},
				{Name: "live-sources", Desc: "the readers and values handed to the entry points produce their tokens from a live xml.Decoder (character data valid until the next token only)", Body: liveBody, CutDepth: 3, Budget: b},
				{Name: "reused-arguments", Desc: "two consecutive calls given the very same start element / token list values; the second call is judged", Body: reuseBody, CutDepth: 3, Budget: b},
				{Name: "sequences", Desc: "the judged call follows another call on the same session (its own entry point, element name, namespace, nested stanza-named child, explicit declaration): state left behind by the first call must not show", Body: seqBody(map[bool][]string{true: forms, false: seqFirstQuick}[tier == "thorough"]), CutDepth: 4, Budget: b}}, concurrentParts(tier)...)
		},
	})
}
