package c15

import (
	"context"
	"errors"
	"fmt"
	"net"

	"mellium.im/xmpp/ibb"
	"mellium.im/xmpp/mux"
	"mellium.im/xmpp/stanza"

	"verif/nd"
	"verif/vs"
	"verif/vsess"
)

// expectBody: two Expect calls for the same (peer, sid). The documented
// take-over: the call that registers second cancels the first, which returns
// its context error; when the peer then opens the stream, the surviving call
// gets the connection and the serve loop goes on.
func expectBody(c *nd.Ctx) nd.Result {
	carrier := []string{"iq", "message"}[c.Choose(2, "carrier")]
	ns := stanza.NSClient
	var env *vsess.Env
	var setupErr error
	var conns [2]net.Conn
	var errs [2]error
	var returned [2]bool
	var readBack string
	var readErr error
	out := vs.Run(c, vs.Options{Horizon: 40000}, func() {
		env, setupErr = vsess.New(ns, 0)
		if setupErr != nil {
			return
		}
		h := &ibb.Handler{}
		l := h.Listen(env.S)
		env.Serve(mux.New(ns, ibb.Handle(h)))
		expect := func(i int) {
			conns[i], errs[i] = l.Expect(context.Background(), mustJID(peerJID), "s1")
			// published as one step: the stream is used by another thread
			vs.Atomically(func() { returned[i] = true })
		}
		vs.GoNamed("expect1", false, func() { expect(0) })
		vs.GoNamed("peer", false, func() {
			// the stream is opened once the take-over has happened (the losing
			// call has returned)
			vs.Block("one-expect-returned", func() bool { return returned[0] || returned[1] })
			env.PeerWrite(openReq("o1", "s1", carrier, 4096))
		})
		expect(1)
		vsess.Wait("both-returned", func() bool { return returned[0] && returned[1] })
		// the stream the surviving call got carries data like any other
		for i := range conns {
			if errs[i] == nil && conns[i] != nil {
				env.PeerWrite(dataPacket(carrier, "d0", "s1", 0, []byte("xyz")))
				buf := make([]byte, 8)
				n, rerr := conns[i].Read(buf)
				readBack, readErr = string(buf[:n]), rerr
			}
		}
		env.PeerWrite(`</stream:stream>`)
		vsess.Wait("serve-done", func() bool { return env.ServeDone })
	})
	if setupErr != nil {
		panic(setupErr)
	}
	desc := fmt.Sprintf("two Expect calls for the same stream, then the peer opens it (carrier=%s)", carrier)
	c.Note("%s outcome=%s", desc, out.Kind)
	for _, t := range out.Trace {
		c.Note("  %s", t)
	}
	res := nd.Result{Outcome: out.Kind, NonTrivial: desc + fmt.Sprint(c.Vector())}
	fail := func(sig, f string, a ...any) nd.Result {
		res.Violation = &nd.Violation{Sig: "expect:" + sig, Msg: desc + fmt.Sprintf(" [errors %v / %v]: ", errs[0], errs[1]) + fmt.Sprintf(f, a...)}
		return res
	}
	switch out.Kind {
	case "panic":
		return fail(out.Panic.Sig(), "panic in thread %s: %s\n%s", out.PanicIn, out.Panic.Value, out.Panic.Stack)
	case "deadlock":
		if returned[0] && returned[1] {
			return fail("expected-stream-carries-no-data", "the data sent on the stream never reaches its reader; blocked threads: %v", out.Blocked)
		}
		return fail("surviving-call-never-gets-the-stream", "blocked threads: %v", out.Blocked)
	case "horizon":
		return fail("does-not-terminate", "blocked: %v", out.Blocked)
	}
	got, cancelled := 0, 0
	for i := range conns {
		switch {
		case errs[i] == nil && conns[i] != nil:
			got++
		case errors.Is(errs[i], context.Canceled):
			cancelled++
		default:
			return fail("unexpected-result", "call %d returned (%v, %v)", i+1, conns[i], errs[i])
		}
	}
	if got != 1 || cancelled != 1 {
		return fail("take-over", "%d calls got the stream, %d were cancelled", got, cancelled)
	}
	if readBack != "xyz" || readErr != nil {
		return fail("expected-stream-carries-no-data", "the peer sent \"xyz\" on the stream, the application read %q (%v)", readBack, readErr)
	}
	return res
}
