package c15

import (
	"context"
	"fmt"
	"io"
	"os"
	"strconv"
	"strings"

	"mellium.im/xmpp/ibb"
	"mellium.im/xmpp/mux"
	"mellium.im/xmpp/stanza"

	"verif/nd"
	"verif/vs"
	"verif/vsess"
)

// splitter cuts the library's output into complete top-level elements in one
// pass (the whole-output re-parse of autoPeer is quadratic, which the
// 65536-packet histories cannot afford).
type splitter struct {
	buf   []byte
	pos   int // scan position
	depth int
	start int // start of the current top-level element
	tag   int // start of the current tag, -1 outside tags
	quote byte
}

func (s *splitter) feed(b []byte, emit func(raw string)) {
	if s.pos == 0 && len(s.buf) == 0 {
		s.tag = -1
	}
	s.buf = append(s.buf, b...)
	for ; s.pos < len(s.buf); s.pos++ {
		ch := s.buf[s.pos]
		if s.tag < 0 {
			if ch == '<' {
				s.tag = s.pos
			}
			continue
		}
		if s.quote != 0 {
			if ch == s.quote {
				s.quote = 0
			}
			continue
		}
		switch ch {
		case '"', '\'':
			s.quote = ch
		case '>':
			t := s.buf[s.tag : s.pos+1]
			switch {
			case len(t) > 1 && (t[1] == '?' || t[1] == '!'):
			case len(t) > 1 && t[1] == '/':
				s.depth--
				if s.depth == 0 {
					emit(string(s.buf[s.start : s.pos+1]))
				}
				if s.depth < 0 { // the closing tag of the stream
					s.depth = 0
				}
			case len(t) > 2 && t[len(t)-2] == '/':
				if s.depth == 0 {
					emit(string(t))
				}
			default:
				if s.depth == 0 {
					s.start = s.tag
				}
				s.depth++
			}
			s.tag = -1
		}
	}
	// drop what has been consumed
	if s.depth == 0 && s.tag < 0 {
		s.buf = s.buf[:0]
		s.pos = 0
	}
}

var wrapPackets = 65536 + 5

func init() {
	if n, err := strconv.Atoi(os.Getenv("C15_WRAP_N")); err == nil && n > 0 {
		wrapPackets = n // debugging aid: shorter histories
	}
}

// wrapBody: histories long enough for the sequence number to wrap around.
// One canonical schedule per direction and carrier.
func wrapBody(c *nd.Ctx) nd.Result {
	dir := []string{"send", "receive"}[c.Choose(2, "direction")]
	acked := c.Choose(2, "carrier") == 0
	carrier := map[bool]string{true: "iq", false: "message"}[acked]
	ns := stanza.NSClient
	var env *vsess.Env
	var setupErr, opErr error
	data := payload(wrapPackets)
	if dir == "send" {
		data = payload(3 * wrapPackets)
	}
	var got []byte
	var wireSeqErr string
	npk, opens, closes := 0, 0, 0
	sawEOF := false
	out := vs.Run(c, vs.Options{Horizon: 60000000, Canonical: true, Fair: 8}, func() {
		env, setupErr = vsess.New(ns, 0)
		if setupErr != nil {
			return
		}
		h := &ibb.Handler{}
		sp := &splitter{}
		// the peer: acknowledges every set IQ; for the sending direction it also
		// checks the packets as they pass (nothing is kept)
		env.Lib.OnWrite = func(b []byte) {
			sp.feed(b, func(raw string) {
				for _, el := range vsess.TopLevel(ns, raw) {
					if dir == "send" {
						switch {
						case strings.Contains(el.Raw, "<open"):
							opens++
						case strings.Contains(el.Raw, "<close"):
							closes++
						case strings.Contains(el.Raw, "<data"):
							pk, _, _, err := wirePackets(ns, el.Raw)
							if err != nil || len(pk) != 1 {
								if wireSeqErr == "" {
									wireSeqErr = fmt.Sprintf("packet %d does not parse: %v", npk, err)
								}
							} else {
								if pk[0].seq != fmt.Sprint(npk%65536) && wireSeqErr == "" {
									wireSeqErr = fmt.Sprintf("packet %d has seq=%s", npk, pk[0].seq)
								}
								if pk[0].carrier != carrier && wireSeqErr == "" {
									wireSeqErr = fmt.Sprintf("packet %d is carried by <%s/>", npk, pk[0].carrier)
								}
								got = append(got, pk[0].data...)
							}
							npk++
						}
					}
					if el.Start.Name.Local == "iq" && el.Attr("type") == "set" {
						env.PeerWrite(fmt.Sprintf(`<iq type='result' id='%s' from='%s'/>`, el.Attr("id"), peerJID))
					}
				}
			})
		}
		l := h.Listen(env.S)
		env.Serve(mux.New(ns, ibb.Handle(h)))
		if dir == "send" {
			var conn *ibb.Conn
			conn, opErr = h.OpenIQ(context.Background(), stanza.IQ{To: mustJID(peerJID)}, env.S, acked, 3, "sid1")
			if opErr != nil {
				return
			}
			// one base64 group per packet: three bytes, then Flush
			for off := 0; off < len(data) && opErr == nil; off += 3 {
				end := off + 3
				if end > len(data) {
					end = len(data)
				}
				_, opErr = conn.Write(data[off:end])
				if opErr == nil {
					opErr = conn.Flush()
				}
			}
			if opErr == nil {
				opErr = conn.Close()
			}
		} else {
			env.PeerWrite(openReq("o1", "s1", carrier, 4096))
			conn, err := l.Accept()
			if err != nil {
				opErr = err
				return
			}
			buf := make([]byte, 8)
			for i := 0; i < wrapPackets && opErr == nil; i++ {
				env.PeerWrite(dataPacket(carrier, fmt.Sprintf("d%d", i), "s1", i%65536, data[i:i+1]))
				n, err := conn.Read(buf)
				got = append(got, buf[:n]...)
				if err != nil {
					opErr = fmt.Errorf("read of packet %d: %w", i, err)
				}
			}
			if opErr == nil {
				env.PeerWrite(closeReq("c1", "s1"))
				n, err := conn.Read(buf)
				got = append(got, buf[:n]...)
				sawEOF = err == io.EOF
			}
		}
		env.PeerWrite("</stream:stream>")
		vsess.Wait("serve-done", func() bool { return env.ServeDone })
	})
	if setupErr != nil {
		panic(setupErr)
	}
	desc := fmt.Sprintf("wrap: %s %d small packets carrier=%s", dir, wrapPackets, carrier)
	c.Note("%s outcome=%s steps=%d threads=%d", desc, out.Kind, out.Steps, out.Spawned)
	res := nd.Result{Outcome: out.Kind, NonTrivial: desc}
	fail := func(sig, f string, a ...any) nd.Result {
		res.Violation = &nd.Violation{Sig: "wrap:" + dir + ":" + sig, Msg: desc + ": " + fmt.Sprintf(f, a...)}
		return res
	}
	switch out.Kind {
	case "panic":
		return fail(out.Panic.Sig(), "panic in thread %s: %s\n%s", out.PanicIn, out.Panic.Value, out.Panic.Stack)
	case "deadlock":
		return fail("deadlock", "after %d bytes; blocked threads: %v", len(got), out.Blocked)
	case "horizon":
		return fail("does-not-terminate", "after %d bytes; blocked: %v", len(got), out.Blocked)
	}
	if opErr != nil {
		return fail("error", "after %d bytes: %v", len(got), opErr)
	}
	if dir == "send" {
		if wireSeqErr != "" {
			return fail("sequence-not-consecutive", "%s", wireSeqErr)
		}
		if opens != 1 || closes != 1 {
			return fail("open-close-count", "%d open and %d close requests on the wire", opens, closes)
		}
		if npk <= 65536 && os.Getenv("C15_WRAP_N") == "" {
			// not a property violation: the history did not reach the wrap-around
			panic(fmt.Sprintf("c15 wrap: only %d packets were sent, the harness no longer reaches the wrap-around", npk))
		}
	} else if !sawEOF {
		return fail("no-eof-after-close", "")
	}
	if string(got) != string(data) {
		return fail("bytes-differ", "%d bytes arrived, %d were sent (first difference at %d)", len(got), len(data), firstDiff(got, data))
	}
	return res
}
