package c15

import (
	"context"
	"fmt"
	"io"
	"strings"

	"mellium.im/xmpp/ibb"
	"mellium.im/xmpp/mux"
	"mellium.im/xmpp/stanza"

	"verif/nd"
	"verif/vs"
	"verif/vsess"
)

// openThenReceiveBody: we open the stream; the peer accepts it and starts
// sending at once (its first packets follow the result of the open request in
// the same write), then closes. Bytes sent by the accepting side must reach
// the opener's reader whatever the timing of the opener's serve loop relative
// to the return of Open.
func openThenReceiveBody(c *nd.Ctx) nd.Result {
	acked := c.Choose(2, "carrier") == 0
	npk := 1 + c.Choose(2, "packets")
	carrier := "message"
	if acked {
		carrier = "iq"
	}
	ns := stanza.NSClient
	var env *vsess.Env
	var setupErr, openErr, readErr error
	var got []byte
	want := []byte{}
	for i := 0; i < npk; i++ {
		want = append(want, []byte(fmt.Sprintf("p%d.", i))...)
	}
	out := vs.Run(c, vs.Options{Horizon: 40000}, func() {
		env, setupErr = vsess.New(ns, 0)
		if setupErr != nil {
			return
		}
		var seen strings.Builder
		done := map[string]bool{}
		env.Lib.OnWrite = func(b []byte) {
			seen.Write(b)
			for _, el := range vsess.TopLevel(ns, seen.String()) {
				id := el.Attr("id")
				if el.Start.Name.Local != "iq" || done[id] || el.Attr("type") != "set" {
					continue
				}
				done[id] = true
				reply := fmt.Sprintf(`<iq type='result' id='%s' from='%s'/>`, id, peerJID)
				if strings.Contains(el.Raw, "<open") {
					for i := 0; i < npk; i++ {
						reply += dataPacket(carrier, fmt.Sprintf("d%d", i), "sid1", i, []byte(fmt.Sprintf("p%d.", i)))
					}
					reply += closeReq("c1", "sid1")
				}
				env.PeerWrite(reply)
			}
		}
		h := &ibb.Handler{}
		env.Serve(mux.New(ns, ibb.Handle(h)))
		var conn *ibb.Conn
		conn, openErr = h.OpenIQ(context.Background(), stanza.IQ{To: mustJID(peerJID)}, env.S, acked, 4096, "sid1")
		if openErr == nil {
			got, readErr = io.ReadAll(conn)
		}
		env.PeerWrite("</stream:stream>")
		vsess.Wait("serve-done", func() bool { return env.ServeDone })
	})
	if setupErr != nil {
		panic(setupErr)
	}
	desc := fmt.Sprintf("we open (carrier=%s), the peer accepts and sends %d packets and a close right behind its answer", carrier, npk)
	c.Note("%s outcome=%s", desc, out.Kind)
	for _, t := range out.Trace {
		c.Note("  %s", t)
	}
	res := nd.Result{Outcome: out.Kind, NonTrivial: desc + fmt.Sprint(c.Vector())}
	wire := ""
	if env != nil {
		wire = string(env.Lib.Written())
	}
	switch {
	case out.Kind == "panic":
		res.Violation = &nd.Violation{Sig: "open-receive:" + out.Panic.Sig(), Msg: fmt.Sprintf("%s: panic in thread %s: %s\n%s", desc, out.PanicIn, out.Panic.Value, out.Panic.Stack)}
	case out.Kind != "complete":
		res.Violation = &nd.Violation{Sig: "open-receive:" + out.Kind, Msg: fmt.Sprintf("%s: %v", desc, out.Blocked)}
	case openErr != nil:
		res.Violation = &nd.Violation{Sig: "open-receive:open-fails", Msg: fmt.Sprintf("%s: Open returned %v although the peer accepted", desc, openErr)}
	case readErr != nil || string(got) != string(want):
		res.Violation = &nd.Violation{Sig: "open-receive:bytes-differ", Msg: fmt.Sprintf("%s: the opener read %q (%v), the peer sent %q; wire %q", desc, got, readErr, want, wire)}
	}
	return res
}
