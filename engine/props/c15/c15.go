// Package c15: an in-band bytestream is a reliable ordered byte pipe.
package c15

import (
	"context"
	"encoding/base64"
	"encoding/xml"
	"fmt"
	"io"
	"strings"
	"time"

	"mellium.im/xmlstream"
	"mellium.im/xmpp"
	"mellium.im/xmpp/ibb"
	"mellium.im/xmpp/mux"
	"mellium.im/xmpp/stanza"

	"verif/drv"
	"verif/nd"
	"verif/sess"
	"verif/vs"
	"verif/vsess"
	"verif/xu"
)

const ibbNS = "http://jabber.org/protocol/ibb"
const peerJID = "peer@example.net/p"

func payload(n int) []byte {
	b := make([]byte, n)
	for i := range b {
		b[i] = byte(i%251 + 1)
	}
	return b
}

type packet struct {
	carrier string
	id      string
	seq     string
	sid     string
	data    []byte
	raw     string
}

// wirePackets extracts the IBB data packets the library wrote.
func wirePackets(ns, wire string) (pk []packet, opens, closes int, err error) {
	if !strings.Contains(wire, "</stream:stream>") {
		wire += "</stream:stream>"
	}
	roots, perr := xu.Parse([]byte(sess.Header(ns) + wire))
	if perr != nil || len(roots) != 1 {
		return nil, 0, 0, fmt.Errorf("wire does not parse: %v", perr)
	}
	for _, el := range roots[0].Children {
		for _, ch := range el.Children {
			if ch.Name.Space != ibbNS {
				continue
			}
			switch ch.Name.Local {
			case "open":
				opens++
			case "close":
				closes++
			case "data":
				p := packet{carrier: el.Name.Local}
				p.id, _ = el.AttrVal("", "id")
				p.seq, _ = ch.AttrVal("", "seq")
				p.sid, _ = ch.AttrVal("", "sid")
				text := ""
				for _, t := range ch.Children {
					text += t.Text
				}
				d, derr := base64.StdEncoding.DecodeString(strings.TrimSpace(text))
				if derr != nil {
					return nil, 0, 0, fmt.Errorf("packet seq=%s carries undecodable data %q", p.seq, text)
				}
				p.data = d
				pk = append(pk, p)
			}
		}
	}
	return pk, opens, closes, nil
}

// autoPeer acknowledges IBB requests the way an accepting peer does.
type autoPeer struct {
	env       *vsess.Env
	ns        string
	seen      strings.Builder
	done      map[string]bool
	openReply string // "result" or "error"
	acks      int
}

func (p *autoPeer) onWrite(b []byte) {
	p.seen.Write(b)
	for _, el := range vsess.TopLevel(p.ns, p.seen.String()) {
		id := el.Attr("id")
		if el.Start.Name.Local != "iq" || p.done[id] || el.Attr("type") != "set" {
			continue
		}
		p.done[id] = true
		switch {
		case strings.Contains(el.Raw, "<open") && p.openReply == "error":
			p.env.PeerWrite(fmt.Sprintf(`<iq type='error' id='%s' from='%s'><error type='cancel'><not-acceptable xmlns='urn:ietf:params:xml:ns:xmpp-stanzas'/></error></iq>`, id, peerJID))
		default:
			p.acks++
			p.env.PeerWrite(fmt.Sprintf(`<iq type='result' id='%s' from='%s'/>`, id, peerJID))
		}
	}
}

var blockSizes = []uint16{4, 5, 16, 2048, 4096, 65535}

func lengthsFor(bs int, tier string) []int {
	l := []int{0, 1, 2, 3, 4, 5, 6, 7, 8, 9, bs - 1, bs, bs + 1, 2*bs - 1, 2*bs + 1, 767, 768, 769, 1023, 1024, 1025, 3 * bs}
	if tier == "thorough" {
		l = append(l, 1535, 1536, 1537, 3071, 3072, 3073, 4*bs+2)
	}
	var out []int
	seen := map[int]bool{}
	for _, n := range l {
		if n >= 0 && n <= 70000 && !seen[n] {
			seen[n] = true
			out = append(out, n)
		}
	}
	return out
}

// sendBody: the sending direction.
func sendBody(tier string) nd.Body {
	return func(c *nd.Ctx) nd.Result {
		bs := blockSizes[c.Choose(len(blockSizes), "block-size")]
		lens := lengthsFor(int(bs), tier)
		n := lens[c.Choose(len(lens), "length")]
		acked := c.Choose(2, "carrier") == 0
		flush := c.Choose(2, "flush-after-each-write") == 1
		// partition into Write calls: every composition for short payloads,
		// otherwise cuts around the block and base64 boundaries
		var cuts []int
		if n <= 6 {
			for i := 1; i < n; i++ {
				if c.Choose(2, "cut") == 1 {
					cuts = append(cuts, i)
				}
			}
		} else {
			cands := []int{1, int(bs) - 1, int(bs), int(bs) + 1, n / 2, n - 1}
			k := c.Choose(len(cands)+1, "cut-at")
			if k > 0 && cands[k-1] > 0 && cands[k-1] < n {
				cuts = append(cuts, cands[k-1])
			}
		}
		data := payload(n)
		ns := stanza.NSClient
		var env *vsess.Env
		var setupErr, openErr, closeErr error
		var writeErrs []error
		peer := &autoPeer{ns: ns, done: map[string]bool{}, openReply: "result"}
		out := vs.Run(c, vs.Options{Horizon: 400000, Canonical: true}, func() {
			env, setupErr = vsess.New(ns, 0)
			if setupErr != nil {
				return
			}
			peer.env = env
			env.Lib.OnWrite = peer.onWrite
			h := &ibb.Handler{}
			env.Serve(mux.New(ns, ibb.Handle(h)))
			var conn *ibb.Conn
			conn, openErr = h.OpenIQ(context.Background(), stanza.IQ{To: mustJID(peerJID)}, env.S, acked, bs, "sid1")
			if openErr != nil {
				return
			}
			prev := 0
			for _, cut := range append(cuts, n) {
				if cut > prev || n == 0 {
					_, werr := conn.Write(data[prev:cut])
					writeErrs = append(writeErrs, werr)
				}
				prev = cut
				if flush {
					writeErrs = append(writeErrs, conn.Flush())
				}
			}
			closeErr = conn.Close()
			env.PeerWrite("</stream:stream>")
			vsess.Wait("serve-done", func() bool { return env.ServeDone })
		})
		if setupErr != nil {
			panic("c15: setup: " + setupErr.Error())
		}
		carrier := map[bool]string{true: "iq", false: "message"}[acked]
		desc := fmt.Sprintf("send %d bytes block-size=%d carrier=%s cuts=%v flush=%v", n, bs, carrier, cuts, flush)
		c.Note("%s outcome=%s", desc, out.Kind)
		res := nd.Result{Outcome: out.Kind, NonTrivial: desc}
		fail := func(sig, f string, a ...any) nd.Result {
			res.Violation = &nd.Violation{Sig: "send:" + sig, Msg: desc + ": " + fmt.Sprintf(f, a...)}
			return res
		}
		switch out.Kind {
		case "panic":
			return fail(out.Panic.Sig(), "panic in thread %s: %s\n%s", out.PanicIn, out.Panic.Value, out.Panic.Stack)
		case "deadlock":
			return fail("deadlock", "blocked threads: %v", out.Blocked)
		case "horizon":
			return fail("does-not-terminate", "blocked: %v", out.Blocked)
		}
		if openErr != nil {
			return fail("open-error", "Open failed although the peer accepted: %v", openErr)
		}
		for _, e := range writeErrs {
			if e != nil {
				return fail("write-error", "%v", e)
			}
		}
		if closeErr != nil {
			return fail("close-error", "%v", closeErr)
		}
		pk, opens, closes, err := wirePackets(ns, string(env.Lib.Written()))
		if err != nil {
			return fail("wire", "%v", err)
		}
		if opens != 1 || closes != 1 {
			return fail("open-close-count", "%d open and %d close requests on the wire", opens, closes)
		}
		var got []byte
		for i, p := range pk {
			if p.seq != fmt.Sprint(i%65536) {
				return fail("sequence-not-consecutive", "packet %d has seq=%s", i, p.seq)
			}
			if p.sid != "sid1" {
				return fail("wrong-sid", "packet %d has sid=%q", i, p.sid)
			}
			if p.carrier != carrier {
				return fail("wrong-carrier", "packet %d is carried by <%s/>", i, p.carrier)
			}
			got = append(got, p.data...)
		}
		if string(got) != string(data) {
			return fail("bytes-differ", "the peer received %d bytes in %d packets, %d were written (first difference at %d)", len(got), len(pk), len(data), firstDiff(got, data))
		}
		return res
	}
}

func firstDiff(a, b []byte) int {
	for i := range a {
		if i >= len(b) || a[i] != b[i] {
			return i
		}
	}
	return len(a)
}

// openRefusedBody: the peer answers the open request with an error.
func openRefusedBody(c *nd.Ctx) nd.Result {
	acked := c.Choose(2, "carrier") == 0
	ns := stanza.NSClient
	var env *vsess.Env
	var setupErr, openErr error
	var conn *ibb.Conn
	peer := &autoPeer{ns: ns, done: map[string]bool{}, openReply: "error"}
	out := vs.Run(c, vs.Options{}, func() {
		env, setupErr = vsess.New(ns, 0)
		if setupErr != nil {
			return
		}
		peer.env = env
		env.Lib.OnWrite = peer.onWrite
		h := &ibb.Handler{}
		env.Serve(mux.New(ns, ibb.Handle(h)))
		conn, openErr = h.OpenIQ(context.Background(), stanza.IQ{To: mustJID(peerJID)}, env.S, acked, 4096, "sid1")
		// the refused stream does not exist: packets for it are refused like
		// packets for any unknown session
		env.PeerWrite(dataPacket("iq", "late-data", "sid1", 0, []byte("x")) + closeReq("late-close", "sid1") + "</stream:stream>")
		vsess.Wait("serve-done", func() bool { return env.ServeDone })
	})
	if setupErr != nil {
		panic(setupErr)
	}
	res := nd.Result{Outcome: out.Kind, NonTrivial: fmt.Sprint(acked)}
	if out.Kind != "complete" {
		res.Violation = &nd.Violation{Sig: "open:" + out.Kind, Msg: fmt.Sprintf("open refused by the peer: %s %v", out.Kind, out.Blocked)}
		return res
	}
	if openErr == nil || conn != nil {
		res.Violation = &nd.Violation{Sig: "open:succeeds-although-refused", Msg: fmt.Sprintf("the peer answered the open request with an error IQ but Open returned conn=%v err=%v", conn != nil, openErr)}
		return res
	}
	for _, el := range vsess.TopLevel(ns, string(env.Lib.Written())) {
		id := el.Attr("id")
		if id != "late-data" && id != "late-close" {
			continue
		}
		if el.Attr("type") != "error" || !strings.Contains(el.Raw, "item-not-found") {
			res.Violation = &nd.Violation{Sig: "open:refused-stream-still-registered", Msg: fmt.Sprintf("the open request was refused, yet a later %s for that session id was answered with %s", id, el.Raw)}
			return res
		}
	}
	return res
}

// ---- receiving direction

func dataPacket(carrier string, id string, sid string, seq int, data []byte) string {
	b := base64.StdEncoding.EncodeToString(data)
	if carrier == "message" {
		return fmt.Sprintf(`<message id='%s' from='%s' to='me@example.net/res'><data xmlns='%s' seq='%d' sid='%s'>%s</data></message>`, id, peerJID, ibbNS, seq, sid, b)
	}
	return fmt.Sprintf(`<iq type='set' id='%s' from='%s' to='me@example.net/res'><data xmlns='%s' seq='%d' sid='%s'>%s</data></iq>`, id, peerJID, ibbNS, seq, sid, b)
}

func openReq(id, sid, carrier string, bs int) string {
	return fmt.Sprintf(`<iq type='set' id='%s' from='%s' to='me@example.net/res'><open xmlns='%s' block-size='%d' sid='%s' stanza='%s'/></iq>`, id, peerJID, ibbNS, bs, sid, carrier)
}

func closeReq(id, sid string) string {
	return fmt.Sprintf(`<iq type='set' id='%s' from='%s' to='me@example.net/res'><close xmlns='%s' sid='%s'/></iq>`, id, peerJID, ibbNS, sid)
}

// receiveBody: the peer opens a stream and sends packets; the application
// reads. Explored under preemptions: the reader's buffer-empty check versus the
// handler's notification.
func receiveBody(c *nd.Ctx) nd.Result {
	carrier := []string{"iq", "message"}[c.Choose(2, "carrier")]
	npk := 1 + c.Choose(3, "packets")
	withClose := c.Choose(2, "peer-closes") == 0
	readSize := []int{1, 4, 64}[c.Choose(3, "read-buffer")]
	// the application lifts the limit on buffered data (documented: zero or
	// less means unlimited); the stream then uses a block size so small that
	// the packets on their way exceed one block
	unlimited := c.Choose(2, "SetReadBuffer-unlimited") == 1
	inBlock := 4096
	if unlimited {
		inBlock = 4
	}
	sizes := []int{3, 5, 2}
	var want []byte
	ns := stanza.NSClient
	var env *vsess.Env
	var setupErr, acceptErr, readErr error
	var got []byte
	sawEOF := false
	out := vs.Run(c, vs.Options{Horizon: 40000}, func() {
		env, setupErr = vsess.New(ns, 0)
		if setupErr != nil {
			return
		}
		h := &ibb.Handler{}
		l := h.Listen(env.S)
		env.Serve(mux.New(ns, ibb.Handle(h)))
		var in strings.Builder
		in.WriteString(openReq("o1", "s1", carrier, inBlock))
		off := 0
		all := payload(16)
		for i := 0; i < npk; i++ {
			d := all[off : off+sizes[i]]
			off += sizes[i]
			want = append(want, d...)
			in.WriteString(dataPacket(carrier, fmt.Sprintf("d%d", i), "s1", i, d))
		}
		if withClose {
			in.WriteString(closeReq("c1", "s1"))
		}
		if unlimited {
			// the packets are sent once the limit has been lifted
			env.PeerWrite(openReq("o1", "s1", carrier, inBlock))
		} else {
			env.PeerWrite(in.String())
		}
		conn, err := l.Accept()
		acceptErr = err
		if err != nil {
			return
		}
		if unlimited {
			conn.(*ibb.Conn).SetReadBuffer(0)
			env.PeerWrite(strings.TrimPrefix(in.String(), openReq("o1", "s1", carrier, inBlock)))
		}
		buf := make([]byte, readSize)
		for {
			if !withClose && len(got) >= len(want) {
				break
			}
			n, err := conn.Read(buf)
			got = append(got, buf[:n]...)
			if err == io.EOF {
				sawEOF = true
				break
			}
			if err != nil {
				readErr = err
				break
			}
		}
		env.PeerWrite("</stream:stream>")
		vsess.Wait("serve-done", func() bool { return env.ServeDone })
	})
	if setupErr != nil {
		panic(setupErr)
	}
	desc := fmt.Sprintf("receive carrier=%s packets=%d peer-closes=%v read-buffer=%d unlimited-buffer=%v", carrier, npk, withClose, readSize, unlimited)
	c.Note("%s outcome=%s", desc, out.Kind)
	for _, t := range out.Trace {
		c.Note("  %s", t)
	}
	res := nd.Result{Outcome: out.Kind, NonTrivial: desc + fmt.Sprint(c.Vector())}
	fail := func(sig, f string, a ...any) nd.Result {
		res.Violation = &nd.Violation{Sig: "receive:" + sig, Msg: desc + fmt.Sprintf(" [read %q so far]: ", got) + fmt.Sprintf(f, a...)}
		return res
	}
	switch out.Kind {
	case "panic":
		return fail(out.Panic.Sig(), "panic in thread %s: %s\n%s", out.PanicIn, out.Panic.Value, out.Panic.Stack)
	case "deadlock":
		sig := "deadlock"
		for _, b := range out.Blocked {
			if strings.HasPrefix(b, "main:") && strings.Contains(b, "recv") && len(got) < len(want) {
				sig = "reader-parked-forever-while-data-is-buffered"
			}
		}
		return fail(sig, "blocked threads: %v", out.Blocked)
	case "horizon":
		return fail("does-not-terminate", "blocked: %v", out.Blocked)
	}
	if acceptErr != nil || readErr != nil {
		return fail("error", "accept %v read %v", acceptErr, readErr)
	}
	if string(got) != string(want) {
		return fail("bytes-differ", "the application read %q, the peer sent %q", got, want)
	}
	if withClose && !sawEOF {
		return fail("no-eof-after-close", "")
	}
	return res
}

// ---- bad packets

var badKinds = []string{"valid", "unknown-sid", "seq-minus-1", "seq-plus-1", "invalid-base64", "empty-data", "closed-sid-remote", "oversized"}

func badPacketsBody(maxSeq int) nd.Body {
	return func(c *nd.Ctx) nd.Result {
		carrier := []string{"iq", "message"}[c.Choose(2, "carrier")]
		n := 1 + c.Choose(maxSeq, "nbad")
		var seqKinds []string
		for i := 0; i < n; i++ {
			seqKinds = append(seqKinds, badKinds[c.Choose(len(badKinds), "packet")])
		}
		ns := stanza.NSClient
		var env *vsess.Env
		var setupErr, acceptErr error
		var got []byte
		var want []byte
		type expect struct{ id, cond string }
		var expects []expect
		out := vs.Run(c, vs.Options{Horizon: 40000, Canonical: true}, func() {
			env, setupErr = vsess.New(ns, 0)
			if setupErr != nil {
				return
			}
			h := &ibb.Handler{}
			l := h.Listen(env.S)
			env.Serve(mux.New(ns, ibb.Handle(h)))
			// a second stream that the peer opens and closes again
			env.PeerWrite(openReq("o2", "s2", carrier, 16) + closeReq("c2", "s2"))
			c2, err := l.Accept()
			if err == nil {
				io.Copy(io.Discard, c2)
			}
			env.PeerWrite(openReq("o1", "s1", carrier, 16))
			conn, err := l.Accept()
			acceptErr = err
			if err != nil {
				return
			}
			conn.(*ibb.Conn).SetReadBuffer(16)
			var in strings.Builder
			seq := 0
			add := func(id, sid string, sq int, data []byte, cond string, raw string) {
				if raw == "" {
					raw = dataPacket(carrier, id, sid, sq, data)
				}
				in.WriteString(raw)
				expects = append(expects, expect{id, cond})
				if cond == "" {
					want = append(want, data...)
					seq++
				}
			}
			add("a", "s1", seq, []byte("abc"), "", "")
			for i, k := range seqKinds {
				id := fmt.Sprintf("b%d", i)
				switch k {
				case "valid":
					add(id, "s1", seq, []byte{byte('0' + i)}, "", "")
				case "unknown-sid":
					add(id, "nope", 0, []byte("x"), "item-not-found", "")
				case "seq-minus-1":
					add(id, "s1", seq-1, []byte("x"), "unexpected-request", "")
				case "seq-plus-1":
					add(id, "s1", seq+1, []byte("x"), "unexpected-request", "")
				case "invalid-base64":
					raw := strings.Replace(dataPacket(carrier, id, "s1", seq, []byte("xyz")), base64.StdEncoding.EncodeToString([]byte("xyz")), "!!!!", 1)
					// the sequence number of a refused packet is consumed by the library
					add(id, "s1", seq, nil, "bad-request", raw)
					seq++
				case "empty-data":
					add(id, "s1", seq, []byte{}, "", "")
				case "closed-sid-remote":
					add(id, "s2", 0, []byte("x"), "item-not-found", "")
				case "oversized":
					add(id, "s1", seq, []byte(strings.Repeat("o", 40)), "resource-constraint", "")
					seq++
				}
			}
			add("z", "s1", seq, []byte("def"), "", "")
			in.WriteString(closeReq("c1", "s1"))
			env.PeerWrite(in.String())
			b, _ := io.ReadAll(conn)
			got = b
			env.PeerWrite("</stream:stream>")
			vsess.Wait("serve-done", func() bool { return env.ServeDone })
		})
		if setupErr != nil {
			panic(setupErr)
		}
		desc := fmt.Sprintf("bad packets carrier=%s sequence=%v", carrier, seqKinds)
		c.Note("%s outcome=%s", desc, out.Kind)
		res := nd.Result{Outcome: out.Kind, NonTrivial: desc}
		wire := ""
		if env != nil {
			wire = string(env.Lib.Written())
		}
		fail := func(sig, f string, a ...any) nd.Result {
			res.Violation = &nd.Violation{Sig: "bad-packets:" + sig, Msg: desc + fmt.Sprintf(" [read %q wire %q]: ", got, wire) + fmt.Sprintf(f, a...)}
			return res
		}
		switch out.Kind {
		case "panic":
			return fail(out.Panic.Sig(), "panic in thread %s: %s\n%s", out.PanicIn, out.Panic.Value, out.Panic.Stack)
		case "deadlock":
			return fail("deadlock", "blocked threads: %v", out.Blocked)
		case "horizon":
			return fail("does-not-terminate", "blocked: %v", out.Blocked)
		}
		if acceptErr != nil {
			return fail("accept", "%v", acceptErr)
		}
		if string(got) != string(want) {
			return fail("delivered-bytes-disturbed", "the application read %q, the accepted packets carry %q", got, want)
		}
		roots, perr := xu.Parse([]byte(sess.Header(ns) + wire))
		if perr != nil || len(roots) != 1 {
			return fail("wire", "does not parse: %v", perr)
		}
		replies := map[string]*xu.Node{}
		for _, el := range roots[0].Children {
			id, _ := el.AttrVal("", "id")
			replies[id] = el
		}
		for _, ex := range expects {
			r := replies[ex.id]
			switch {
			case ex.cond == "" && carrier == "iq":
				if r == nil {
					return fail("valid-packet-not-acknowledged", "no reply to %s", ex.id)
				}
				if ty, _ := r.AttrVal("", "type"); ty != "result" {
					return fail("valid-packet-refused", "reply to %s is %s", ex.id, r.String())
				}
			case ex.cond != "":
				if r == nil {
					return fail("bad-packet-not-refused:"+ex.cond, "no error reply to %s (expected %s)", ex.id, ex.cond)
				}
				ty, _ := r.AttrVal("", "type")
				if ty != "error" || !strings.Contains(r.String(), "}"+ex.cond) {
					return fail("bad-packet-wrong-reply:"+ex.cond, "reply to %s is %s, expected a %s error", ex.id, r.String(), ex.cond)
				}
			}
		}
		return res
	}
}

// localCloseBody: data arriving for a stream the application closed locally.
func localCloseBody(c *nd.Ctx) nd.Result {
	carrier := []string{"iq", "message"}[c.Choose(2, "carrier")]
	racing := c.Choose(2, "data-arrives-while-closing") == 1
	ns := stanza.NSClient
	var env *vsess.Env
	var setupErr, closeErr error
	peer := &autoPeer{ns: ns, done: map[string]bool{}, openReply: "result"}
	out := vs.Run(c, vs.Options{Horizon: 40000}, func() {
		env, setupErr = vsess.New(ns, 0)
		if setupErr != nil {
			return
		}
		peer.env = env
		env.Lib.OnWrite = peer.onWrite
		h := &ibb.Handler{}
		l := h.Listen(env.S)
		env.Serve(mux.New(ns, ibb.Handle(h)))
		env.PeerWrite(openReq("o1", "s1", carrier, 4096))
		conn, err := l.Accept()
		if err != nil {
			closeErr = err
			return
		}
		if racing {
			// the packet is on its way when the application closes: the serve
			// loop handles it while Close runs
			env.PeerWrite(dataPacket(carrier, "late", "s1", 0, []byte("late")))
			closeErr = conn.Close()
			env.PeerWrite("</stream:stream>")
		} else {
			closeErr = conn.Close()
			env.PeerWrite(dataPacket(carrier, "late", "s1", 0, []byte("late")) + "</stream:stream>")
		}
		vsess.Wait("serve-done", func() bool { return env.ServeDone })
	})
	if setupErr != nil {
		panic(setupErr)
	}
	desc := "data for a locally closed stream, carrier=" + carrier
	if racing {
		desc = "data arriving while the stream is closed locally, carrier=" + carrier
	}
	res := nd.Result{Outcome: out.Kind, NonTrivial: desc}
	wire := ""
	if env != nil {
		wire = string(env.Lib.Written())
	}
	switch {
	case out.Kind == "panic":
		res.Violation = &nd.Violation{Sig: "closed-sid-local:" + out.Panic.Sig(), Msg: fmt.Sprintf("%s: panic in thread %s: %s\n%s", desc, out.PanicIn, out.Panic.Value, out.Panic.Stack)}
	case out.Kind != "complete":
		res.Violation = &nd.Violation{Sig: "closed-sid-local:" + out.Kind, Msg: fmt.Sprintf("%s: %v", desc, out.Blocked)}
	case closeErr != nil:
		res.Violation = &nd.Violation{Sig: "closed-sid-local:close-error", Msg: fmt.Sprintf("%s: %v", desc, closeErr)}
	case racing:
		// accepted or refused, depending on who came first
	case !strings.Contains(wire, `id="late"`) || !strings.Contains(wire[strings.Index(wire, `id="late"`)-80:], `type="error"`):
		res.Violation = &nd.Violation{Sig: "closed-sid-local:not-refused", Msg: fmt.Sprintf("%s: the packet was not refused with a stanza error; wire %q", desc, wire)}
	}
	return res
}

// closeDrainBody: we close while the peer still has bytes for us: it flushes
// them in response to our close request, before acknowledging it. They must be
// delivered to our reader, followed by end-of-file.
func closeDrainBody(c *nd.Ctx) nd.Result {
	carrier := []string{"iq", "message"}[c.Choose(2, "carrier")]
	npk := 1 + c.Choose(2, "packets")
	closeRefused := c.Choose(2, "peer-answers-close-with-error") == 1
	ns := stanza.NSClient
	var env *vsess.Env
	var setupErr, closeErr, readErr error
	var got, want []byte
	out := vs.Run(c, vs.Options{Horizon: 40000}, func() {
		env, setupErr = vsess.New(ns, 0)
		if setupErr != nil {
			return
		}
		var seen strings.Builder
		done := map[string]bool{}
		env.Lib.OnWrite = func(b []byte) {
			seen.Write(b)
			for _, el := range vsess.TopLevel(ns, seen.String()) {
				id := el.Attr("id")
				if el.Start.Name.Local != "iq" || done[id] || el.Attr("type") != "set" || !strings.Contains(el.Raw, "<close") {
					continue
				}
				done[id] = true
				for i := 0; i < npk; i++ {
					d := []byte(fmt.Sprintf("tail%d", i))
					want = append(want, d...)
					env.PeerWrite(dataPacket(carrier, fmt.Sprintf("t%d", i), "s1", i, d))
				}
				if closeRefused {
					// the peer does not know the session (any more): our side is closed all the same
					env.PeerWrite(fmt.Sprintf(`<iq type='error' id='%s' from='%s'><error type='cancel'><item-not-found xmlns='urn:ietf:params:xml:ns:xmpp-stanzas'/></error></iq>`, id, peerJID))
				} else {
					env.PeerWrite(fmt.Sprintf(`<iq type='result' id='%s' from='%s'/>`, id, peerJID))
				}
			}
		}
		h := &ibb.Handler{}
		l := h.Listen(env.S)
		env.Serve(mux.New(ns, ibb.Handle(h)))
		env.PeerWrite(openReq("o1", "s1", carrier, 4096))
		conn, err := l.Accept()
		if err != nil {
			closeErr = err
			return
		}
		closeErr = conn.Close()
		got, readErr = io.ReadAll(conn)
		env.PeerWrite("</stream:stream>")
		vsess.Wait("serve-done", func() bool { return env.ServeDone })
	})
	if setupErr != nil {
		panic(setupErr)
	}
	desc := fmt.Sprintf("local close while the peer flushes %d packets before acknowledging (close answered with an error: %v), carrier=%s", npk, closeRefused, carrier)
	if closeRefused && closeErr != nil {
		closeErr = nil // Close reports the peer's refusal: fine; what matters is that reads end
	}
	res := nd.Result{Outcome: out.Kind, NonTrivial: desc + fmt.Sprint(c.Vector())}
	switch {
	case out.Kind == "panic":
		res.Violation = &nd.Violation{Sig: "close-drain:" + out.Panic.Sig(), Msg: fmt.Sprintf("%s: panic in thread %s: %s\n%s", desc, out.PanicIn, out.Panic.Value, out.Panic.Stack)}
	case out.Kind != "complete":
		res.Violation = &nd.Violation{Sig: "close-drain:" + out.Kind, Msg: fmt.Sprintf("%s: %v", desc, out.Blocked)}
	case closeErr != nil || readErr != nil:
		res.Violation = &nd.Violation{Sig: "close-drain:error", Msg: fmt.Sprintf("%s: close %v read %v", desc, closeErr, readErr)}
	case string(got) != string(want):
		res.Violation = &nd.Violation{Sig: "close-drain:bytes-lost", Msg: fmt.Sprintf("%s: the peer flushed %q in response to our close, the reader got %q before end-of-file", desc, want, got)}
	}
	return res
}

var _ = xml.Name{}
var _ = xmlstream.Inner
var _ xmpp.Handler

func init() {
	drv.Register(&drv.Prop{
		ID:          "C15",
		Level:       "model_checking",
		Rule:        "sending: block size {4,5,16,2048,4096,65535} x payload length (0..9, around the block size, 767/768/769, 1023..1025, 3 blocks) x partition into Write calls (every composition up to 6 bytes, boundary cuts above) x Flush never/after each write x IQ/message carrier against an acknowledging peer: the data packets on the wire decode to exactly the written bytes, seq 0,1,2,..., constant sid, one open and one close; open refused => Open fails. receiving: peer opens and sends 1-3 packets (+ close or not), application reads with 1/4/64-byte buffers, every interleaving of the serve loop and the reader up to the preemption bound: exactly the bytes then EOF, and no reader parked forever while data is buffered. bad packets: every sequence of up to N packets from {valid, unknown sid, seq-1, seq+1, invalid base64, empty, closed sid (remote), oversized} between two valid packets: each refused with the right stanza error, delivered bytes intact; data for a locally closed stream is refused. Non-trivial = every distinct case/schedule.",
		Assumptions: []string{"the peer end is a protocol script (acknowledges opens, data and close), the library end is the real session + ibb handler under the controlled scheduler", "Flush may hold back an incomplete base64 group until Close; equality is required after Close"},
		Parts: func(tier string) []drv.Part {
			pre, nb, b := 2, 2, 3*time.Minute
			if tier == "thorough" {
				pre, nb, b = 3, 3, 40*time.Minute
			}
			env := []string{"GOMAXPROCS=1"}
			return []drv.Part{
				{Name: "send", Body: sendBody(tier), MaxDev: 0, CutDepth: 3, Budget: b, Env: env},
				{Name: "open-refused", Body: openRefusedBody, MaxDev: 1, Workers: 2, Budget: b, Env: env},
				{Name: "open-then-receive", Desc: "we open, the accepting peer sends right behind its answer", Body: openThenReceiveBody, MaxDev: pre, ShardLevels: 2, Budget: b, Env: env},
				{Name: "receive", Body: receiveBody, MaxDev: pre, ShardLevels: 3, Budget: b, Env: env},
				{Name: "bad-packets", Body: badPacketsBody(nb), MaxDev: 0, CutDepth: 3, Budget: b, Env: env},
				{Name: "closed-locally", Body: localCloseBody, MaxDev: 1, Workers: 2, Budget: b, Env: env},
				{Name: "close-drain", Body: closeDrainBody, MaxDev: 1, Workers: 2, Budget: b, Env: env},
				{Name: "peer-close", Desc: "the peer closes while written bytes are still buffered locally: flushed from inside the close handler", Body: peerCloseBody, MaxDev: 1, Workers: 4, Budget: b, Env: env},
				{Name: "readers", Desc: "two threads reading one stream when it ends (peer close / local Close, after zero or one packet): every Read returns", Body: readersBody, MaxDev: pre - 1, ShardLevels: 2, Budget: b, Env: env},
				{Name: "expect", Desc: "two Expect calls for the same stream (take-over), then the peer opens it", Body: expectBody, MaxDev: pre, ShardLevels: 2, Budget: b, Env: env},
				{Name: "wrap", Desc: "65541 one-byte packets in each direction and carrier: the sequence number wraps around", Body: wrapBody, MaxDev: 0, ShardLevels: 1, Workers: 4, Budget: b, Env: env},
				drv.RacePart(4*pre, pre, b, openRefusedBody, openThenReceiveBody, receiveBody, badPacketsBody(nb), localCloseBody, closeDrainBody, peerCloseBody, expectBody, readersBody),
			}
		},
	})
}
