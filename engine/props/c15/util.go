package c15

import "mellium.im/xmpp/jid"

func mustJID(s string) jid.JID { return jid.MustParse(s) }
