package c15

import (
	"encoding/xml"
	"fmt"
	"strings"

	"mellium.im/xmlstream"
	"mellium.im/xmpp/ibb"
	"mellium.im/xmpp/mux"
	"mellium.im/xmpp/stanza"

	"verif/nd"
	"verif/vs"
	"verif/vsess"
)

// peerCloseBody: the peer opened the stream, the application wrote a few bytes
// that are still in the write buffer (less than a block, no Flush), and the
// peer closes. The library flushes what is buffered from inside the close
// handler, on the serve loop's own thread: those packets must carry
// consecutive sequence numbers and every byte written, the close must be
// acknowledged and the serve loop must go on.
func peerCloseBody(c *nd.Ctx) nd.Result {
	carrier := []string{"iq", "message"}[c.Choose(2, "carrier")]
	n := 1 + c.Choose(8, "buffered-bytes")
	flushedFirst := c.Choose(2, "an-earlier-write-was-flushed") == 1
	// the peer's close request overtakes its acknowledgement of a data packet
	// whose Flush is still waiting for it (IQ carrier): the close is handled,
	// then the acknowledgement arrives and the Flush returns
	ackLate := carrier == "iq" && c.Choose(2, "close-overtakes-the-acknowledgement-of-a-packet-in-flight") == 1
	ns := stanza.NSClient
	var env *vsess.Env
	var setupErr, opErr error
	data := payload(n + 5)
	var want []byte
	closeAcked := false
	lastFlush, lateSent := false, false
	sentinelSeen := 0
	out := vs.Run(c, vs.Options{Horizon: 40000}, func() {
		env, setupErr = vsess.New(ns, 0)
		if setupErr != nil {
			return
		}
		var seen strings.Builder
		done := map[string]bool{}
		env.Lib.OnWrite = func(b []byte) {
			seen.Write(b)
			for _, el := range vsess.TopLevel(ns, seen.String()) {
				id := el.Attr("id")
				if el.Start.Name.Local != "iq" || done[id] {
					continue
				}
				done[id] = true
				switch {
				case el.Attr("type") == "set" && ackLate && lastFlush && !lateSent:
					lateSent = true
					env.PeerWrite(closeReq("c1", "s1") + fmt.Sprintf(`<iq type='result' id='%s' from='%s'/>`, id, peerJID) + `<message id='sentinel' from='` + peerJID + `' to='me@example.net/res'><body>x</body></message>`)
				case el.Attr("type") == "set" && lateSent:
					// the peer has closed the stream: later packets are refused
					env.PeerWrite(fmt.Sprintf(`<iq type='error' id='%s' from='%s'><error type='cancel'><item-not-found xmlns='urn:ietf:params:xml:ns:xmpp-stanzas'/></error></iq>`, id, peerJID))
				case el.Attr("type") == "set":
					// data packets carried by IQs are acknowledged
					env.PeerWrite(fmt.Sprintf(`<iq type='result' id='%s' from='%s'/>`, id, peerJID))
				case el.Attr("type") == "result" && id == "c1":
					closeAcked = true
				}
			}
		}
		h := &ibb.Handler{}
		l := h.Listen(env.S)
		sentinel := func(m stanza.Message, t xmlstream.TokenReadEncoder) error {
			if m.ID == "sentinel" {
				sentinelSeen++
			}
			return nil
		}
		env.Serve(mux.New(ns, ibb.Handle(h), mux.MessageFunc("", xml.Name{}, sentinel), mux.MessageFunc(stanza.NormalMessage, xml.Name{}, sentinel)))
		env.PeerWrite(openReq("o1", "s1", carrier, 4096))
		conn, err := l.Accept()
		if err != nil {
			opErr = err
			return
		}
		if flushedFirst {
			if _, opErr = conn.Write(data[n:]); opErr == nil {
				opErr = conn.(*ibb.Conn).Flush()
			}
			want = append(want, data[n:]...)
			if opErr != nil {
				return
			}
		}
		_, opErr = conn.Write(data[:n])
		want = append(want, data[:n]...)
		if opErr != nil {
			return
		}
		if ackLate {
			lastFlush = true
			opErr = conn.(*ibb.Conn).Flush()
			if lateSent {
				env.PeerWrite(`</stream:stream>`)
				vsess.Wait("serve-done", func() bool { return env.ServeDone })
				return
			}
			// (fewer bytes than a base64 group: the Flush sent nothing, the peer closes as in the other case)
		}
		// the peer closes; afterwards a sentinel shows that the serve loop goes on
		env.PeerWrite(closeReq("c1", "s1") + `<message id='sentinel' from='` + peerJID + `' to='me@example.net/res'><body>x</body></message></stream:stream>`)
		vsess.Wait("serve-done", func() bool { return env.ServeDone })
	})
	if setupErr != nil {
		panic(setupErr)
	}
	desc := fmt.Sprintf("peer closes while %d written bytes are still buffered locally (earlier flushed write: %v), carrier=%s, close overtakes the acknowledgement of the last packet=%v", n, flushedFirst, carrier, ackLate)
	c.Note("%s outcome=%s", desc, out.Kind)
	for _, t := range out.Trace {
		c.Note("  %s", t)
	}
	res := nd.Result{Outcome: out.Kind, NonTrivial: desc + fmt.Sprint(c.Vector())}
	fail := func(sig, f string, a ...any) nd.Result {
		res.Violation = &nd.Violation{Sig: "peer-close:" + sig, Msg: desc + fmt.Sprintf(" [wire=%q serve-err=%v]: ", string(env.Lib.Written()), env.ServeErr) + fmt.Sprintf(f, a...)}
		return res
	}
	switch out.Kind {
	case "panic":
		return fail(out.Panic.Sig(), "panic in thread %s: %s\n%s", out.PanicIn, out.Panic.Value, out.Panic.Stack)
	case "deadlock":
		return fail("serve-loop-blocked-in-close-handler", "blocked threads: %v", out.Blocked)
	case "horizon":
		return fail("does-not-terminate", "blocked: %v", out.Blocked)
	}
	if opErr != nil && !lateSent {
		// (a Flush that the peer's close overtook may report that its later packets were refused)
		return fail("error", "%v", opErr)
	}
	pk, _, _, err := wirePackets(ns, string(env.Lib.Written()))
	if err != nil {
		return fail("wire", "%v", err)
	}
	var got []byte
	for i, p := range pk {
		if p.seq != fmt.Sprint(i) {
			return fail("sequence-not-consecutive", "packet %d has seq=%s", i, p.seq)
		}
		if p.carrier != carrier {
			return fail("wrong-carrier", "packet %d is carried by <%s/>", i, p.carrier)
		}
		got = append(got, p.data...)
	}
	if lateSent {
		// the peer closed while a packet was in flight: what the encoder still
		// held back (less than a base64 group) may never go out, nothing else is lost
		if len(pk) == 0 || len(got) > len(want) || string(got) != string(want[:len(got)]) {
			return fail("bytes-differ", "the peer received %q in %d packets, %q was written", got, len(pk), want)
		}
	} else if string(got) != string(want) {
		return fail("bytes-differ", "the peer received %q in %d packets, %q was written", got, len(pk), want)
	}
	if !closeAcked {
		return fail("close-not-acknowledged", "no result for the close request on the wire")
	}
	// once the close is acknowledged the peer has forgotten the stream: what was
	// buffered must have gone out before the acknowledgement ("the peer drains
	// what remains and then reads end-of-file")
	acked := false
	for _, el := range vsess.TopLevel(ns, string(env.Lib.Written())) {
		if el.Start.Name.Local == "iq" && el.Attr("type") == "result" && el.Attr("id") == "c1" {
			acked = true
		} else if acked && !lateSent && strings.Contains(el.Raw, "<data") && strings.Contains(el.Raw, ibb.NS) {
			return fail("data-after-close-acknowledgement", "a data packet follows the result for the peer's close request: %s", el.Raw)
		}
	}
	if sentinelSeen != 1 {
		return fail("serve-loop-stalled", "the stanza after the close request was handled %d times", sentinelSeen)
	}
	return res
}
