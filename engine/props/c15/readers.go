package c15

import (
	"fmt"
	"io"

	"mellium.im/xmpp/ibb"
	"mellium.im/xmpp/mux"
	"mellium.im/xmpp/stanza"

	"verif/nd"
	"verif/vs"
	"verif/vsess"
)

// readersBody: two application threads read from the same stream (a net.Conn
// may be read by several goroutines). The stream ends - the peer closes it, or
// the application closes it locally - possibly after one last packet: every
// Read call must return (with bytes of the packet or end-of-file), the bytes
// of the packet are delivered exactly once between them, and the serve loop
// goes on.
func readersBody(c *nd.Ctx) nd.Result {
	carrier := []string{"iq", "message"}[c.Choose(2, "carrier")]
	end := c.Choose(2, "stream-ended-by") // 0 the peer's close request, 1 a local Close
	npk := c.Choose(2, "packets-before-the-end")
	ns := stanza.NSClient
	var env *vsess.Env
	var setupErr, acceptErr, closeErr error
	peer := &autoPeer{ns: ns, done: map[string]bool{}, openReply: "result"}
	var got [2][]byte
	var rerr [2]error
	var done [2]bool
	out := vs.Run(c, vs.Options{Horizon: 40000}, func() {
		env, setupErr = vsess.New(ns, 0)
		if setupErr != nil {
			return
		}
		peer.env = env
		env.Lib.OnWrite = peer.onWrite
		h := &ibb.Handler{}
		l := h.Listen(env.S)
		env.Serve(mux.New(ns, ibb.Handle(h)))
		env.PeerWrite(openReq("o1", "s1", carrier, 4096))
		conn, err := l.Accept()
		if err != nil {
			acceptErr = err
			return
		}
		for i := 0; i < 2; i++ {
			i := i
			vs.GoNamed(fmt.Sprintf("reader%d", i+1), false, func() {
				buf := make([]byte, 64)
				for {
					n, err := conn.Read(buf)
					got[i] = append(got[i], buf[:n]...)
					if err != nil {
						rerr[i] = err
						break
					}
				}
				vs.Atomically(func() { done[i] = true })
			})
		}
		if npk == 1 {
			env.PeerWrite(dataPacket(carrier, "d0", "s1", 0, []byte("last")))
		}
		if end == 0 {
			env.PeerWrite(closeReq("c1", "s1"))
		} else {
			closeErr = conn.Close()
		}
		vsess.Wait("readers-done", func() bool { return done[0] && done[1] })
		env.PeerWrite("</stream:stream>")
		vsess.Wait("serve-done", func() bool { return env.ServeDone })
	})
	if setupErr != nil {
		panic(setupErr)
	}
	desc := fmt.Sprintf("two readers blocked on one stream, %d packet(s), then %s, carrier=%s", npk, []string{"the peer closes", "a local Close"}[end], carrier)
	c.Note("%s outcome=%s", desc, out.Kind)
	for _, t := range out.Trace {
		c.Note("  %s", t)
	}
	res := nd.Result{Outcome: out.Kind, NonTrivial: desc + fmt.Sprint(c.Vector())}
	fail := func(sig, f string, a ...any) nd.Result {
		res.Violation = &nd.Violation{Sig: "readers:" + sig, Msg: desc + fmt.Sprintf(" [reader1 %q %v, reader2 %q %v]: ", got[0], rerr[0], got[1], rerr[1]) + fmt.Sprintf(f, a...)}
		return res
	}
	switch out.Kind {
	case "panic":
		return fail(out.Panic.Sig(), "panic in thread %s: %s\n%s", out.PanicIn, out.Panic.Value, out.Panic.Stack)
	case "deadlock":
		if !done[0] || !done[1] {
			return fail("a-read-never-returns-after-the-stream-ended", "blocked threads: %v", out.Blocked)
		}
		return fail("deadlock", "blocked threads: %v", out.Blocked)
	case "horizon":
		return fail("does-not-terminate", "blocked: %v", out.Blocked)
	}
	if acceptErr != nil || closeErr != nil {
		return fail("error", "accept: %v, close: %v", acceptErr, closeErr)
	}
	for i := range rerr {
		if rerr[i] != io.EOF {
			return fail("read-error", "reader %d ended with %v, want end-of-file", i+1, rerr[i])
		}
	}
	all := string(got[0]) + string(got[1])
	if end == 0 || all != "" {
		// (a local Close may come before the packet: then it is refused)
		want := ""
		if npk == 1 {
			want = "last"
		}
		if all != want && string(got[1])+string(got[0]) != want {
			return fail("bytes-differ", "the readers obtained %q, the peer sent %q", all, want)
		}
	}
	return res
}
