package c19

// Payloads that are not plain exported structs: the forwarding / carbons
// wrappers (function pairs Wrap/Unwrap), the MUC join configuration (an
// unexported type only reachable through the exported muc.Option functions)
// and the generated pubsub enumerations.

import (
	"bytes"
	"encoding/xml"
	"fmt"
	"reflect"
	"strings"
	"time"

	"mellium.im/xmpp/carbons"
	"mellium.im/xmpp/delay"
	"mellium.im/xmpp/forward"
	"mellium.im/xmpp/muc"
	"mellium.im/xmpp/pubsub"
	"mellium.im/xmpp/stanza"

	"verif/nd"
	"verif/xu"
)

// ---- forward / carbons

var fwdPayloads = []string{
	"",
	`<message xmlns="jabber:client" to="a@example.net" type="chat"><body>a&amp;b</body></message>`,
	`<message xmlns="jabber:client"><body>x</body><delay xmlns="urn:xmpp:delay" stamp="2001-01-01T00:00:00Z">inner</delay></message>`,
	`<delay xmlns="urn:xmpp:delay" stamp="2001-01-01T00:00:00Z">sibling</delay>`,
}

var wrappers = []string{"forward.Forwarded.Wrap", "carbons.WrapReceived", "carbons.WrapSent", "forward.Wrap"}

func delayView(d delay.Delay) string {
	return fmt.Sprintf("from=%q time=%s reason=%q", d.From.String(), renderTime(d.Time.UTC()), d.Reason)
}

func wrapBody(c *nd.Ctx) nd.Result {
	w := c.Choose(len(wrappers), "wrapper")
	d := delay.Delay{
		From:   jidPool[c.Choose(len(jidPool), "from")],
		Time:   timePool[c.Choose(len(timePool), "time")],
		Reason: strPool[c.Choose(len(strPool), "reason")],
	}
	pi := c.Choose(len(fwdPayloads), "payload")
	body := ""
	if w == 3 {
		// forward.Wrap(msg, body, received, payload) only carries the time
		d.From, d.Reason = jidPool[0], ""
		body = strPool[c.Choose(len(strPool), "body")]
	}
	name := wrappers[w]
	desc := fmt.Sprintf("%s(delay{%s}, %s) body=%q", name, delayView(d), fwdPayloads[pi], body)
	c.Note("%s", desc)
	res := nd.Result{Outcome: name, NonTrivial: desc}
	var v *nd.Violation
	if p := nd.Catch(func() { v = checkWrap(name, w, d, pi, body, desc) }); p != nil {
		v = viol(name+":"+psig(p), "%s: panic %s\n%s", desc, p.Value, p.Stack)
	}
	res.Violation = v
	return res
}

func checkWrap(name string, w int, d delay.Delay, pi int, body, desc string) *nd.Violation {
	var r xml.TokenReader
	payload := xu.Reader(fwdPayloads[pi])
	switch w {
	case 0:
		r = forward.Forwarded{Delay: d}.Wrap(payload)
	case 1:
		r = carbons.WrapReceived(d, payload)
	case 2:
		r = carbons.WrapSent(d, payload)
	default:
		r = forward.Wrap(stanza.Message{To: jidFull, Type: stanza.ChatMessage}, body, d.Time, payload)
	}
	b, err := xu.Render(r)
	if err != nil {
		return viol(name+":token-path-error", "%s: %v", desc, err)
	}
	if err := xu.WellFormed(b); err != nil {
		return viol(name+":token-path-malformed", "%s: %q: %v", desc, b, err)
	}
	// the inverse
	dec := xml.NewDecoder(bytes.NewReader(b))
	var got delay.Delay
	var inner xml.TokenReader
	switch w {
	case 0:
		inner, err = forward.Unwrap(&got, dec)
	case 1, 2:
		var start xml.StartElement
		inner, start, err = carbons.Unwrap(&got, dec)
		if err == nil && start.Name.Local != map[int]string{1: "received", 2: "sent"}[w] {
			return viol(name+":unwrap-differs:element", "%s: %s unwraps as <%s>", desc, b, start.Name.Local)
		}
	default:
		// <message><body/><forwarded/></message>: skip to the forwarded element
		var wb string
		for {
			tok, terr := dec.Token()
			if terr != nil {
				return viol(name+":unwrap-error", "%s: no forwarded element in %s", desc, b)
			}
			if se, ok := tok.(xml.StartElement); ok && se.Name.Local == "body" {
				var s string
				if err := dec.DecodeElement(&s, &se); err != nil {
					return viol(name+":unwrap-error", "%s: body of %s: %v", desc, b, err)
				}
				wb = s
				break
			}
		}
		if wb != body {
			return viol(name+":unwrap-differs:body", "%s: %s carries body %q", desc, b, wb)
		}
		inner, err = forward.Unwrap(&got, dec)
	}
	if err != nil {
		return viol(name+":unwrap-error", "%s: unwrapping %s: %v", desc, b, err)
	}
	// the unwrapped reader passes the decoder's tokens through; drop the
	// namespace declaration attributes before re-encoding them
	itoks, err := xu.Tokens(inner)
	for i, t := range itoks {
		if se, ok := t.(xml.StartElement); ok {
			var attrs []xml.Attr
			for _, a := range se.Attr {
				if a.Name.Space != "xmlns" && !(a.Name.Space == "" && a.Name.Local == "xmlns") {
					attrs = append(attrs, a)
				}
			}
			se.Attr = attrs
			itoks[i] = se
		}
	}
	var ib []byte
	if err == nil {
		ib, err = xu.Render(&xu.SliceReader{Toks: itoks})
	}
	if err != nil {
		return viol(name+":unwrap-error", "%s: reading the unwrapped payload of %s: %v (so far %s)", desc, b, err, ib)
	}
	if treeOf(ib) != treeOf([]byte(fwdPayloads[pi])) {
		return viol(name+":unwrap-differs:payload", "%s: %s unwraps to %s", desc, b, ib)
	}
	if delayView(got) != delayView(d) {
		return viol(name+":unwrap-differs:delay", "%s: %s unwraps with delay{%s}", desc, b, delayView(got))
	}
	return nil
}

// ---- muc join configuration

var (
	mucOptType  = reflect.TypeOf(muc.MaxHistory(0)) // func(*config)
	mucConfType = mucOptType.In(0).Elem()
)

var u64Pool = []uint64{0, 1, 1<<64 - 1}
var durPool = []time.Duration{0, time.Second, 1500 * time.Millisecond, -90 * time.Second, 1<<63 - 1, -1 << 63}

// buildMucConfig applies a chosen subset of the exported options to a fresh
// configuration.  The returned value is a *config (as interface).
func buildMucConfig(g *G) (reflect.Value, string) {
	conf := reflect.New(mucConfType)
	var desc []string
	apply := func(name string, o muc.Option) {
		reflect.ValueOf(o).Call([]reflect.Value{conf})
		desc = append(desc, name)
	}
	if i := g.pickCost(1+len(u64Pool), "MaxHistory", 0); i > 0 {
		apply(fmt.Sprintf("MaxHistory(%d)", u64Pool[i-1]), muc.MaxHistory(u64Pool[i-1]))
	}
	if i := g.pickCost(1+len(u64Pool), "MaxBytes", 0); i > 0 {
		apply(fmt.Sprintf("MaxBytes(%d)", u64Pool[i-1]), muc.MaxBytes(u64Pool[i-1]))
	}
	if i := g.pickCost(1+len(durPool), "Duration", 0); i > 0 {
		apply(fmt.Sprintf("Duration(%d)", durPool[i-1]), muc.Duration(durPool[i-1]))
	}
	if i := g.pickCost(1+len(timePool), "Since", 0); i > 0 {
		apply(fmt.Sprintf("Since(%s)", renderTime(timePool[i-1])), muc.Since(timePool[i-1]))
	}
	if i := g.pickCost(1+len(strPool), "Password", 0); i > 0 {
		apply(fmt.Sprintf("Password(%q)", strPool[i-1]), muc.Password(strPool[i-1]))
	}
	if i := g.pickCost(3, "Nick", 0); i > 0 {
		apply(fmt.Sprintf("Nick(%q)", strPool[i]), muc.Nick(strPool[i]))
	}
	return conf.Elem(), strings.Join(desc, " ")
}

// The configuration has no exported state: a value is observed through its
// encoding (the view is the tree of its TokenReader rendering), so law 4 reads
// encode(decode(encode(v))) == encode(v).
func mucConfigSpec() *spec {
	return &spec{name: "muc.config", group: "roster-muc", typ: mucConfType,
		build: func(g *G) reflect.Value { v, _ := buildMucConfig(g); return v },
		view: func(p any) []kv {
			var b []byte
			var err error
			if pn := nd.Catch(func() { b, err = xu.Render(p.(interface{ TokenReader() xml.TokenReader }).TokenReader()) }); pn != nil {
				return []kv{{"encoding", "panic: " + pn.Value}}
			}
			if err != nil {
				return []kv{{"encoding", "error: " + err.Error()}}
			}
			return []kv{{"encoding", treeOf(b)}}
		},
		samples: []string{`<x xmlns="http://jabber.org/protocol/muc"><history maxchars="1" maxstanzas="2" seconds="3" since="1970-01-01T00:00:00Z"/><password>p</password></x>`},
	}
}

// ---- pubsub enumerations

// pubsub.Condition only has a decoder: the element named after a condition
// (Condition.String) decodes to that condition.
func pubsubBody(c *nd.Ctx) nd.Result {
	cond := pubsub.Condition(c.Choose(int(pubsub.CondUnsupportedAccessModel)+1, "condition"))
	ns := []string{"http://jabber.org/protocol/pubsub#errors", ""}[c.Choose(2, "ns")]
	inner := []string{"", "text", `<x/>`, ` <a xmlns="urn:x">t</a> `}[c.Choose(4, "content")]
	var name string
	if p := nd.Catch(func() { name = cond.String() }); p != nil {
		return nd.Result{Outcome: "panic", Violation: viol("pubsub.Condition:String:"+psig(p), "Condition(%d).String() panics: %s", cond, p.Value)}
	}
	doc := fmt.Sprintf(`<%s xmlns="%s" feature="f">%s</%s>`, name, ns, inner, name)
	c.Note("pubsub.Condition %d <- %s", cond, doc)
	res := nd.Result{Outcome: "pubsub.Condition", NonTrivial: doc}
	if cond == pubsub.CondNone {
		// the zero value has no element name of its own
		return res
	}
	var got pubsub.Condition
	var err error
	if p := nd.Catch(func() { err = xml.Unmarshal([]byte(doc), &got) }); p != nil {
		res.Violation = viol("pubsub.Condition:unmarshal:"+psig(p), "decoding %s panics: %s", doc, p.Value)
		return res
	}
	if err != nil {
		res.Violation = viol("pubsub.Condition:own-name-does-not-decode", "%s: %v", doc, err)
		return res
	}
	if got != cond {
		res.Violation = viol("pubsub.Condition:roundtrip-differs", "%s decodes to %v, want %v", doc, got, cond)
	}
	return res
}
