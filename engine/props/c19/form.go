package c19

// Data forms are opaque: they are built through the public constructors
// (form.New with field and option functions, form.Cancel), read through
// Title/Instructions/ForFields/GetOptions and driven through Set/Get*/Submit.

import (
	"encoding/xml"
	"fmt"
	"reflect"
	"strings"

	"mellium.im/xmpp/form"
	"mellium.im/xmpp/jid"

	"verif/nd"
	"verif/xu"
)

type fieldKind struct {
	name string
	typ  form.FieldType
	mk   func(id string, o ...form.Option) form.Field
}

var fieldKinds = []fieldKind{
	{"text-single", form.TypeText, form.Text},
	{"text-multi", form.TypeTextMulti, form.TextMulti},
	{"boolean", form.TypeBoolean, form.Boolean},
	{"fixed", form.TypeFixed, func(_ string, o ...form.Option) form.Field { return form.Fixed(o...) }},
	{"hidden", form.TypeHidden, form.Hidden},
	{"jid-multi", form.TypeJIDMulti, form.JIDMulti},
	{"jid-single", form.TypeJID, form.JID},
	{"list-multi", form.TypeListMulti, form.ListMulti},
	{"list-single", form.TypeList, form.List},
	{"text-private", form.TypeTextPrivate, form.TextPrivate},
}

var fieldVars = []string{"f1", "f2", "f3"}

var valueVariants = [][]string{
	nil,
	{"a"},
	{"true"},
	{"a@example.net"},
	{`<&>'"`, "é"},
	{"a\nb", "a\n"},
	{"", "b"},
	{"not a jid@@", "1", "a@example.net/r", "0"},
}

var labelPool = []string{"", "a", `<&>'"`}
var descPool = []string{"", "a\nb", `<&>'"`}
var itemVariants = [][][2]string{nil, {{"l", "v"}}, {{`<&>'"`, "é"}, {"", ""}}}
var instrPool = []string{"", "a", "a\nb", "a\n", "\n\na\r\nb\r", `<&>'"`, "é"}

// title newlines are unwrapped ("title cannot contain newlines")
var titleReplacer = strings.NewReplacer("\r\n", " ", "\n\r", " ", "\n", " ", "\r", " ")

// chooseField enumerates the options of one field.
func chooseField(g *G, i int, valuePool [][]string, rich bool) form.Field {
	pfx := fmt.Sprintf("field%d-", i)
	k := fieldKinds[g.pickCost(len(fieldKinds), pfx+"type", 0)]
	var opts []form.Option
	if g.pickCost(2, pfx+"required", 0) == 1 {
		opts = append(opts, form.Required)
	}
	for _, v := range valuePool[g.pickCost(len(valuePool), pfx+"values", 1)] {
		opts = append(opts, form.Value(v))
	}
	if rich {
		if l := labelPool[g.pickCost(len(labelPool), pfx+"label", 1)]; l != "" {
			opts = append(opts, form.Label(l))
		}
		if d := descPool[g.pickCost(len(descPool), pfx+"desc", 1)]; d != "" {
			opts = append(opts, form.Desc(d))
		}
		for _, it := range itemVariants[g.pickCost(len(itemVariants), pfx+"items", 1)] {
			opts = append(opts, form.ListItem(it[0], it[1]))
		}
	}
	return k.mk(fieldVars[i], opts...)
}

// buildForm is the custom builder of the form.Data spec.
func buildForm(maxFields int) func(g *G) reflect.Value {
	return func(g *G) reflect.Value {
		ctor := g.pickCost(4, "ctor", 0)
		title := strPool[g.pickCost(len(strPool), "title", 1)]
		instr := instrPool[g.pickCost(len(instrPool), "instructions", 1)]
		var d *form.Data
		switch ctor {
		case 2:
			d = form.Cancel(title, instr)
		case 3:
			d = &form.Data{}
		default:
			var opts []form.Field
			if ctor == 1 {
				opts = append(opts, form.Result)
			}
			if title != "" {
				opts = append(opts, form.Title(title))
			}
			if instr != "" {
				opts = append(opts, form.Instructions(instr))
			}
			n := g.pickCost(maxFields+1, "nfields", 0)
			for i := 0; i < n; i++ {
				opts = append(opts, chooseField(g, i, valueVariants, true))
			}
			d = form.New(opts...)
		}
		return reflect.ValueOf(d).Elem()
	}
}

// formView is the comparison view of a form.  It reads the form through the
// public accessors (and the form type, which has no accessor, through
// reflection) and applies the normalisation XEP-0004 and the package
// documentation state:
//   - the title cannot contain newlines: they are replaced by spaces
//   - instructions are one element per non-empty line
//   - empty values are not values; boolean fields only hold true/false/0/1 and
//     JID fields only hold JIDs; "Fields of type ListMulti, JidMulti,
//     TextMulti, and Hidden may contain more than one Value; all other field
//     types will only use the first Value"
//   - list items have "no effect on any non-list field type"
//   - a field without a type is a text-single field
func formView(d *form.Data) []kv {
	rv := reflect.ValueOf(d).Elem()
	out := []kv{{"type", fmt.Sprintf("%q", rv.FieldByName("typ").String())}}
	out = append(out, kv{"title", fmt.Sprintf("%q", titleReplacer.Replace(d.Title()))})
	var lines []string
	for _, l := range strings.FieldsFunc(d.Instructions(), func(r rune) bool { return r == '\n' || r == '\r' }) {
		lines = append(lines, l)
	}
	out = append(out, kv{"instructions", fmt.Sprintf("%q", strings.Join(lines, "\n"))})
	fields := rv.FieldByName("fields")
	i := 0
	d.ForFields(func(f form.FieldData) {
		typ := f.Type
		if typ == "" {
			typ = form.TypeText
		}
		multi := typ == form.TypeListMulti || typ == form.TypeJIDMulti || typ == form.TypeTextMulti || typ == form.TypeHidden
		var vals []string
		for _, v := range f.Raw {
			if v == "" {
				continue
			}
			switch typ {
			case form.TypeBoolean:
				if v != "true" && v != "false" && v != "0" && v != "1" {
					continue
				}
			case form.TypeJID, form.TypeJIDMulti:
				if _, err := jid.Parse(v); err != nil {
					continue
				}
			}
			vals = append(vals, v)
			if !multi {
				break
			}
		}
		var opts []string
		if typ == form.TypeList || typ == form.TypeListMulti {
			o := fields.Index(i).FieldByName("option")
			for j := 0; j < o.Len(); j++ {
				opts = append(opts, fmt.Sprintf("%q=%q", o.Index(j).FieldByName("Label").String(), o.Index(j).FieldByName("Value").String()))
			}
		}
		pfx := fmt.Sprintf("field%d(%s).", i, typ)
		out = append(out,
			kv{pfx + "var", fmt.Sprintf("%q", f.Var)},
			kv{pfx + "label", fmt.Sprintf("%q", f.Label)},
			kv{pfx + "desc", fmt.Sprintf("%q", f.Desc)},
			kv{pfx + "required", fmt.Sprint(f.Required)},
			kv{pfx + "values", fmt.Sprintf("%q", vals)},
			kv{pfx + "options", fmt.Sprintf("%v", opts)},
		)
		i++
	})
	return out
}

// formSigKey shortens a view component name to a signature fragment that does
// not depend on the field index: "field0(hidden).values" -> "hidden.values".
func formSigKey(k string) string {
	if strings.HasPrefix(k, "field") {
		if i := strings.IndexByte(k, '('); i >= 0 {
			return strings.Replace(k[i+1:], ").", ".", 1)
		}
	}
	return k
}

func formSpec(maxFields int) *spec {
	return &spec{name: "form.Data", group: "form-values", typ: reflect.TypeOf(form.Data{}), byPtr: true,
		build:  buildForm(maxFields),
		view:   func(p any) []kv { return formView(p.(*form.Data)) },
		cost:   1,
		sigKey: formSigKey,
		samples: []string{`<x xmlns="jabber:x:data" type="form"><title>t</title><instructions>i</instructions><field type="list-multi" var="v" label="l"><desc>d</desc><required/><value>a</value><option label="o"><value>b</value></option></field><field type="text-multi" var="m"><value>true</value></field><field type="boolean" var="b"><required/></field><field type="jid-multi" var="j"><value>a@example.net</value></field></x>`,
			`<x xmlns="jabber:x:data" type="submit"><field type="fixed"><value>x</value></field><field type="jid-single" var="j"><required/></field><field var="t"><value>1</value></field></x>`},
		post: formPost,
	}
}

// formPost drives a decoded form through the accessors, setters and Submit
// (law 5: none of them panics; the submission is well-formed).
func formPost(p any) {
	d := p.(*form.Data)
	var vars []string
	d.ForFields(func(f form.FieldData) { vars = append(vars, f.Var) })
	vars = append(vars, "no-such-field")
	for _, id := range vars {
		d.Get(id)
		d.GetString(id)
		d.GetStrings(id)
		d.GetBool(id)
		d.GetJID(id)
		d.GetJIDs(id)
		d.GetOptions(id)
		d.Raw(id)
	}
	d.Len()
	mustRender(d.TokenReader())
	sub, _ := d.Submit()
	mustRender(sub)
	for _, id := range vars {
		d.Set(id, "a\nb")
		d.Set(id, true)
		d.Set(id, jidFull)
		d.Set(id, []string{"a", ""})
		d.Set(id, []jid.JID{jidBare})
	}
	sub, _ = d.Submit()
	mustRender(sub)
}

type malformed struct{ msg string }

func mustRender(r xml.TokenReader) {
	b, err := xu.Render(r)
	if err == nil {
		err = xu.WellFormed(b)
	}
	if err != nil {
		panic(malformed{fmt.Sprintf("rendering is not well-formed: %q: %v", b, err)})
	}
}

// ---- Set / Get / Submit

type setVal struct {
	name string
	v    any
}

var setPool = []setVal{
	{"unset", nil},
	{"true", true},
	{"false", false},
	{`""`, ""},
	{`"a"`, "a"},
	{`"a\n"`, "a\n"},
	{`"a\nb"`, "a\nb"},
	{`"\n"`, "\n"},
	{`"\r\n<&>"`, "\r\n<&>'\""},
	{`"a\nb\r"`, "a\nb\r"},
	{`"\r"`, "\r"},
	{`"a\r\nb\r\n"`, "a\r\nb\r\n"},
	{"jid{}", jid.JID{}},
	{"jid-full", jidFull},
	{"[]jid{}", []jid.JID{}},
	{"[]jid{zero,full}", []jid.JID{{}, jidFull}},
	{"[]string(nil)", []string(nil)},
	{`[]string{"","a\n"}`, []string{"", "a\n"}},
	{"int", 42},
}

var submitDefaults = [][]string{nil, {"a"}, {"true"}, {"a@example.net/r", "b"}}

func submitBody(maxFields int) nd.Body {
	return func(c *nd.Ctx) nd.Result {
		g := &G{c: c, cost: 1}
		ctor := c.Choose(3, "ctor") // 0 form.New, 1 form.New then decoded from its own encoding, 2 zero value
		n := 0
		var opts []form.Field
		if ctor < 2 {
			n = 1 + c.Choose(maxFields, "nfields")
			for i := 0; i < n; i++ {
				opts = append(opts, chooseField(g, i, submitDefaults, false))
			}
		} else {
			n = 1
		}
		sets := make([]setVal, n)
		for i := range sets {
			sets[i] = setPool[c.Choose(len(setPool), fmt.Sprintf("set%d", i))]
		}
		var d *form.Data
		var desc strings.Builder
		switch ctor {
		case 0:
			d = form.New(opts...)
			desc.WriteString("form.New")
		case 1:
			b, err := xml.Marshal(form.New(opts...))
			d = &form.Data{}
			if err == nil {
				err = xml.Unmarshal(b, d)
			}
			if err != nil {
				// reported by the form-values part
				return nd.Result{Skip: true}
			}
			desc.WriteString("decoded form")
		default:
			d = &form.Data{}
			desc.WriteString("zero form.Data")
		}
		d.ForFields(func(f form.FieldData) {
			fmt.Fprintf(&desc, " [%s var=%q required=%v defaults=%q]", f.Type, f.Var, f.Required, f.Raw)
		})
		for i, s := range sets {
			fmt.Fprintf(&desc, " Set(%q,%s)", fieldVars[i], s.name)
		}
		c.Note("%s", desc.String())
		res := nd.Result{Outcome: "ok", NonTrivial: desc.String()}

		for i, s := range sets {
			if s.v == nil {
				continue
			}
			id := fieldVars[i]
			if p := nd.Catch(func() { d.Set(id, s.v) }); p != nil {
				res.Outcome = "panic"
				res.Violation = viol("form.Data:"+psig(p), "%s: Set panics: %s\n%s", desc.String(), p.Value, p.Stack)
				return res
			}
		}
		if p := nd.Catch(func() {
			for _, id := range append([]string{"nope"}, fieldVars...) {
				d.Get(id)
				d.GetString(id)
				d.GetStrings(id)
				d.GetBool(id)
				d.GetJID(id)
				d.GetJIDs(id)
				d.GetOptions(id)
				d.Raw(id)
			}
		}); p != nil {
			res.Outcome = "panic"
			res.Violation = viol("form.Data:"+psig(p), "%s: Get panics: %s\n%s", desc.String(), p.Value, p.Stack)
			return res
		}
		var sub xml.TokenReader
		// answering a form does not change the form: it encodes the same before
		// and after the submission was produced and read
		var formBefore, formAfter []byte
		nd.Catch(func() { formBefore, _ = xml.Marshal(d) })
		if p := nd.Catch(func() { sub, _ = d.Submit() }); p != nil {
			res.Outcome = "panic"
			res.Violation = viol("form.Data:"+psig(p), "%s: Submit panics: %s\n%s", desc.String(), p.Value, p.Stack)
			return res
		}
		var b []byte
		var err error
		if p := nd.Catch(func() { b, err = xu.Render(sub) }); p != nil {
			res.Outcome = "panic"
			res.Violation = viol("form.Data:"+psig(p), "%s: reading the submission panics: %s\n%s", desc.String(), p.Value, p.Stack)
			return res
		}
		nd.Catch(func() { formAfter, _ = xml.Marshal(d) })
		if formBefore != nil && string(formBefore) != string(formAfter) {
			res.Outcome = "form-changed"
			res.Violation = viol("form.Data:Submit:changes-the-form", "%s: the form encoded as %s before it was submitted and as %s afterwards", desc.String(), formBefore, formAfter)
			return res
		}
		if err == nil {
			err = xu.WellFormed(b)
		}
		if err != nil {
			res.Outcome = "malformed"
			res.Violation = viol("form.Data:Submit:malformed", "%s: submission %q: %v", desc.String(), b, err)
			return res
		}
		var back form.Data
		if p := nd.Catch(func() { err = xml.Unmarshal(b, &back) }); p != nil {
			res.Outcome = "panic"
			res.Violation = viol("form.Data:Submit:decode:"+psig(p), "%s: decoding the submission %s panics: %s", desc.String(), b, p.Value)
			return res
		}
		if err != nil {
			res.Outcome = "undecodable"
			res.Violation = viol("form.Data:Submit:output-does-not-decode", "%s: submission %s: %v", desc.String(), b, err)
			return res
		}
		if ty := reflect.ValueOf(&back).Elem().FieldByName("typ").String(); ty != "submit" {
			res.Outcome = "wrong-type"
			res.Violation = viol("form.Data:Submit:not-a-submission", "%s: submission %s has type %q", desc.String(), b, ty)
		}
		return res
	}
}
