package c19

import (
	"fmt"
	"time"

	"verif/drv"
)

func init() {
	specs = append(specs, mucConfigSpec())
	initSpecs()

	drv.Register(&drv.Prop{
		ID:    "C19",
		Level: "exploration",
		Rule: "per payload type of the anchored files (registry in props/c19/types.go): every value obtained from the exported fields / constructors over the pools " +
			"strings {\"\", a, <&>'\", é, a\\nb, a\\n}, bools, ints {0,1,max,-1}, optional ints {nil,0,1,max}, times {zero, UTC second, UTC with nanoseconds, +05:30, -03:30 with nanoseconds}, " +
			"JIDs {zero, bare, full with quotes/<&> in the resourcepart}, slices {nil, 1, 2 elements}, nested registered types; full cross product when the product is <= 2e4, " +
			"otherwise every value with at most max_deviations fields off their default (3 quick / 4 thorough; data forms 2 / 3). Oracle: xml.Marshal and TokenReader/WriteXML renderings are single well-formed elements (encoding/xml + duplicate attribute check), " +
			"both decode into a fresh value to the same value, two-way types equal the original under the per-type documented normaliser, nothing panics. " +
			"Data forms: every field type x required x default values x label/desc/list items through form.New/form.Cancel, then Set (16 Go values incl. wrong types, multi-line text ending in a newline, empty, JIDs) / Get* / Submit. " +
			"Forwarding and carbons: Wrap/Unwrap pairs over delays x payloads. Unmarshal robustness: per type every XML tree of <= N nodes (elements, attributes, text; N = 4 quick, 5 thorough), decoded both with xml.Unmarshal and with xml.NewTokenDecoder, and every decoded value re-encoded over its own vocabulary + {unknown element, unknown attribute, text, whitespace}: value or error, never panic.",
		Assumptions: []string{
			"encoding/xml is the well-formedness judge (plus a duplicate-attribute check)",
			"per-type normalisers (documented next to each spec in types.go / form.go): UTC instants where the XEP format is UTC, second precision where the format has no fraction, nil and empty slices identified, XMLName ignored where the type fixes it",
			"values the library documents as invalid (unknown hash algorithms) may be refused with an error by the encoders",
			"internal/saslerr cannot be imported from outside the module and is not covered; pubsub and blocklist request payloads are built inline by functions that send them: they are captured from a session over an in-memory writer with a cancelled context (the reply path is C08's subject)",
		},
		Parts: parts,
	})
}

func parts(tier string) []drv.Part {
	dev, formFields, submitFields, nodes := 2, 2, 2, 4
	budget := 50 * time.Second
	if tier == "thorough" {
		dev, nodes = 3, 5
		budget = 8 * time.Minute
	}
	var out []drv.Part
	for _, g := range []string{"disco-paging", "time-delay", "roster-muc", "history-commands", "upload-crypto"} {
		sp := specsOf(g)
		names := ""
		for _, s := range sp {
			names += " " + s.name
		}
		out = append(out, drv.Part{Name: "values-" + g, Desc: "laws 1-5 for" + names, Body: valuesBody(sp), MaxDev: dev + 1, CutDepth: 3, Budget: budget})
	}
	out = append(out,
		drv.Part{Name: "form-values", Desc: "data forms built through form.New/form.Cancel/zero value: laws 1-5", Body: valuesBody([]*spec{formSpec(formFields)}), MaxDev: dev, CutDepth: 4, Budget: budget},
		drv.Part{Name: "form-submit", Desc: "form.Data Set/Get*/Submit on constructed, decoded and zero forms", Body: submitBody(submitFields), MaxDev: dev - 1, CutDepth: 4, Budget: budget},
		drv.Part{Name: "wrap-unwrap", Desc: "forward.Forwarded.Wrap / carbons.WrapReceived / carbons.WrapSent / forward.Wrap and their Unwrap", Body: wrapBody, CutDepth: 2, Budget: budget},
		drv.Part{Name: "requests", Desc: "pubsub and blocklist request payloads captured from a session over an in-memory writer", Body: requestsBody, CutDepth: 2, Budget: budget},
		drv.Part{Name: "pubsub-conditions", Desc: "pubsub.Condition decoder against Condition.String", Body: pubsubBody, CutDepth: 1, Budget: budget, Workers: 1},
	)
	var targets []robustTarget
	all := append([]*spec{}, specs...)
	all = append(all, formSpec(0))
	for _, s := range all {
		if len(s.samples) == 0 || s.noDecode {
			continue
		}
		targets = append(targets, robustTarget{s: s, v: buildVocab(s.samples)})
	}
	out = append(out, drv.Part{Name: "unmarshal-robustness", Desc: fmt.Sprintf("every XML tree of <= %d nodes over each type's vocabulary into each of %d decoders", nodes, len(targets)),
		Body: robustBody(targets, nodes), CutDepth: 3, Budget: budget})
	return out
}
