package c19

// The pubsub (and blocklist) request payloads are not types: they are built
// inline by functions that send them over a session.  They are captured by
// calling the functions with a session over an in-memory writer and an already
// cancelled context: the request is written, then the call returns
// context.Canceled instead of waiting for a reply (no goroutine of the harness
// is involved, the run is deterministic).
//
// Laws: the call does not panic, what was written is exactly one well-formed
// <iq/>, and its payload is the tree the function documents, carrying every
// string argument unchanged.

import (
	"bytes"
	"context"
	"encoding/xml"
	"fmt"
	"io"
	"sort"
	"strings"

	"mellium.im/xmpp"
	"mellium.im/xmpp/blocklist"
	"mellium.im/xmpp/form"
	"mellium.im/xmpp/jid"
	"mellium.im/xmpp/pubsub"
	"mellium.im/xmpp/stanza"
	"mellium.im/xmpp/stream"

	"verif/nd"
	"verif/xu"
)

type captureRW struct{ out bytes.Buffer }

func (c *captureRW) Read([]byte) (int, error)    { return 0, io.EOF }
func (c *captureRW) Write(b []byte) (int, error) { return c.out.Write(b) }

func newCaptureSession() (*xmpp.Session, *captureRW, error) {
	rw := &captureRW{}
	neg := func(_ context.Context, in, out *stream.Info, _ *xmpp.Session, _ interface{}) (xmpp.SessionState, io.ReadWriter, interface{}, error) {
		in.XMLNS, out.XMLNS = stanza.NSClient, stanza.NSClient
		return xmpp.Ready, nil, nil, nil
	}
	s, err := xmpp.NewSession(context.Background(), jid.MustParse("example.net"), jid.MustParse("me@example.net/r"), rw, 0, neg)
	return s, rw, err
}

// want builds the canonical tree string (xu.Node.String format) of an element.
func want(space, local string, attrs map[string]string, children ...string) string {
	var b strings.Builder
	fmt.Fprintf(&b, "<{%s}%s", space, local)
	var keys []string
	for k := range attrs {
		keys = append(keys, k)
	}
	sort.Strings(keys)
	for _, k := range keys {
		fmt.Fprintf(&b, " {}%s=%q", k, attrs[k])
	}
	b.WriteString(">")
	for _, c := range children {
		b.WriteString(c)
	}
	b.WriteString("</>")
	return b.String()
}

var reqPayloads = []string{
	`<entry xmlns="http://www.w3.org/2005/Atom"><title>a&amp;b</title></entry>`,
	`<x xmlns="urn:x" k="&lt;v&gt;"/>`,
	"", // a reader that is at EOF
}

var u64Small = []uint64{0, 1, 1<<64 - 1}

type request struct {
	name string
	// run performs the call and returns the expected payload tree ("" if the
	// function is expected to return an error before writing anything)
	run func(c *nd.Ctx, ctx context.Context, s *xmpp.Session, iq stanza.IQ) (desc string, expect string)
}

func pickStr(c *nd.Ctx, label string) string { return strPool[c.Choose(len(strPool), label)] }

func cfgForm(c *nd.Ctx) (*form.Data, string, string) {
	switch c.Choose(3, "config") {
	case 1:
		f := form.New(form.Hidden("FORM_TYPE", form.Value("http://jabber.org/protocol/pubsub#node_config")), form.Text("pubsub#title"))
		return f, "form{FORM_TYPE}", want(form.NS, "x", map[string]string{"type": "submit"},
			want(form.NS, "field", map[string]string{"type": "hidden", "var": "FORM_TYPE"}, want(form.NS, "value", nil, `"http://jabber.org/protocol/pubsub#node_config"`)))
	case 2:
		f := form.New(form.Text("pubsub#title"), form.Boolean("pubsub#notify", form.Required))
		f.Set("pubsub#title", `<&>'"`)
		f.Set("pubsub#notify", true)
		return f, "form{title,notify}", want(form.NS, "x", map[string]string{"type": "submit"},
			want(form.NS, "field", map[string]string{"type": "text-single", "var": "pubsub#title"}, want(form.NS, "value", nil, fmt.Sprintf("%q", `<&>'"`))),
			want(form.NS, "field", map[string]string{"type": "boolean", "var": "pubsub#notify"}, want(form.NS, "required", nil), want(form.NS, "value", nil, `"true"`)))
	}
	return nil, "nil", ""
}

var requests = []request{
	{"pubsub.PublishIQ", func(c *nd.Ctx, ctx context.Context, s *xmpp.Session, iq stanza.IQ) (string, string) {
		node, id := pickStr(c, "node"), pickStr(c, "id")
		pi := c.Choose(len(reqPayloads), "item")
		var item xml.TokenReader = xu.Reader(reqPayloads[pi])
		if item == nil {
			item = &xu.SliceReader{}
		}
		pubsub.PublishIQ(ctx, s, iq, node, id, item)
		if reqPayloads[pi] == "" {
			return fmt.Sprintf("node=%q id=%q item=<EOF>", node, id), ""
		}
		ia := map[string]string{}
		if id != "" {
			ia["id"] = id
		}
		return fmt.Sprintf("node=%q id=%q item=%s", node, id, reqPayloads[pi]),
			want(pubsub.NS, "pubsub", nil, want(pubsub.NS, "publish", map[string]string{"node": node}, want(pubsub.NS, "item", ia, treeOf([]byte(reqPayloads[pi])))))
	}},
	{"pubsub.CreateNodeIQ", func(c *nd.Ctx, ctx context.Context, s *xmpp.Session, iq stanza.IQ) (string, string) {
		node := pickStr(c, "node")
		cfg, cd, ct := cfgForm(c)
		pubsub.CreateNodeIQ(ctx, s, iq, node, cfg)
		children := []string{want(pubsub.NS, "create", map[string]string{"node": node})}
		if cfg != nil {
			children = append(children, want(pubsub.NS, "configure", nil, ct))
		}
		return fmt.Sprintf("node=%q cfg=%s", node, cd), want(pubsub.NS, "pubsub", nil, children...)
	}},
	{"pubsub.DeleteIQ", func(c *nd.Ctx, ctx context.Context, s *xmpp.Session, iq stanza.IQ) (string, string) {
		node, id := pickStr(c, "node"), pickStr(c, "id")
		notify := c.Choose(2, "notify") == 1
		pubsub.DeleteIQ(ctx, s, iq, node, id, notify)
		ra := map[string]string{"node": node}
		if notify {
			ra["notify"] = "true"
		}
		return fmt.Sprintf("node=%q id=%q notify=%v", node, id, notify),
			want(pubsub.NS, "pubsub", nil, want(pubsub.NS, "retract", ra, want(pubsub.NS, "item", map[string]string{"id": id})))
	}},
	{"pubsub.GetConfigIQ", func(c *nd.Ctx, ctx context.Context, s *xmpp.Session, iq stanza.IQ) (string, string) {
		node := pickStr(c, "node")
		pubsub.GetConfigIQ(ctx, s, iq, node)
		return fmt.Sprintf("node=%q", node), want(pubsub.NSOwner, "pubsub", nil, want(pubsub.NSOwner, "configure", map[string]string{"node": node}))
	}},
	{"pubsub.GetDefaultConfigIQ", func(c *nd.Ctx, ctx context.Context, s *xmpp.Session, iq stanza.IQ) (string, string) {
		pubsub.GetDefaultConfigIQ(ctx, s, iq)
		return "", want(pubsub.NSOwner, "pubsub", nil, want(pubsub.NSOwner, "default", nil))
	}},
	{"pubsub.SetConfigIQ", func(c *nd.Ctx, ctx context.Context, s *xmpp.Session, iq stanza.IQ) (string, string) {
		node := pickStr(c, "node")
		cfg, cd, ct := cfgForm(c)
		pubsub.SetConfigIQ(ctx, s, iq, node, cfg)
		if cfg == nil {
			// a nil form submits as an empty form
			ct = want(form.NS, "x", map[string]string{"type": "submit"})
		}
		return fmt.Sprintf("node=%q cfg=%s", node, cd), want(pubsub.NSOwner, "pubsub", nil, want(pubsub.NSOwner, "configure", map[string]string{"node": node}, ct))
	}},
	{"pubsub.FetchIQ", func(c *nd.Ctx, ctx context.Context, s *xmpp.Session, iq stanza.IQ) (string, string) {
		q := pubsub.Query{Node: pickStr(c, "node"), Item: pickStr(c, "item"), MaxItems: u64Small[c.Choose(len(u64Small), "max")]}
		it := pubsub.FetchIQ(ctx, iq, s, q)
		it.Next()
		it.Item()
		it.Err()
		it.Close()
		a := map[string]string{"node": q.Node}
		if q.MaxItems > 0 {
			a["max_items"] = fmt.Sprint(q.MaxItems)
		}
		if q.Item != "" {
			a["item"] = q.Item
		}
		return fmt.Sprintf("%+v", q), want(pubsub.NS, "pubsub", nil, want(pubsub.NS, "items", a))
	}},
	{"blocklist.AddIQ", func(c *nd.Ctx, ctx context.Context, s *xmpp.Session, iq stanza.IQ) (string, string) {
		js, children := pickJIDs(c)
		blocklist.AddIQ(ctx, iq, s, js...)
		return fmt.Sprint(js), want(blocklist.NS, "block", nil, children...)
	}},
	{"blocklist.RemoveIQ", func(c *nd.Ctx, ctx context.Context, s *xmpp.Session, iq stanza.IQ) (string, string) {
		js, children := pickJIDs(c)
		blocklist.RemoveIQ(ctx, iq, s, js...)
		return fmt.Sprint(js), want(blocklist.NS, "unblock", nil, children...)
	}},
}

func pickJIDs(c *nd.Ctx) ([]jid.JID, []string) {
	var js []jid.JID
	var children []string
	n := c.Choose(3, "njids")
	for i := 0; i < n; i++ {
		j := jidPool[c.Choose(len(jidPool), "jid")]
		js = append(js, j)
		children = append(children, want(blocklist.NS, "item", map[string]string{"jid": j.String()}))
	}
	return js, children
}

func requestsBody(c *nd.Ctx) nd.Result {
	rq := requests[c.Choose(len(requests), "request")]
	s, rw, err := newCaptureSession()
	if err != nil {
		return nd.Result{Outcome: "engine", Violation: viol("requests:no-session", "cannot build the capture session: %v", err)}
	}
	ctx, cancel := context.WithCancel(context.Background())
	cancel()
	iq := stanza.IQ{ID: "rq1", To: jidBare}
	var desc, expect string
	p := nd.Catch(func() { desc, expect = rq.run(c, ctx, s, iq) })
	desc = rq.name + "(" + desc + ")"
	c.Note("%s", desc)
	res := nd.Result{Outcome: rq.name, NonTrivial: desc}
	if p != nil {
		res.Violation = viol(rq.name+":"+psig(p), "%s panics: %s\n%s", desc, p.Value, p.Stack)
		return res
	}
	b := rw.out.Bytes()
	if expect == "" {
		if len(b) != 0 {
			res.Violation = viol(rq.name+":writes-despite-error", "%s wrote %q", desc, b)
		}
		res.Outcome = rq.name + ":nothing-sent"
		return res
	}
	roots, err := xu.Parse(b)
	if err != nil || len(roots) != 1 {
		res.Violation = viol(rq.name+":request-malformed", "%s wrote %q: %v (%d roots)", desc, b, err, len(roots))
		return res
	}
	root := roots[0]
	if root.Name.Local != "iq" || len(root.Children) != 1 {
		res.Violation = viol(rq.name+":request-differs", "%s wrote %s: not an iq with one payload", desc, b)
		return res
	}
	if got := root.Children[0].String(); got != expect {
		res.Violation = viol(rq.name+":request-differs", "%s wrote %s: payload %s, want %s", desc, b, got, expect)
	}
	return res
}
