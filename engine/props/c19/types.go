package c19

// The registry: one spec per payload type of the anchored files.  The comment
// on each norm function states the documented normalisation under which a
// decoded value has to equal the original.

import (
	stdcrypto "crypto"
	"encoding/xml"
	"math"
	"net/http"
	"net/url"
	"reflect"
	"time"

	"mellium.im/xmpp/bin"
	"mellium.im/xmpp/blocklist"
	"mellium.im/xmpp/bookmarks"
	"mellium.im/xmpp/commands"
	"mellium.im/xmpp/crypto"
	"mellium.im/xmpp/delay"
	"mellium.im/xmpp/disco"
	"mellium.im/xmpp/disco/info"
	"mellium.im/xmpp/disco/items"
	"mellium.im/xmpp/file"
	"mellium.im/xmpp/form"
	"mellium.im/xmpp/forward"
	"mellium.im/xmpp/history"
	"mellium.im/xmpp/jid"
	"mellium.im/xmpp/muc"
	"mellium.im/xmpp/oob"
	"mellium.im/xmpp/paging"
	"mellium.im/xmpp/receipts"
	"mellium.im/xmpp/roster"
	"mellium.im/xmpp/stanza"
	"mellium.im/xmpp/styling"
	"mellium.im/xmpp/upload"
	"mellium.im/xmpp/version"
	"mellium.im/xmpp/xtime"
)

func typeOf(v any) reflect.Type { return reflect.TypeOf(v) }

func mustURL(s string) *url.URL {
	u, err := url.Parse(s)
	if err != nil {
		panic(err)
	}
	return u
}

// local carrier types for the attribute codecs
type attrTime struct {
	XMLName xml.Name   `xml:"x"`
	T       xtime.Time `xml:"t,attr"`
}

type attrHash struct {
	XMLName xml.Name    `xml:"x"`
	H       crypto.Hash `xml:"h,attr"`
}

func validHash(h crypto.Hash) bool {
	_, err := h.Namespace()
	return err == nil
}

var iqTypePool = P(stanza.GetIQ, stanza.SetIQ, stanza.ResultIQ)

var hashPool = P(crypto.SHA1, crypto.SHA224, crypto.SHA256, crypto.SHA384, crypto.SHA512, crypto.SHA3_256, crypto.SHA3_512,
	crypto.BLAKE2b_256, crypto.BLAKE2b_512, crypto.Hash(0), crypto.Hash(stdcrypto.MD5), crypto.Hash(255))

// filler returns n bytes that are not all alike (0, 1, ..., 250, 0, ...).
func filler(n int) []byte {
	b := make([]byte, n)
	for i := range b {
		b[i] = byte(i % 251)
	}
	return b
}

var keysPool = P(nil, []crypto.Key{{Trusted: true, KeyID: []byte("abc")}}, []crypto.Key{{Trusted: false, KeyID: []byte{0xff}}, {Trusted: true}})

var specs = []*spec{
	// ---------------------------------------------------------------- disco
	{name: "disco.InfoQuery", group: "disco-paging", typ: typeOf(disco.InfoQuery{}),
		samples: []string{`<query xmlns="http://jabber.org/protocol/disco#info" node="n"/>`}},
	{name: "disco.Info", group: "disco-paging", typ: typeOf(disco.Info{}),
		pools: map[string][]any{
			"Identity": P(nil, []info.Identity{{Category: "client", Type: "pc"}},
				[]info.Identity{{Category: `<&>'"`, Type: "é", Name: "a\nb", Lang: "en"}, {Category: "a", Type: "b", Name: "c", Lang: `<&>'"`}}),
			"Features": P(nil, []info.Feature{{Var: "urn:a"}}, []info.Feature{{Var: `<&>'"`}, {Var: ""}}),
			// forms are an optional part of the info payload (XEP-0128); the type has
			// a Form field which its decoder fills
			"Form": P(nil, []form.Data{*form.New(form.Hidden("FORM_TYPE", form.Value("urn:x")), form.Text("os", form.Value("a<b")))}),
		},
		samples: []string{`<query xmlns="http://jabber.org/protocol/disco#info" node="n"><identity category="client" type="pc" name="n" xml:lang="en"/><feature var="urn:a"/><x xmlns="jabber:x:data" type="result"><field var="FORM_TYPE" type="hidden"><value>urn:x</value></field></x></query>`}},
	{name: "disco.ItemsQuery", group: "disco-paging", typ: typeOf(disco.ItemsQuery{}),
		samples: []string{`<query xmlns="http://jabber.org/protocol/disco#items" node="n"/>`}},
	{name: "disco.Caps", group: "disco-paging", typ: typeOf(disco.Caps{}),
		pools:     map[string][]any{"Hash": P(crypto.SHA1, crypto.SHA256, crypto.BLAKE2b_512, crypto.Hash(0))},
		mayRefuse: func(p any) bool { return !validHash(p.(*disco.Caps).Hash) }, // ErrUnknownAlgo is documented
		samples:   []string{`<c xmlns="http://jabber.org/protocol/caps" hash="sha-1" node="http://code.google.com/p/exodus" ver="QgayPKawpkPSDYmwT/WM94uAlu0="/>`}},
	{name: "info.Feature", group: "disco-paging", typ: typeOf(info.Feature{}),
		samples: []string{`<feature xmlns="http://jabber.org/protocol/disco#info" var="urn:a"/>`}},
	{name: "info.Identity", group: "disco-paging", typ: typeOf(info.Identity{}),
		samples: []string{`<identity xmlns="http://jabber.org/protocol/disco#info" category="client" type="pc" name="n" xml:lang="en"/>`}},
	{name: "items.Item", group: "disco-paging", typ: typeOf(items.Item{}),
		samples: []string{`<item xmlns="http://jabber.org/protocol/disco#items" jid="a@example.net/r" name="n" node="o"/>`}},

	// ---------------------------------------------------------------- paging
	{name: "paging.RequestCount", group: "disco-paging", typ: typeOf(paging.RequestCount{}), byPtr: true,
		samples: []string{`<set xmlns="http://jabber.org/protocol/rsm"><max>0</max></set>`}},
	{name: "paging.RequestNext", group: "disco-paging", typ: typeOf(paging.RequestNext{}), byPtr: true,
		samples: []string{`<set xmlns="http://jabber.org/protocol/rsm"><max>10</max><after>id</after></set>`}},
	{name: "paging.RequestPrev", group: "disco-paging", typ: typeOf(paging.RequestPrev{}), byPtr: true,
		samples: []string{`<set xmlns="http://jabber.org/protocol/rsm"><max>10</max><before>id</before></set>`}},
	{name: "paging.RequestIndex", group: "disco-paging", typ: typeOf(paging.RequestIndex{}), byPtr: true,
		samples: []string{`<set xmlns="http://jabber.org/protocol/rsm"><max>10</max><index>3</index></set>`}},
	{name: "paging.Set", group: "disco-paging", typ: typeOf(paging.Set{}), byPtr: true,
		samples: []string{`<set xmlns="http://jabber.org/protocol/rsm"><first index="0">a</first><last>b</last><count>800</count></set>`}},

	// ---------------------------------------------------------------- time, delay, forwarding, hints
	{name: "delay.Delay", group: "time-delay", typ: typeOf(delay.Delay{}),
		// XEP-0203: the stamp is UTC; the zone of the original is not carried
		norm:    func(p any) { d := p.(*delay.Delay); d.Time = d.Time.UTC() },
		samples: []string{`<delay xmlns="urn:xmpp:delay" stamp="2002-09-10T23:08:25Z" from="a@example.net">reason</delay>`}},
	{name: "stanza.Delay", group: "time-delay", typ: typeOf(stanza.Delay{}),
		// as above
		norm:    func(p any) { d := p.(*stanza.Delay); d.Stamp = d.Stamp.UTC() },
		samples: []string{`<delay xmlns="urn:xmpp:delay" stamp="2002-09-10T23:08:25.5Z" from="a@example.net">reason<x/></delay>`}},
	{name: "xtime.Time", group: "time-delay", typ: typeOf(xtime.Time{}),
		// XEP-0202 carries the UTC instant and the zone offset: both are compared
		samples: []string{`<time xmlns="urn:xmpp:time"><tzo>-06:00</tzo><utc>2006-12-19T17:58:35Z</utc></time>`, `<time xmlns="urn:xmpp:time"><tzo>Z</tzo><utc>2006-12-19T17:58:35.5Z</utc></time>`}},
	{name: "xtime.Time(attr)", group: "time-delay", typ: typeOf(attrTime{}),
		// the attribute form is a UTC instant (XEP-0082)
		norm:    func(p any) { d := p.(*attrTime); d.T.Time = d.T.Time.UTC() },
		samples: []string{`<x t="2006-12-19T17:58:35Z"/>`}},
	{name: "forward.Forwarded", group: "time-delay", typ: typeOf(forward.Forwarded{}),
		norm:    func(p any) { d := p.(*forward.Forwarded); d.Delay.Time = d.Delay.Time.UTC() },
		samples: []string{`<forwarded xmlns="urn:xmpp:forward:0"><delay xmlns="urn:xmpp:delay" stamp="2002-09-10T23:08:25Z" from="a@example.net">r</delay><message xmlns="jabber:client"/></forwarded>`}},
	{name: "receipts.Requested", group: "time-delay", typ: typeOf(receipts.Requested(false)),
		// "enable or disable requesting a receipt": false is the absence of the element
		mayBeEmpty: func(p any) bool { return !bool(*p.(*receipts.Requested)) },
		samples:    []string{`<request xmlns="urn:xmpp:receipts"/>`, `<received xmlns="urn:xmpp:receipts" id="a"/>`}},
	{name: "styling.Unstyled", group: "time-delay", typ: typeOf(styling.Unstyled{}),
		// "When unmarshaled or marshaled its value indicates whether the unstyled
		// hint was or will be present": Value=false is the absence of the element
		mayBeEmpty: func(p any) bool { return !p.(*styling.Unstyled).Value },
		samples:    []string{`<unstyled xmlns="urn:xmpp:styling:0"/>`, `<styled xmlns="urn:xmpp:styling:0"/>`}},

	// ---------------------------------------------------------------- roster, blocklist, bookmarks, muc
	{name: "roster.IQ", group: "roster-muc", typ: typeOf(roster.IQ{}),
		pools: map[string][]any{
			"IQ.Type": iqTypePool,
			"Query.Item": P(nil, []roster.Item{{JID: jidBare, Name: "n", Subscription: "both", Group: []string{"g"}}},
				[]roster.Item{{JID: jidFull, Name: `<&>'"`, Group: []string{"a\n", "é"}}, {}}),
		},
		samples: []string{`<iq xmlns="jabber:client" type="result" id="1" to="a@example.net"><query xmlns="jabber:iq:roster" ver="v"><item jid="b@example.net" name="n" subscription="both"><group>g</group></item></query></iq>`}},
	{name: "roster.Item", group: "roster-muc", typ: typeOf(roster.Item{}),
		samples: []string{`<item xmlns="jabber:iq:roster" jid="b@example.net" name="n" subscription="both"><group>g</group></item>`}},
	{name: "blocklist.Item", group: "roster-muc", typ: typeOf(blocklist.Item{}), byPtr: true,
		pools: map[string][]any{
			"Reason": P(blocklist.ReportReason(""), blocklist.ReasonSpam, blocklist.ReasonAbuse, blocklist.ReportReason(`<&>'"`)),
			"StanzaIDs": P(nil, []stanza.ID{{ID: "a", By: jidBare}},
				[]stanza.ID{{ID: `<&>'"`, By: jidFull}, {ID: "é"}}),
		},
		// XEP-0377: a report always has a reason; the encoder fills in "spam" when
		// a report (text or stanza ids) is present without one
		norm: func(p any) {
			i := p.(*blocklist.Item)
			if i.Reason == "" && (len(i.StanzaIDs) > 0 || i.Text != "") {
				i.Reason = blocklist.ReasonSpam
			}
		},
		samples: []string{`<item xmlns="urn:xmpp:blocking" jid="a@example.net"><report xmlns="urn:xmpp:reporting:1" reason="urn:xmpp:reporting:spam"><stanza-id xmlns="urn:xmpp:sid:0" by="a@example.net" id="x"/><text>t</text></report></item>`}},
	{name: "bookmarks.Channel", group: "roster-muc", typ: typeOf(bookmarks.Channel{}),
		pools: map[string][]any{"Extensions": P(nil, []byte(`<a xmlns="urn:x"/>`), []byte(`<a xmlns="urn:x" k="v&amp;">t&lt;<b/></a><c xmlns="urn:y"/>`), []byte(`<state xmlns:x="urn:x2" xmlns="urn:state" x:minimized="true"/>`), []byte(`<state xmlns="urn:state" xmlns:x="urn:x2" xmlns:y="urn:y2" y:k="v"><x:i/></state>`))},
		// XEP-0402: the JID of the room is the pubsub item id, not part of the
		// conference payload; extensions are compared as XML trees
		norm: func(p any) {
			c := p.(*bookmarks.Channel)
			c.JID = jid.JID{}
			if len(c.Extensions) > 0 {
				c.Extensions = []byte(treeOf([]byte("<extensions xmlns='urn:xmpp:bookmarks:1'>" + string(c.Extensions) + "</extensions>")))
			}
		},
		samples: []string{`<conference xmlns="urn:xmpp:bookmarks:1" name="n" autojoin="true"><nick>k</nick><password>p</password><extensions><a xmlns="urn:x"/></extensions></conference>`}},
	{name: "muc.Item", group: "roster-muc", typ: typeOf(muc.Item{}),
		pools: map[string][]any{
			"Affiliation": P(muc.AffiliationNone, muc.AffiliationOwner, muc.AffiliationAdmin, muc.AffiliationMember, muc.AffiliationOutcast),
			"Role":        P(muc.RoleNone, muc.RoleModerator, muc.RoleParticipant, muc.RoleVisitor),
		},
		samples: []string{`<item xmlns="http://jabber.org/protocol/muc#user" jid="a@example.net/r" affiliation="owner" nick="n" role="moderator"><reason>r</reason></item>`}},
	// the same type handed to xml.Marshal by pointer (Affiliation and Role have
	// pointer-receiver attribute marshalers)
	{name: "muc.Item(by-pointer)", group: "roster-muc", typ: typeOf(muc.Item{}), byPtr: true,
		pools: map[string][]any{
			"Affiliation": P(muc.AffiliationNone, muc.AffiliationOwner, muc.AffiliationAdmin, muc.AffiliationMember, muc.AffiliationOutcast),
			"Role":        P(muc.RoleNone, muc.RoleModerator, muc.RoleParticipant, muc.RoleVisitor),
		}},
	{name: "muc.Invitation", group: "roster-muc", typ: typeOf(muc.Invitation{}), keepName: true,
		pools: map[string][]any{"XMLName": P(xml.Name{}, xml.Name{Space: muc.NSConf, Local: "x"}, xml.Name{Space: muc.NSUser, Local: "x"})},
		// "the default is mediated": any name but the direct one selects the
		// mediated form; the thread only qualifies a continuation
		norm: func(p any) {
			i := p.(*muc.Invitation)
			if i.XMLName != (xml.Name{Space: muc.NSConf, Local: "x"}) {
				i.XMLName = xml.Name{Space: muc.NSUser, Local: "x"}
			}
			if !i.Continue {
				i.Thread = ""
			}
		},
		samples: []string{`<x xmlns="jabber:x:conference" jid="r@example.net" continue="true" thread="t" password="p" reason="r"/>`,
			`<x xmlns="http://jabber.org/protocol/muc#user"><invite to="a@example.net"><reason>r</reason><continue thread="t"/></invite><password>p</password></x>`}},

	// ---------------------------------------------------------------- history, commands, oob, version
	{name: "history.Query", group: "history-commands", typ: typeOf(history.Query{}), byPtr: true,
		pools: map[string][]any{"IDs": P(nil, []string{"a"}, []string{`<&>'"`, "é"}, []string{"a\nb", "a\n"})},
		// XEP-0313 start/end are XEP-0082 UTC date-times written with second precision
		norm: func(p any) {
			q := p.(*history.Query)
			q.Start = q.Start.UTC().Truncate(time.Second)
			q.End = q.End.UTC().Truncate(time.Second)
		},
		samples: []string{`<query xmlns="urn:xmpp:mam:2" queryid="q"><x xmlns="jabber:x:data" type="submit"><field var="FORM_TYPE" type="hidden"><value>urn:xmpp:mam:2</value></field><field var="with"><value>a@example.net</value></field><field var="start"><value>2010-06-07T00:00:00Z</value></field><field var="ids" type="list-multi"><value>i</value></field></x><set xmlns="http://jabber.org/protocol/rsm"><max>10</max><after>a</after><before/></set><flip-page/></query>`}},
	{name: "history.Result", group: "history-commands", typ: typeOf(history.Result{}), byPtr: true,
		samples: []string{`<fin xmlns="urn:xmpp:mam:2" complete="true" stable="false"><set xmlns="http://jabber.org/protocol/rsm"><first index="0">a</first><last>b</last><count>8</count></set></fin>`}},
	{name: "commands.Command", group: "history-commands", typ: typeOf(commands.Command{}),
		samples: []string{`<command xmlns="http://jabber.org/protocol/commands" jid="a@example.net" action="execute" name="n" node="o" sessionid="s"/>`}},
	{name: "commands.Actions", group: "history-commands", typ: typeOf(commands.Actions(0)),
		pools: map[string][]any{"": actionsPool()},
		// "Execute is a bitmask that can be used to extract the default action":
		// the default action is one action; undefined bits are not representable
		norm: func(p any) {
			a := p.(*commands.Actions)
			*a &= 0x3f
			switch (*a & commands.Execute) >> 3 {
			case commands.Prev, commands.Next, commands.Complete:
			default:
				*a &^= commands.Execute
			}
		},
		samples: []string{`<actions xmlns="http://jabber.org/protocol/commands" execute="next"><prev/><next/><complete/></actions>`}},
	{name: "commands.Response", group: "history-commands", typ: typeOf(commands.Response{}),
		pools: map[string][]any{"IQ.Type": iqTypePool},
		sigKey: func(k string) string {
			if k == "Node" || k == "SID" || k == "Status" {
				return "command-attributes"
			}
			return k
		},
		samples: []string{`<iq xmlns="jabber:client" type="result" id="1" from="a@example.net" node="o" sessionid="s" status="executing"><command xmlns="http://jabber.org/protocol/commands" node="o" sessionid="s" status="executing"/></iq>`}},
	{name: "commands.Note", group: "history-commands", typ: typeOf(commands.Note{}),
		pools:   map[string][]any{"Type": P(commands.NoteInfo, commands.NoteWarn, commands.NoteError)},
		samples: []string{`<note xmlns="http://jabber.org/protocol/commands" type="warn">text</note>`}},
	{name: "oob.IQ", group: "history-commands", typ: typeOf(oob.IQ{}),
		pools:   map[string][]any{"IQ.Type": iqTypePool},
		samples: []string{`<iq xmlns="jabber:client" type="set" id="1" to="a@example.net"><query xmlns="jabber:iq:oob"><url>http://example.org/</url><desc>d</desc></query></iq>`}},
	{name: "oob.Query", group: "history-commands", typ: typeOf(oob.Query{}),
		samples: []string{`<query xmlns="jabber:iq:oob"><url>http://example.org/</url><desc>d</desc></query>`}},
	{name: "oob.Data", group: "history-commands", typ: typeOf(oob.Data{}),
		samples: []string{`<x xmlns="jabber:x:oob"><url>http://example.org/</url><desc>d</desc></x>`}},
	{name: "version.Query", group: "history-commands", typ: typeOf(version.Query{}),
		samples: []string{`<query xmlns="jabber:iq:version"><name>n</name><version>1</version><os>o</os></query>`}},

	// ---------------------------------------------------------------- upload, bob, file metadata, hashes, trust messages
	{name: "upload.File", group: "upload-crypto", typ: typeOf(upload.File{}),
		samples: []string{`<request xmlns="urn:xmpp:http:upload:0" filename="f" size="23456" content-type="image/jpeg"/>`}},
	{name: "upload.Slot", group: "upload-crypto", typ: typeOf(upload.Slot{}),
		pools: map[string][]any{
			"PutURL": P(nil, mustURL("https://example.org/a?b=c&d=e"), mustURL("http://[::1]:8080/p/%C3%A9%20x?q=%27%22%3C%3E"), &url.URL{}),
			"GetURL": P(nil, mustURL("https://example.org/a?b=c&d=e"), mustURL("http://[::1]:8080/p/%C3%A9%20x?q=%27%22%3C%3E"), &url.URL{}),
			"Header": P(nil, http.Header{"Authorization": {"Basic a"}}, http.Header{"authorization": {`<&>'"`}, "Cookie": {"a=b", "c=d"}, "X-Other": {"z"}}, http.Header{"Expires": {"a\nb"}, "Content-Type": {"x"}}),
		},
		// "only the following header names are allowed: Authorization, Cookie,
		// Expires" (others are dropped, names are canonicalised); an empty URL is
		// the absence of one
		norm: func(p any) {
			s := p.(*upload.Slot)
			if s.PutURL != nil && s.PutURL.String() == "" {
				s.PutURL = nil
			}
			if s.GetURL != nil && s.GetURL.String() == "" {
				s.GetURL = nil
			}
			var h http.Header
			for k, v := range s.Header {
				switch ck := http.CanonicalHeaderKey(k); ck {
				case "Authorization", "Cookie", "Expires":
					if h == nil {
						h = http.Header{}
					}
					h[ck] = append(h[ck], v...)
				}
			}
			s.Header = h
		},
		samples: []string{`<slot xmlns="urn:xmpp:http:upload:0"><put url="https://example.org/put"><header name="Authorization">Basic a</header><header name="X">y</header></put><get url="https://example.org/get"/></slot>`}},
	{name: "bin.Data", group: "upload-crypto", typ: typeOf(bin.Data{}), byPtr: true,
		pools: map[string][]any{"MaxAge": P(time.Duration(0), time.Second, 90*time.Second, 1500*time.Millisecond, -time.Second, time.Duration(math.MaxInt64/int64(time.Second))*time.Second),
			// payload sizes around the base64 group and around the buffer sizes an encoder may work in
			"Data": P([]byte(nil), []byte("a"), []byte("ab"), []byte("abc"), []byte{0xff, 0x00, 0x10, 0x80}, filler(511), filler(512), filler(513), filler(1024), filler(1025), filler(3071), filler(3073), filler(4095), filler(4096), filler(4097), filler(4098), filler(8191), filler(8193), filler(32769), filler(65537), filler(200001))},
		// XEP-0231 max-age is a whole number of seconds, 0 meaning "do not cache";
		// a negative age cannot be expressed
		norm: func(p any) {
			d := p.(*bin.Data)
			if d.MaxAge < 0 {
				d.MaxAge = 0
			}
			d.MaxAge = time.Duration(math.Round(d.MaxAge.Seconds())) * time.Second
			if d.NoCache {
				d.MaxAge = 0
			}
		},
		samples: []string{`<data xmlns="urn:xmpp:bob" cid="sha1+8f35fef110ffc5df08d579a50083ff9308fb6242@bob.xmpp.org" max-age="86400" type="image/png">aGVsbG8=</data>`}},
	{name: "file.Meta", group: "upload-crypto", typ: typeOf(file.Meta{}), byPtr: true,
		pools: map[string][]any{"Hash": P(crypto.HashOutput{Hash: crypto.SHA256, Out: []byte("abc")}, crypto.HashOutput{Hash: crypto.SHA1, Out: []byte{0xff}},
			crypto.HashOutput{Hash: crypto.BLAKE2b_256, Out: []byte("abcd")}, // an algorithm whose implementation is not linked into the binary
			crypto.HashOutput{})}, // (an empty digest is exercised by the crypto.HashOutput spec)
		// XEP-0446 date is an XEP-0082 date-time written with second precision
		// (the zone offset is carried)
		norm:    func(p any) { m := p.(*file.Meta); m.Date = m.Date.Truncate(time.Second) },
		samples: []string{`<file xmlns="urn:xmpp:file:metadata:0"><media-type>text/plain</media-type><name>n</name><date>2015-07-26T21:46:00+01:00</date><size>6144</size><hash xmlns="urn:xmpp:hashes:2" algo="sha-1">2XarmwTlNxDAMkvymloX3S5+VbylNrJt/l5QyPa+YoU=</hash><width>1</width><height>2</height><length>3</length></file>`}},
	{name: "crypto.Hash", group: "upload-crypto", typ: typeOf(crypto.Hash(0)),
		pools:     map[string][]any{"": hashPool},
		mayRefuse: func(p any) bool { return !validHash(*p.(*crypto.Hash)) },
		mayPanic:  func(p any) bool { return !validHash(*p.(*crypto.Hash)) }, // "TokenReader panics if the hash is invalid"
		samples:   []string{`<hash-used xmlns="urn:xmpp:hashes:2" algo="sha-256"/>`}},
	{name: "crypto.Hash(attr)", group: "upload-crypto", typ: typeOf(attrHash{}),
		pools:     map[string][]any{"H": hashPool},
		mayRefuse: func(p any) bool { return !validHash(p.(*attrHash).H) },
		samples:   []string{`<x h="sha-256"/>`}},
	{name: "crypto.HashOutput", group: "upload-crypto", typ: typeOf(crypto.HashOutput{}),
		pools:     map[string][]any{"Hash": P(crypto.SHA256, crypto.SHA1, crypto.BLAKE2b_512, crypto.Hash(0))},
		mayRefuse: func(p any) bool { return !validHash(p.(*crypto.HashOutput).Hash) },
		mayPanic:  func(p any) bool { return !validHash(p.(*crypto.HashOutput).Hash) }, // "TokenReader panics if the original hash is invalid"
		// a digest without bytes is not a digest: the decoder rejects an empty
		// <hash/> on purpose (crypto_test.go case 13 pins the error)
		mayNotDecode: func(p any) bool { return len(p.(*crypto.HashOutput).Out) == 0 },
		samples:      []string{`<hash xmlns="urn:xmpp:hashes:2" algo="sha-256">2XarmwTlNxDAMkvymloX3S5+VbylNrJt/l5QyPa+YoU=</hash>`}},
	{name: "crypto.Key", group: "upload-crypto", typ: typeOf(crypto.Key{}),
		samples: []string{`<trust xmlns="urn:xmpp:tm:1">aGVsbG8=</trust>`, `<distrust xmlns="urn:xmpp:tm:1">aGVsbA==</distrust>`}},
	{name: "crypto.OwnedKeys", group: "upload-crypto", typ: typeOf(crypto.OwnedKeys{}),
		pools:   map[string][]any{"Keys": keysPool},
		samples: []string{`<key-owner xmlns="urn:xmpp:tm:1" jid="a@example.net"><trust>aGVsbG8=</trust><distrust>aGVsbA==</distrust></key-owner>`}},
	{name: "crypto.TrustMessage", group: "upload-crypto", typ: typeOf(crypto.TrustMessage{}),
		pools: map[string][]any{"Keys": P(nil, []crypto.OwnedKeys{{Owner: jidBare, Keys: keysPool[1].([]crypto.Key)}},
			[]crypto.OwnedKeys{{Owner: jidFull}, {Keys: keysPool[2].([]crypto.Key)}},
			// the same owner named by several entries (trusted and distrusted keys collected separately; an empty entry first)
			[]crypto.OwnedKeys{{Owner: jidBare, Keys: keysPool[1].([]crypto.Key)}, {Owner: jidBare, Keys: keysPool[2].([]crypto.Key)}},
			[]crypto.OwnedKeys{{Owner: jidBare}, {Owner: jidFull, Keys: keysPool[1].([]crypto.Key)}, {Owner: jidBare, Keys: keysPool[1].([]crypto.Key)}})},
		samples: []string{`<trust-message xmlns="urn:xmpp:tm:1" usage="urn:xmpp:atm:1" encryption="urn:xmpp:omemo:2"><key-owner jid="a@example.net"><trust>aGVsbG8=</trust><distrust>aGVsbA==</distrust></key-owner></trust-message>`}},
}

func actionsPool() []any {
	var out []any
	for i := 0; i < 64; i++ {
		out = append(out, commands.Actions(i))
	}
	return out
}

// fullProductLimit is the size up to which a type's value space is enumerated
// as a full cross product; above it every value with at most MaxDev fields off
// their default is enumerated.
const fullProductLimit = 2e4

func initSpecs() {
	for _, s := range specs {
		if s.build == nil {
			s.size = s.productSize(s.typ, "")
			if s.size > fullProductLimit {
				s.cost = 1
			}
		}
	}
}

func specsOf(group string) []*spec {
	var out []*spec
	for _, s := range specs {
		if s.group == group {
			out = append(out, s)
		}
	}
	return out
}
