package c19

// Unmarshal robustness: for every type with a decoder, every XML tree of at
// most N nodes (elements, attributes and text nodes all count) over the type's
// own vocabulary plus {unknown element, unknown attribute, text, whitespace}
// is offered to xml.Unmarshal: a value or an error, never a panic.  The
// vocabulary of a type is taken from sample documents in its spec (element
// names, attribute names with the values seen, text values seen).

import (
	"encoding/xml"
	"fmt"
	"reflect"
	"strings"

	"mellium.im/xmlstream"

	"verif/nd"
	"verif/xu"
)

const xmlNS = "http://www.w3.org/XML/1998/namespace"

type label struct {
	kind  int // 0 element, 1 attribute, 2 text, 3 comment / processing instruction / directive (written as is)
	name  xml.Name
	value string
}

type vocab struct {
	roots  []xml.Name
	labels []label
}

func buildVocab(samples []string) *vocab {
	v := &vocab{}
	seenRoot := map[xml.Name]bool{}
	seen := map[label]bool{}
	add := func(l label) {
		if !seen[l] {
			seen[l] = true
			v.labels = append(v.labels, l)
		}
	}
	var elems, attrs, texts []label
	var walk func(n *xu.Node, root bool)
	walk = func(n *xu.Node, root bool) {
		if n.Name.Local == "" {
			texts = append(texts, label{kind: 2, value: n.Text})
			return
		}
		if root && !seenRoot[n.Name] {
			seenRoot[n.Name] = true
			v.roots = append(v.roots, n.Name)
		}
		if !root {
			elems = append(elems, label{kind: 0, name: n.Name})
		}
		for _, a := range n.Attr {
			attrs = append(attrs, label{kind: 1, name: a.Name, value: a.Value})
			attrs = append(attrs, label{kind: 1, name: a.Name, value: ""})
			attrs = append(attrs, label{kind: 1, name: a.Name, value: "x"})
		}
		for _, c := range n.Children {
			walk(c, false)
		}
	}
	for _, s := range samples {
		roots, err := xu.Parse([]byte(s))
		if err != nil || len(roots) != 1 {
			panic(fmt.Sprintf("c19: bad sample %q: %v", s, err))
		}
		walk(roots[0], true)
	}
	for _, l := range elems {
		add(l)
	}
	add(label{kind: 0, name: xml.Name{Space: "urn:unknown", Local: "unknown"}})
	for _, l := range attrs {
		add(l)
	}
	add(label{kind: 1, name: xml.Name{Local: "unknown"}, value: "x"})
	for _, l := range texts {
		add(l)
	}
	add(label{kind: 2, value: "x"})
	add(label{kind: 2, value: " \n"})
	// tokens that are neither elements nor text: a decoder that walks the token
	// stream by hand meets them wherever a peer puts them
	add(label{kind: 3, value: "<!--c-->"})
	add(label{kind: 3, value: "<?pi x?>"})
	add(label{kind: 3, value: "<!d>"})
	return v
}

type tnode struct {
	name     xml.Name
	attrs    []xml.Attr
	children []*tnode
	text     string
	raw      bool // text is markup written as is (comment, processing instruction, directive)
}

type treeGen struct {
	c      *nd.Ctx
	v      *vocab
	budget int
	dup    bool
}

func (t *treeGen) element(name xml.Name) *tnode {
	n := &tnode{name: name}
	for t.budget > 0 {
		k := t.c.Choose(1+len(t.v.labels), "child")
		if k == 0 {
			break
		}
		t.budget--
		l := t.v.labels[k-1]
		switch l.kind {
		case 0:
			n.children = append(n.children, t.element(l.name))
		case 1:
			for _, a := range n.attrs {
				if a.Name == l.name {
					t.dup = true // not well-formed: outside the domain
				}
			}
			n.attrs = append(n.attrs, xml.Attr{Name: l.name, Value: l.value})
		case 3:
			n.children = append(n.children, &tnode{text: l.value, raw: true})
		default:
			if k := len(n.children); k > 0 && n.children[k-1].name.Local == "" && !n.children[k-1].raw {
				t.dup = true // two adjacent text nodes are one text node: already covered
			}
			n.children = append(n.children, &tnode{text: l.value})
		}
	}
	return n
}

func (n *tnode) write(b *strings.Builder, parentNS string) {
	if n.raw {
		b.WriteString(n.text)
		return
	}
	if n.name.Local == "" {
		xml.EscapeText(b, []byte(n.text))
		return
	}
	b.WriteString("<" + n.name.Local)
	if n.name.Space != parentNS {
		fmt.Fprintf(b, ` xmlns="%s"`, n.name.Space)
	}
	for _, a := range n.attrs {
		name := a.Name.Local
		if a.Name.Space == xmlNS {
			name = "xml:" + name
		}
		b.WriteString(" " + name + `="`)
		xml.EscapeText(b, []byte(a.Value))
		b.WriteString(`"`)
	}
	b.WriteString(">")
	for _, c := range n.children {
		c.write(b, n.name.Space)
	}
	b.WriteString("</" + n.name.Local + ">")
}

type robustTarget struct {
	s *spec
	v *vocab
}

func robustBody(targets []robustTarget, maxNodes int) nd.Body {
	return func(c *nd.Ctx) nd.Result {
		t := targets[c.Choose(len(targets), "type")]
		root := t.v.roots[c.Choose(len(t.v.roots), "root")]
		tg := &treeGen{c: c, v: t.v, budget: maxNodes - 1}
		tree := tg.element(root)
		if tg.dup {
			return nd.Result{Skip: true}
		}
		var sb strings.Builder
		tree.write(&sb, "")
		doc := sb.String()
		c.Note("%s <- %s", t.s.name, doc)
		res := nd.Result{Outcome: t.s.name + ":error", NonTrivial: t.s.name + doc}
		var target any
		if t.s.fresh != nil {
			target = t.s.fresh()
		} else {
			target = reflect.New(t.s.typ).Interface()
		}
		// the two ways the library itself decodes: from bytes, and from a token
		// stream (session payloads are handed to xml.NewTokenDecoder)
		// ... and into targets that are not fresh: a value that has already decoded
		// the type's sample documents (decoders that reuse buffers), and a value
		// whose byte slices were preallocated by the caller.
		path := c.Choose(4, "decoder")
		var err error
		if p := nd.Catch(func() {
			switch path {
			case 0:
				err = xml.Unmarshal([]byte(doc), target)
			case 1:
				err = xml.NewTokenDecoder(xu.Reader(doc)).Decode(target)
			case 2:
				for _, sd := range t.s.samples {
					_ = xml.Unmarshal([]byte(sd), target)
				}
				err = xml.Unmarshal([]byte(doc), target)
			case 3:
				preallocate(reflect.ValueOf(target))
				err = xml.Unmarshal([]byte(doc), target)
			}
		}); p != nil {
			res.Outcome = t.s.name + ":panic"
			res.Violation = viol(t.s.name+":"+psig(p), "decoding %s into %s (%s) panics: %s\n%s", doc, t.s.name, []string{"xml.Unmarshal", "xml.NewTokenDecoder", "xml.Unmarshal into a value that already decoded the samples", "xml.Unmarshal into a value with preallocated byte slices"}[path], p.Value, p.Stack)
			return res
		}
		if path >= 2 {
			// merged values are not re-encoded: only the decoder is under test
			if err == nil {
				res.Outcome = t.s.name + ":value"
			}
			return res
		}
		if err == nil {
			res.Outcome = t.s.name + ":value"
			// a decoded value can be encoded again (and, for forms, driven through
			// the accessors) without panicking
			post := t.s.post
			if post == nil {
				post = genericPost
			}
			if t.s.mayPanic != nil && t.s.mayPanic(target) {
				post = func(any) {}
			}
			{
				if p := nd.Catch(func() { post(target) }); p != nil {
					res.Outcome = t.s.name + ":panic"
					if strings.HasPrefix(p.Value, "{rendering is not well-formed") {
						res.Violation = viol(t.s.name+":decoded-value:malformed-rendering", "value decoded from %s: %s", doc, p.Value)
					} else {
						res.Violation = viol(t.s.name+":"+psig(p), "using the value decoded from %s panics: %s\n%s", doc, p.Value, p.Stack)
					}
				}
			}
		}
		return res
	}
}

// genericPost re-encodes a decoded value through its TokenReader.
func genericPost(p any) {
	if m, ok := p.(xmlstream.Marshaler); ok {
		xu.Render(m.TokenReader())
	}
}

// preallocate gives every settable []byte field (recursively through structs)
// an empty slice with spare capacity, as a caller reusing buffers would.
func preallocate(v reflect.Value) {
	for v.Kind() == reflect.Ptr {
		if v.IsNil() {
			return
		}
		v = v.Elem()
	}
	if v.Kind() != reflect.Struct {
		return
	}
	for i := 0; i < v.NumField(); i++ {
		f := v.Field(i)
		if !f.CanSet() {
			continue
		}
		switch {
		case f.Kind() == reflect.Slice && f.Type().Elem().Kind() == reflect.Uint8:
			f.Set(reflect.MakeSlice(f.Type(), 0, 64))
		case f.Kind() == reflect.Struct:
			preallocate(f.Addr())
		}
	}
}
