// Package c19: extension payloads encode consistently, safely and round-trip.
//
// The check is table driven.  Every payload type of the anchored files is
// described by a spec (types.go): how to enumerate its values (a reflective
// generator over the exported fields with adversarial pools, or a custom
// builder for opaque types), which of the two directions exist, and the
// documented normalisation under which a decoded value must equal the
// original.  core laws (checkValue):
//
//	(1) xml.Marshal(v) is exactly one well-formed element
//	(2) the TokenReader / WriteXML rendering is exactly one well-formed element
//	(3) both decode, into a fresh value, to the same value
//	(4) two-way types: that value equals the original (per-type normaliser)
//	(5) none of the calls panics
//
// Data forms (form.go) are built through the public constructors and then
// driven through Set/Get*/Submit.  robust.go enumerates every small XML tree
// over each type's own vocabulary and requires "value or error, never panic".
package c19

import (
	"bytes"
	"encoding/hex"
	"encoding/xml"
	"fmt"
	"math"
	"net/http"
	"net/url"
	"reflect"
	"regexp"
	"sort"
	"strings"
	"time"

	"mellium.im/xmlstream"
	"mellium.im/xmpp/form"
	"mellium.im/xmpp/jid"

	"verif/nd"
	"verif/xu"
)

var digits = regexp.MustCompile(`[0-9]+`)

// psig is the signature of a panic: top library frame and message class,
// independent of numbers in the message.
func psig(p *nd.Panic) string { return digits.ReplaceAllString(p.Sig(), "N") }

func viol(sig, f string, a ...any) *nd.Violation {
	return &nd.Violation{Sig: sig, Msg: fmt.Sprintf(f, a...)}
}

// ---- value pools (index 0 is the default / simplest value)

var strPool = []string{"", "a", `<&>'"`, "é", "a\nb", "a\n"}

var (
	jidBare = jid.MustParse("a@example.net")
	jidFull = jid.MustParse(`me@example.com/it's<&>"`)
	jidPool = []jid.JID{{}, jidBare, jidFull}
)

var (
	zoneEast = time.FixedZone("", 5*3600+1800)
	zoneWest = time.FixedZone("", -(3*3600 + 1800))
	zoneOdd  = time.FixedZone("", 19*60+32) // an offset that is not a whole number of minutes (Amsterdam before 1937)
	timePool = []time.Time{
		{},
		time.Date(2002, 9, 10, 23, 8, 25, 0, time.UTC),
		time.Date(2021, 12, 31, 23, 59, 59, 123456789, time.UTC),
		time.Date(2020, 2, 29, 1, 2, 3, 0, zoneEast),
		time.Date(1999, 1, 1, 0, 0, 0, 500000000, zoneWest),
		time.Date(1936, 6, 1, 12, 0, 0, 0, zoneOdd),
	}
)

var strSlicePool = [][]string{nil, {"a"}, {`<&>'"`, "é"}, {"a\nb", "a\n"}, {""}}
var bytesPool = [][]byte{nil, []byte("a"), []byte("ab"), []byte("abc"), {0xff, 0x00, 0x10, 0x80}}

func pu64(v uint64) *uint64 { return &v }

var pu64Pool = []*uint64{nil, pu64(0), pu64(1), pu64(math.MaxUint64)}

// P builds a pool override.
func P(xs ...any) []any { return xs }

var (
	timeType   = reflect.TypeOf(time.Time{})
	jidType    = reflect.TypeOf(jid.JID{})
	nameType   = reflect.TypeOf(xml.Name{})
	formType   = reflect.TypeOf(form.Data{})
	urlPtrType = reflect.TypeOf((*url.URL)(nil))
	headerType = reflect.TypeOf(http.Header{})
)

// ---- spec

type kv struct{ k, v string }

type spec struct {
	name  string
	group string       // part the type is explored in
	typ   reflect.Type // T
	byPtr bool         // the codec methods have pointer receivers: encode &v
	pools map[string][]any
	// norm applies the documented normalisation of the type to *T in place.  It
	// is applied to (a copy of) the original and to the decoded values before
	// they are compared, so it must be a projection.
	norm func(p any)
	// oneWay: the type has no decoder, or its decoder is not meant to read its
	// own encoding (law 4 is not applied).
	oneWay bool
	// noDecode: there is nothing to decode into (laws 3 and 4 not applied; the
	// two renderings are compared as trees instead).
	noDecode bool
	// mayRefuse reports values the library documents as invalid: an error from
	// the encoder is then an accepted outcome.
	mayRefuse func(p any) bool
	// mayPanic reports values for which the encoders are documented to panic.
	mayPanic func(p any) bool
	// mayNotDecode reports values whose encoding the decoder refuses by design
	// (the refusal is pinned by the library's own tests): laws 3/4 then only
	// require that both forms are refused alike.
	mayNotDecode func(p any) bool
	// mayBeEmpty reports values documented to encode to nothing.
	mayBeEmpty func(p any) bool
	keepName   bool                  // XMLName is significant for this type
	sigKey     func(k string) string // view component name -> signature fragment
	// custom builder / view for opaque types
	build func(g *G) reflect.Value // returns an addressable T
	view  func(p any) []kv
	// robustness
	samples []string        // documents spanning the type's vocabulary
	post    func(p any)     // operations run on every successfully decoded value
	cost    int             // 0: full product, 1: bounded deviations (computed)
	size    float64         // size of the full product (computed)
	fresh   func() any      // decoding target (default: new T)
	marshal func(p any) any // value handed to xml.Marshal (default: v or &v)
}

// G is the generator context of one execution.
type G struct {
	c    *nd.Ctx // nil: replay rec
	s    *spec
	cost int
	rec  []int
	ri   int
}

// pickCost is pick with an explicit deviation cost.
func (g *G) pickCost(n int, label string, cost int) int {
	if g.c == nil {
		ch := g.rec[g.ri]
		g.ri++
		return ch
	}
	if cost == 0 {
		return g.c.Choose(n, label)
	}
	return g.c.ChooseCost(n, label, cost)
}

func (g *G) pick(n int, label string) int {
	if g.c == nil {
		ch := g.rec[g.ri]
		g.ri++
		return ch
	}
	if g.cost == 0 {
		return g.c.Choose(n, label)
	}
	return g.c.ChooseCost(n, label, g.cost)
}

// fill enumerates a value of v's type field by field.
func (g *G) fill(v reflect.Value, path string) {
	t := v.Type()
	if pool, ok := g.s.pools[path]; ok {
		if len(pool) == 0 {
			return // field left at its zero value
		}
		i := g.pick(len(pool), path)
		if pool[i] == nil {
			v.Set(reflect.Zero(t))
		} else {
			v.Set(reflect.ValueOf(pool[i]).Convert(t))
		}
		return
	}
	switch t {
	case timeType:
		v.Set(reflect.ValueOf(timePool[g.pick(len(timePool), path)]))
		return
	case jidType:
		v.Set(reflect.ValueOf(jidPool[g.pick(len(jidPool), path)]))
		return
	case nameType:
		return
	}
	switch t.Kind() {
	case reflect.String:
		v.SetString(strPool[g.pick(len(strPool), path)])
	case reflect.Bool:
		v.SetBool(g.pick(2, path) == 1)
	case reflect.Uint, reflect.Uint8, reflect.Uint16, reflect.Uint32, reflect.Uint64:
		max := uint64(math.MaxUint64) >> (64 - t.Bits())
		v.SetUint([]uint64{0, 1, max}[g.pick(3, path)])
	case reflect.Int, reflect.Int8, reflect.Int16, reflect.Int32, reflect.Int64:
		max := int64(math.MaxInt64) >> (64 - t.Bits())
		v.SetInt([]int64{0, 1, max, -1}[g.pick(4, path)])
	case reflect.Ptr:
		if t.Elem().Kind() == reflect.Uint64 {
			v.Set(reflect.ValueOf(pu64Pool[g.pick(len(pu64Pool), path)]))
			return
		}
		panic("c19: no generator for " + g.s.name + " " + path + " " + t.String())
	case reflect.Slice:
		switch t.Elem().Kind() {
		case reflect.String:
			v.Set(reflect.ValueOf(strSlicePool[g.pick(len(strSlicePool), path)]).Convert(t))
		case reflect.Uint8:
			v.Set(reflect.ValueOf(bytesPool[g.pick(len(bytesPool), path)]).Convert(t))
		default:
			panic("c19: no generator for " + g.s.name + " " + path + " " + t.String())
		}
	case reflect.Struct:
		for i := 0; i < t.NumField(); i++ {
			f := t.Field(i)
			if !f.IsExported() {
				continue
			}
			p := f.Name
			if path != "" {
				p = path + "." + f.Name
			}
			g.fill(v.Field(i), p)
		}
	default:
		panic("c19: no generator for " + g.s.name + " " + path + " " + t.String())
	}
}

// productSize computes the size of the full product of a type's pools.
func (s *spec) productSize(t reflect.Type, path string) float64 {
	if pool, ok := s.pools[path]; ok {
		if len(pool) == 0 {
			return 1
		}
		return float64(len(pool))
	}
	switch t {
	case timeType:
		return float64(len(timePool))
	case jidType:
		return float64(len(jidPool))
	case nameType:
		return 1
	}
	switch t.Kind() {
	case reflect.String:
		return float64(len(strPool))
	case reflect.Bool:
		return 2
	case reflect.Uint, reflect.Uint8, reflect.Uint16, reflect.Uint32, reflect.Uint64:
		return 3
	case reflect.Int, reflect.Int8, reflect.Int16, reflect.Int32, reflect.Int64:
		return 4
	case reflect.Ptr:
		return float64(len(pu64Pool))
	case reflect.Slice:
		if t.Elem().Kind() == reflect.String {
			return float64(len(strSlicePool))
		}
		return float64(len(bytesPool))
	case reflect.Struct:
		n := 1.0
		for i := 0; i < t.NumField(); i++ {
			f := t.Field(i)
			if !f.IsExported() {
				continue
			}
			p := f.Name
			if path != "" {
				p = path + "." + f.Name
			}
			n *= s.productSize(f.Type, p)
		}
		return n
	}
	return 1
}

// ---- canonical rendering of values

func renderTime(t time.Time) string {
	_, off := t.Zone()
	// the instant is compared exactly, the zone at the resolution the wire
	// formats have (XEP-0082 / RFC 3339 offsets carry hours and minutes)
	off -= off % 60
	return t.UTC().Format("2006-01-02T15:04:05.000000000Z") + fmt.Sprintf("%+d", off)
}

func render(v reflect.Value, keepName bool) string {
	t := v.Type()
	switch t {
	case timeType:
		return renderTime(v.Interface().(time.Time))
	case jidType:
		return fmt.Sprintf("jid(%q)", v.Interface().(jid.JID).String())
	case nameType:
		n := v.Interface().(xml.Name)
		return fmt.Sprintf("{%s}%s", n.Space, n.Local)
	case formType:
		if !v.CanAddr() {
			c := reflect.New(t).Elem()
			c.Set(v)
			v = c
		}
		return "form{" + joinKV(formView(v.Addr().Interface().(*form.Data))) + "}"
	case urlPtrType:
		u := v.Interface().(*url.URL)
		if u == nil {
			return "url()"
		}
		return "url(" + u.String() + ")"
	case headerType:
		h := v.Interface().(http.Header)
		var keys []string
		for k := range h {
			keys = append(keys, k)
		}
		sort.Strings(keys)
		var b strings.Builder
		for _, k := range keys {
			fmt.Fprintf(&b, "%q=%q;", k, h[k])
		}
		return "header(" + b.String() + ")"
	}
	switch t.Kind() {
	case reflect.String:
		return fmt.Sprintf("%q", v.String())
	case reflect.Bool:
		return fmt.Sprint(v.Bool())
	case reflect.Uint, reflect.Uint8, reflect.Uint16, reflect.Uint32, reflect.Uint64:
		return fmt.Sprint(v.Uint())
	case reflect.Int, reflect.Int8, reflect.Int16, reflect.Int32, reflect.Int64:
		return fmt.Sprint(v.Int())
	case reflect.Ptr:
		if v.IsNil() {
			return "nil"
		}
		return "&" + render(v.Elem(), keepName)
	case reflect.Slice:
		if t.Elem().Kind() == reflect.Uint8 {
			return "hex(" + hex.EncodeToString(v.Bytes()) + ")"
		}
		var parts []string
		for i := 0; i < v.Len(); i++ {
			parts = append(parts, render(v.Index(i), keepName))
		}
		return "[" + strings.Join(parts, ", ") + "]" // nil and empty are identified
	case reflect.Struct:
		return "{" + joinKV(viewStruct(v, keepName)) + "}"
	}
	panic("c19: cannot render " + t.String())
}

func viewStruct(v reflect.Value, keepName bool) []kv {
	t := v.Type()
	var out []kv
	for i := 0; i < t.NumField(); i++ {
		f := t.Field(i)
		if !f.IsExported() {
			continue
		}
		if f.Type == nameType && f.Name == "XMLName" && !keepName {
			continue // fixed by the type
		}
		out = append(out, kv{f.Name, render(v.Field(i), keepName)})
	}
	return out
}

func joinKV(l []kv) string {
	var parts []string
	for _, e := range l {
		parts = append(parts, e.k+"="+e.v)
	}
	return strings.Join(parts, " ")
}

// viewOf renders *T (after normalisation) as a list of named components.
func (s *spec) viewOf(p any) []kv {
	if s.view != nil {
		return s.view(p)
	}
	v := reflect.ValueOf(p).Elem()
	if v.Kind() == reflect.Struct && v.Type() != timeType {
		return viewStruct(v, s.keepName)
	}
	return []kv{{"value", render(v, s.keepName)}}
}

func (s *spec) sk(k string) string {
	if s.sigKey != nil {
		return s.sigKey(k)
	}
	return k
}

// firstDiff names the first component in which two views differ.
func firstDiff(a, b []kv) (string, string, string, bool) {
	for i := range a {
		if i >= len(b) {
			return a[i].k, a[i].v, "<missing>", true
		}
		if a[i] != b[i] {
			return a[i].k, a[i].v, b[i].v, true
		}
	}
	if len(b) > len(a) {
		return b[len(a)].k, "<missing>", b[len(a)].v, true
	}
	return "", "", "", false
}

// Values are never copied: the generator is deterministic, so a second
// instance is rebuilt from the recorded choices whenever an untouched original
// is needed (normalisers and encoders may mutate slices in place).

// ---- the laws

type rendering struct {
	b     []byte
	err   error
	panic *nd.Panic
}

func catchRender(f func() ([]byte, error)) (r rendering) {
	r.panic = nd.Catch(func() { r.b, r.err = f() })
	return r
}

// checkValue applies laws (1)-(5) to one value.  mk rebuilds the value (the
// generator is deterministic), so that the original is never aliased with what
// the encoders or normalisers touched.
func checkValue(s *spec, mk func() reflect.Value) (outcome string, desc string, v *nd.Violation) {
	orig := mk()
	ptr := orig.Addr().Interface()
	{
		n := mk()
		np := n.Addr().Interface()
		if s.norm != nil {
			s.norm(np)
		}
		desc = s.name + "{" + joinKV(s.viewOf(np)) + "}"
	}
	rawDesc := fmt.Sprintf("%s %+v", s.name, safeFmt(orig))

	var target any = orig.Interface()
	if s.byPtr {
		target = ptr
	}
	if s.marshal != nil {
		target = s.marshal(ptr)
	}
	refusable := s.mayRefuse != nil && s.mayRefuse(ptr)
	emptyOK := s.mayBeEmpty != nil && s.mayBeEmpty(ptr)

	panicOK := s.mayPanic != nil && s.mayPanic(ptr)

	// (1) xml.Marshal
	m := catchRender(func() ([]byte, error) { return xml.Marshal(target) })
	if m.panic != nil && panicOK {
		return "documented-panic-invalid-value", desc, nil
	}
	if m.panic != nil {
		return "panic", desc, viol(s.name+":"+psig(m.panic), "%s: xml.Marshal panics: %s\n%s", rawDesc, m.panic.Value, m.panic.Stack)
	}
	// (2) TokenReader and WriteXML
	var t, w rendering
	hasTok, hasWrite := false, false
	if tm, ok := ptr.(xmlstream.Marshaler); ok {
		hasTok = true
		t = catchRender(func() ([]byte, error) { return xu.Render(tm.TokenReader()) })
		if t.panic != nil && panicOK {
			return "documented-panic-invalid-value", desc, nil
		}
		if t.panic != nil {
			return "panic", desc, viol(s.name+":"+psig(t.panic), "%s: TokenReader panics: %s\n%s", rawDesc, t.panic.Value, t.panic.Stack)
		}
	}
	if wm, ok := ptr.(xmlstream.WriterTo); ok {
		hasWrite = true
		w = catchRender(func() ([]byte, error) {
			var b bytes.Buffer
			e := xml.NewEncoder(&b)
			if _, err := wm.WriteXML(e); err != nil {
				return nil, err
			}
			err := e.Flush()
			return b.Bytes(), err
		})
		if w.panic != nil {
			return "panic", desc, viol(s.name+":"+psig(w.panic), "%s: WriteXML panics: %s\n%s", rawDesc, w.panic.Value, w.panic.Stack)
		}
	}
	if m.err != nil || (hasWrite && w.err != nil) || (hasTok && t.err != nil) {
		if refusable {
			// a documented-invalid value: the encoders may refuse it, but what they
			// do write must still be well-formed
			for _, r := range []rendering{m, t, w} {
				if r.err == nil && len(r.b) > 0 {
					if err := xu.WellFormed(r.b); err != nil {
						return "refused", desc, viol(s.name+":encode-malformed", "%s: %s: %v", rawDesc, r.b, err)
					}
				}
			}
			return "refused-invalid-value", desc, nil
		}
		switch {
		case m.err != nil:
			return "error", desc, viol(s.name+":marshal-error", "%s: xml.Marshal: %v", rawDesc, m.err)
		case hasTok && t.err != nil:
			return "error", desc, viol(s.name+":token-path-error", "%s: encoding TokenReader(): %v (output so far %s)", rawDesc, t.err, t.b)
		default:
			return "error", desc, viol(s.name+":token-path-error", "%s: WriteXML: %v", rawDesc, w.err)
		}
	}
	if emptyOK {
		if len(m.b) != 0 || (hasTok && len(t.b) != 0) || (hasWrite && len(w.b) != 0) {
			return "empty", desc, viol(s.name+":writes-element-for-absent-value", "%s: documented to encode to nothing; xml.Marshal %q TokenReader %q WriteXML %q", rawDesc, m.b, t.b, w.b)
		}
		return "encodes-to-nothing", desc, nil
	}
	if err := xu.WellFormed(m.b); err != nil {
		return "malformed", desc, viol(s.name+":marshal-malformed", "%s: xml.Marshal gives %q: %v", rawDesc, m.b, err)
	}
	if hasTok {
		if err := xu.WellFormed(t.b); err != nil {
			return "malformed", desc, viol(s.name+":token-path-malformed", "%s: TokenReader encodes to %q: %v", rawDesc, t.b, err)
		}
	}
	if hasWrite {
		if err := xu.WellFormed(w.b); err != nil {
			return "malformed", desc, viol(s.name+":token-path-malformed", "%s: WriteXML encodes to %q: %v", rawDesc, w.b, err)
		}
	}
	tokB := t.b
	if !hasTok {
		tokB = w.b
	}
	twoForms := hasTok || hasWrite
	if s.noDecode {
		if twoForms && treeOf(m.b) != treeOf(tokB) {
			return "differ", desc, viol(s.name+":paths-differ", "%s: xml.Marshal %s, token path %s", rawDesc, m.b, tokB)
		}
		return "ok-encode-only", desc, nil
	}

	// (3) both decode to the same value
	decode := func(b []byte) (any, error, *nd.Panic) {
		var f any
		if s.fresh != nil {
			f = s.fresh()
		} else {
			f = reflect.New(s.typ).Interface()
		}
		var err error
		p := nd.Catch(func() { err = xml.Unmarshal(b, f) })
		return f, err, p
	}
	dm, errM, pm := decode(m.b)
	if pm != nil {
		return "panic", desc, viol(s.name+":"+psig(pm), "%s: decoding %s panics: %s\n%s", rawDesc, m.b, pm.Value, pm.Stack)
	}
	var dt any
	var errT error
	if twoForms {
		var pt *nd.Panic
		dt, errT, pt = decode(tokB)
		if pt != nil {
			return "panic", desc, viol(s.name+":"+psig(pt), "%s: decoding %s panics: %s\n%s", rawDesc, tokB, pt.Value, pt.Stack)
		}
	}
	if errM != nil && (!twoForms || errT != nil) && s.oneWay {
		// no decoder for the type's own encoding: compare the renderings
		if twoForms && treeOf(m.b) != treeOf(tokB) {
			return "differ", desc, viol(s.name+":paths-differ", "%s: xml.Marshal %s, token path %s", rawDesc, m.b, tokB)
		}
		return "ok-not-decodable(one-way)", desc, nil
	}
	if errM != nil && (!twoForms || errT != nil) && s.mayNotDecode != nil && s.mayNotDecode(ptr) {
		return "decoder-refuses-invalid-value", desc, nil
	}
	if errM != nil {
		return "undecodable", desc, viol(s.name+":marshal-output-does-not-decode", "%s: %s: %v", rawDesc, m.b, errM)
	}
	if twoForms && errT != nil {
		return "undecodable", desc, viol(s.name+":token-output-does-not-decode", "%s: %s: %v", rawDesc, tokB, errT)
	}
	if s.norm != nil {
		s.norm(dm)
		if twoForms {
			s.norm(dt)
		}
	}
	vm := s.viewOf(dm)
	if twoForms {
		vt := s.viewOf(dt)
		if k, a, b, d := firstDiff(vm, vt); d {
			return "differ", desc, viol(s.name+":paths-differ:"+s.sk(k), "%s: xml.Marshal %s decodes with %s=%s; token path %s decodes with %s=%s", rawDesc, m.b, k, a, tokB, k, b)
		}
	}
	if s.oneWay {
		return "ok-one-way", desc, nil
	}
	// (4) equivalent to the original
	want := mk()
	wp := want.Addr().Interface()
	if s.norm != nil {
		s.norm(wp)
	}
	if k, a, b, d := firstDiff(s.viewOf(wp), vm); d {
		return "differ", desc, viol(s.name+":roundtrip-differs:"+s.sk(k), "%s: encodes to %s which decodes with %s=%s, original has %s=%s", rawDesc, m.b, k, b, k, a)
	}
	return "ok", desc, nil
}

func safeFmt(v reflect.Value) (s string) {
	defer func() {
		if e := recover(); e != nil {
			s = fmt.Sprintf("<unprintable: %v>", e)
		}
	}()
	s = fmt.Sprintf("%+v", v.Interface())
	if len(s) > 600 {
		s = s[:600] + "…"
	}
	return s
}

// treeOf is the canonical tree rendering of a document ("" if malformed).
func treeOf(b []byte) string {
	roots, err := xu.Parse(b)
	if err != nil {
		return "malformed: " + err.Error()
	}
	var sb strings.Builder
	for _, r := range roots {
		sb.WriteString(r.String())
	}
	return sb.String()
}

// valuesBody is the harness of one group of types.
func valuesBody(specs []*spec) nd.Body {
	return func(c *nd.Ctx) nd.Result {
		s := specs[c.Choose(len(specs), "type")]
		// record the choices of the generator so that the value can be rebuilt
		start := len(c.Vector())
		first := s.generate(c, nil)
		rec := c.Vector()[start:]
		mk := func() reflect.Value {
			if first.IsValid() {
				v := first
				first = reflect.Value{}
				return v
			}
			return s.generate(nil, rec)
		}
		outcome, desc, v := checkValue(s, mk)
		c.Note("%s", desc)
		return nd.Result{Outcome: s.name + ":" + outcome, NonTrivial: desc, Violation: v}
	}
}

// generate builds a value either from the explorer (c != nil) or from a
// recorded choice vector.
func (s *spec) generate(c *nd.Ctx, rec []int) reflect.Value {
	g := &G{c: c, s: s, cost: s.cost, rec: rec}
	if s.build != nil {
		return s.build(g)
	}
	v := reflect.New(s.typ).Elem()
	g.fill(v, "")
	return v
}
