// Package c02: a client asked to use STARTTLS never proceeds in clear text.
package c02

import (
	"bytes"
	"context"
	"crypto/tls"
	"fmt"
	"io"
	"regexp"
	"strings"
	"time"
	"verif/vs"

	"mellium.im/sasl"
	"mellium.im/xmpp"
	"mellium.im/xmpp/jid"
	"mellium.im/xmpp/stanza"

	"verif/drv"
	"verif/nd"
	"verif/sess"
	"verif/tlspeer"
	"verif/xu"
)

const (
	streamNS = "http://etherx.jabber.org/streams"
	tlsNS    = "urn:ietf:params:xml:ns:xmpp-tls"
	saslNS   = "urn:ietf:params:xml:ns:xmpp-sasl"
	bindNS   = "urn:ietf:params:xml:ns:xmpp-bind"
)

var firstLists = []struct{ name, xml string }{
	{"starttls-required", `<starttls xmlns='` + tlsNS + `'><required/></starttls>`},
	{"starttls-optional", `<starttls xmlns='` + tlsNS + `'/>`},
	{"empty-list", ``},
	{"mechanisms-only", `<mechanisms xmlns='` + saslNS + `'><mechanism>PLAIN</mechanism></mechanisms>`},
	{"unknown-only", `<other xmlns='urn:other'/>`},
	{"starttls-among-others", `<mechanisms xmlns='` + saslNS + `'><mechanism>PLAIN</mechanism></mechanisms><starttls xmlns='` + tlsNS + `'/><bind xmlns='` + bindNS + `'/>`},
	{"bind-only", `<bind xmlns='` + bindNS + `'/>`},
	{"starttls-required-among-others", `<starttls xmlns='` + tlsNS + `'><required/></starttls><mechanisms xmlns='` + saslNS + `'><mechanism>PLAIN</mechanism></mechanisms>`},
	{"others-before-starttls-required", `<bind xmlns='` + bindNS + `'/><mechanisms xmlns='` + saslNS + `'><mechanism>PLAIN</mechanism></mechanisms><starttls xmlns='` + tlsNS + `'><required/></starttls>`},
}

const fakeFeatures = `<stream:stream xmlns='jabber:client' xmlns:stream='` + streamNS + `' version='1.0' id='fake' from='example.com'><stream:features><mechanisms xmlns='` + saslNS + `'><mechanism>PLAIN</mechanism></mechanisms></stream:features>`

var answers = []struct{ name, xml string }{
	{"proceed", `<proceed xmlns='` + tlsNS + `'/>`},
	{"proceed+pipelined-fake-features", `<proceed xmlns='` + tlsNS + `'/>` + fakeFeatures},
	{"proceed+pipelined-stanza", `<proceed xmlns='` + tlsNS + `'/><message xmlns='jabber:client'><body>clear</body></message>`},
	{"proceed-then-plaintext", `<proceed xmlns='` + tlsNS + `'/>`}, // the next read delivers plaintext instead of TLS
	{"failure", `<failure xmlns='` + tlsNS + `'/>`},
	{"wrong-namespace", `<proceed xmlns='urn:wrong'/>`},
	{"unknown-element", `<foo xmlns='` + tlsNS + `'/>`},
	{"chardata", `proceed`},
	{"eof", ``},
	{"features-again", `<stream:features><mechanisms xmlns='` + saslNS + `'><mechanism>PLAIN</mechanism></mechanisms></stream:features>`},
}

type clientCfg struct {
	explicitTLS bool
	tee         int // 0 none, 1 in, 2 out, 3 both
	others      bool
	scram       bool // with others: the SASL feature is configured with a SCRAM mechanism only (and the peer offers it)
	stateMethod bool // the connection handed to the session has a ConnectionState method (a wrapper type, an earlier session's Conn) without being a TLS connection
}

// stateConn is a connection that can report a TLS state although it is not
// layered on TLS (the zero state).
type stateConn struct{ io.ReadWriter }

func (stateConn) ConnectionState() tls.ConnectionState { return tls.ConnectionState{} }

type observation struct {
	preTLS      string // plaintext the library wrote before the first TLS record
	tlsStarted  bool
	handshaken  bool
	outcome     string // error | ready-secure | ready-insecure | other
	err         string
	sni         string
	helloSeen   bool
	app         []string // decrypted data the TLS endpoint received
	afterTLSRaw bool     // the library wrote plaintext after TLS records began
	state       xmpp.SessionState
	version     uint16
	panic       *nd.Panic
}

var idRe = regexp.MustCompile(`id=['"][^'"]*['"]`)

func normalise(s string) string { return idRe.ReplaceAllString(s, "id='*'") }

func header(domain string) string {
	return `<stream:stream xmlns='jabber:client' xmlns:stream='` + streamNS + `' version='1.0' id='s1' from='` + domain + `'>`
}

// firstHeaderTo, if set, is the to attribute of the peer's clear-text header.
var firstHeaderTo string

// mapOrder, if set, owns the map iteration order of the library during run.
var mapOrder *nd.Ctx

// sharedNegotiator, if set, is used instead of a fresh negotiator (histories of
// sessions negotiated with one Negotiator value).
var sharedNegotiator xmpp.Negotiator

// run performs one negotiation of an initiating session against the scripted peer.
func run(feature xmpp.StreamFeature, cfg clientCfg, origin jid.JID, list, answer int) observation {
	return runAt(feature, cfg, origin.Domain(), origin, list, answer)
}

// runAt is run with an explicit location (the entity the stream is opened to).
func runAt(feature xmpp.StreamFeature, cfg clientCfg, location, origin jid.JID, list, answer int) observation {
	var obs observation
	domain := location.String()
	stage := 0
	srv := tlspeer.NewServer(func(in string) string {
		switch {
		case strings.Contains(in, "<stream:stream"):
			stage++
			switch {
			case stage == 1 && cfg.others:
				return header(domain) + `<stream:features><mechanisms xmlns='` + saslNS + `'><mechanism>PLAIN</mechanism></mechanisms></stream:features>`
			case stage == 2 && cfg.others:
				return header(domain) + `<stream:features><bind xmlns='` + bindNS + `'/></stream:features>`
			}
			return header(domain) + `<stream:features/>`
		case strings.Contains(in, "<auth"):
			return `<success xmlns='` + saslNS + `'/>`
		case strings.Contains(in, "<iq"):
			id := ""
			if m := regexp.MustCompile(`id=['"]([^'"]*)['"]`).FindStringSubmatch(in); m != nil {
				id = m[1]
			}
			return `<iq type='result' id='` + id + `'><bind xmlns='` + bindNS + `'><jid>` + origin.Bare().String() + `/bound</jid></bind></iq>`
		}
		return ""
	})
	defer srv.Stop()
	phase := 0 // 0 header, 1 answer to starttls, 2 tls / after
	tlsMode := false
	var conn *sess.Reactive
	conn = sess.NewReactive(func(step int, w string) (string, error) {
		if tlsMode {
			out, alive := srv.Exchange([]byte(w))
			if len(out) == 0 && !alive {
				return "", nil
			}
			return string(out), nil
		}
		switch phase {
		case 0:
			phase = 1
			if hk := whileWaitingForHeader; hk != nil {
				// another session runs while this one waits for the peer's header
				whileWaitingForHeader = nil
				hk()
			}
			h := header(domain)
			if firstHeaderTo != "" {
				h = strings.Replace(h, ` from='`, ` to='`+firstHeaderTo+`' from='`, 1)
			}
			fl := firstLists[list].xml
			if cfg.scram {
				fl = strings.Replace(fl, "<mechanism>PLAIN</mechanism>", "<mechanism>SCRAM-SHA-256</mechanism>", 1)
			}
			return h + `<stream:features>` + fl + `</stream:features>`, nil
		case 1:
			if !strings.Contains(w, "<starttls") {
				// the library did not ask for TLS: whatever it does now, the peer just
				// keeps answering like a server that does not care
				phase = 3
				if strings.Contains(w, "<auth") {
					return `<success xmlns='` + saslNS + `'/>`, nil
				}
				return "", nil
			}
			phase = 2
			if h := whileWaitingForProceed; h != nil {
				// another session is negotiated while this one waits for the answer
				whileWaitingForProceed = nil
				h()
			}
			a := answers[answer]
			if strings.HasPrefix(a.name, "proceed") && a.name != "proceed-then-plaintext" {
				tlsMode = true
			}
			if a.name == "proceed-then-plaintext" {
				phase = 4
			}
			return a.xml, nil
		case 4:
			phase = 3
			return fakeFeatures, nil
		}
		if strings.Contains(w, "<stream:stream") {
			return header(domain) + `<stream:features/>`, nil
		}
		if strings.Contains(w, "<auth") {
			return `<success xmlns='` + saslNS + `'/>`, nil
		}
		return "", nil
	})
	features := []xmpp.StreamFeature{feature}
	if sharedFeatures != nil {
		features = sharedFeatures // the application's own slice, the same for every session
	} else if cfg.others && cfg.scram {
		features = append(features, xmpp.SASL("", "secret", sasl.ScramSha256), xmpp.BindResource())
	} else if cfg.others {
		features = append(features, xmpp.SASL("", "secret", sasl.Plain), xmpp.BindResource())
	}
	var teeIn, teeOut io.Writer
	if cfg.tee&1 != 0 {
		teeIn = &bytes.Buffer{}
	}
	if cfg.tee&2 != 0 {
		teeOut = &bytes.Buffer{}
	}
	var s *xmpp.Session
	var err error
	var rw io.ReadWriter = conn
	if WrapConn != nil {
		rw = WrapConn(conn)
	}
	if cfg.stateMethod {
		rw = stateConn{rw}
	}
	negotiate := func() {
		ctx := context.Background()
		if WrapCtx != nil {
			ctx = WrapCtx(ctx)
		}
		neg := sharedNegotiator
		if neg == nil {
			neg = xmpp.NewNegotiator(func(*xmpp.Session, *xmpp.StreamConfig) xmpp.StreamConfig {
				return xmpp.StreamConfig{Features: features, TeeIn: teeIn, TeeOut: teeOut}
			})
		}
		s, err = xmpp.NewSession(ctx, location, origin, rw, 0, neg)
	}
	obs.panic = nd.Catch(func() {
		if mapOrder != nil {
			// the order in which the library walks its feature tables is part of
			// the enumeration
			vs.WithChooser(mapOrder, negotiate)
		} else {
			negotiate()
		}
	})
	written := conn.Written()
	// split at the first TLS record (handshake record type 0x16, version 3.x)
	cut := strings.Index(written, "\x16\x03")
	if cut < 0 {
		obs.preTLS = written
	} else {
		obs.preTLS = written[:cut]
		obs.tlsStarted = true
	}
	obs.handshaken = srv.Handshaken
	obs.sni = srv.SNI
	obs.helloSeen = srv.HelloSeen
	obs.app = srv.AppLog
	if err != nil {
		obs.outcome = "error"
		obs.err = err.Error()
	} else if s != nil {
		obs.state = s.State()
		obs.version = s.ConnectionState().Version
		switch {
		case obs.state&xmpp.Ready != 0 && obs.state&xmpp.Secure != 0 && obs.version != 0 && srv.Handshaken:
			obs.outcome = "ready-secure"
		case obs.state&xmpp.Ready != 0:
			obs.outcome = "ready-insecure"
		default:
			obs.outcome = "other"
		}
	}
	return obs
}

// preTLSOK: only the stream header and the STARTTLS request may be sent in clear.
func preTLSOK(pre string) (bool, string) {
	roots, err := xu.Parse([]byte(pre + "</stream:stream>"))
	if err != nil {
		return false, "not parseable: " + err.Error()
	}
	if len(roots) != 1 {
		return false, "not a single stream"
	}
	ch := roots[0].Children
	switch {
	case len(ch) == 0:
		return true, ""
	case len(ch) == 1 && ch[0].Name.Local == "starttls" && ch[0].Name.Space == tlsNS && len(ch[0].Children) == 0:
		return true, ""
	}
	return false, fmt.Sprintf("%d elements after the header, first %s", len(ch), ch[0].String())
}

func scenarioBody(c *nd.Ctx) nd.Result {
	list := c.Choose(len(firstLists), "first-features")
	answer := c.Choose(len(answers), "answer")
	cfg := clientCfg{explicitTLS: c.Choose(2, "tls-config") == 1, tee: c.Choose(4, "tee")}
	switch c.Choose(3, "other-features") {
	case 1:
		cfg.others = true
	case 2:
		cfg.others, cfg.scram = true, true
	}
	cfg.stateMethod = c.Choose(2, "connection-has-a-ConnectionState-method") == 1
	origin := jid.MustParse("me@example.com/r")
	mk := func() xmpp.StreamFeature {
		if cfg.explicitTLS {
			return xmpp.StartTLS(&tls.Config{RootCAs: tlspeer.Roots(), ServerName: "example.com", MinVersion: tls.VersionTLS12})
		}
		return xmpp.StartTLS(nil)
	}
	desc := fmt.Sprintf("first-list=%s answer=%s explicit-tls-config=%v tee=%d other-features=%v scram-only=%v connection-with-ConnectionState-method=%v", firstLists[list].name, answers[answer].name, cfg.explicitTLS, cfg.tee, cfg.others, cfg.scram, cfg.stateMethod)
	c.Note("%s", desc)
	res := nd.Result{Outcome: "error", NonTrivial: desc}
	// what the peer's clear-text header says about us: nothing, our own address,
	// or somebody else's (the handshake must still name our own domain, or fail)
	hdrTo := []string{"", "me@example.com/r", "me@evil.example"}[c.Choose(3, "first-header-to")]
	firstHeaderTo = hdrTo
	defer func() { firstHeaderTo = "" }()
	desc += fmt.Sprintf(" first-header-to=%q", hdrTo)
	res.NonTrivial = desc
	mapOrder = c
	obs := run(mk(), cfg, origin, list, answer)
	mapOrder = nil
	fail := func(sig, f string, a ...any) nd.Result {
		res.Violation = &nd.Violation{Sig: sig, Msg: desc + fmt.Sprintf(" [outcome=%s err=%q state=%v tls-version=%x handshaken=%v pre-TLS bytes=%q]: ", obs.outcome, obs.err, obs.state, obs.version, obs.handshaken, obs.preTLS) + fmt.Sprintf(f, a...)}
		return res
	}
	if obs.panic != nil {
		return fail("starttls:"+obs.panic.Sig(), "panic %s\n%s", obs.panic.Value, obs.panic.Stack)
	}
	res.Outcome = obs.outcome
	if ok, why := preTLSOK(obs.preTLS); !ok {
		sig := "cleartext:sent-more-than-header-and-starttls"
		if cfg.tee != 0 {
			sig += ":with-tee"
		}
		return fail(sig, "%s", why)
	}
	switch obs.outcome {
	case "ready-insecure", "other":
		sig := "cleartext:ready-without-tls"
		if cfg.tee != 0 {
			sig += ":with-tee"
		}
		return fail(sig, "the session was established without a TLS layer")
	}
	// data received in clear before TLS is never interpreted as part of the
	// protected stream: the fake plaintext features advertise PLAIN; if the
	// client then authenticates although the protected stream did not offer it, it used them
	if !cfg.others {
		for _, a := range obs.app {
			if strings.Contains(a, "<auth") {
				return fail("cleartext:plaintext-interpreted-as-protected", "the client sent %q", a)
			}
		}
	}
	if obs.helloSeen && !cfg.explicitTLS && obs.sni != "example.com" {
		return fail("sni:wrong-server-name", "the handshake named %q, the session's own domain is example.com", obs.sni)
	}
	// the tee changes nothing
	if cfg.tee != 0 {
		base := run(mk(), clientCfg{explicitTLS: cfg.explicitTLS, others: cfg.others, scram: cfg.scram, stateMethod: cfg.stateMethod}, origin, list, answer)
		if base.panic == nil {
			if base.preTLS != obs.preTLS {
				return fail("tee:changes-cleartext-bytes", "without tee the library wrote %q before TLS", base.preTLS)
			}
			if base.outcome != obs.outcome || base.tlsStarted != obs.tlsStarted {
				return fail("tee:changes-outcome", "without tee: outcome=%s tls-started=%v err=%q", base.outcome, base.tlsStarted, base.err)
			}
			var a, b []string
			for _, x := range base.app {
				a = append(a, normalise(x))
			}
			for _, x := range obs.app {
				b = append(b, normalise(x))
			}
			if strings.Join(a, "") != strings.Join(b, "") {
				return fail("tee:changes-protected-bytes", "without tee the TLS endpoint received %q, with tee %q", a, b)
			}
		}
	}
	return res
}

// history: one StartTLS(nil) value reused for sessions of different domains.
// whileWaitingForProceed, if set, runs once when a session's peer has received
// the STARTTLS request and has not answered yet.
var whileWaitingForProceed func()

func historyBody(c *nd.Ctx) nd.Result {
	n := 2 + c.Choose(2, "sessions")
	overlap := c.Choose(2, "second-session-negotiated-while-the-first-waits-for-proceed") == 1
	domains := []string{"example.com", "example.org", "other.example"}
	order := c.Choose(3, "first-domain")
	list := c.Choose(4, "first-features") // starttls required / optional / empty list / mechanisms only
	otherLocation := c.Choose(2, "location-differs-from-own-domain") == 1
	f := xmpp.StartTLS(nil)
	reuseNegotiator := c.Choose(2, "one-negotiator-value-for-all-sessions") == 1
	if reuseNegotiator {
		sharedNegotiator = xmpp.NewNegotiator(func(*xmpp.Session, *xmpp.StreamConfig) xmpp.StreamConfig {
			return xmpp.StreamConfig{Features: []xmpp.StreamFeature{f}}
		})
		defer func() { sharedNegotiator = nil }()
	}
	desc := fmt.Sprintf("%d sessions negotiated with one StartTLS(nil) value (one Negotiator value: %v), starting with domain %s, first list %s", n, reuseNegotiator, domains[order], firstLists[list].name)
	c.Note("%s", desc)
	res := nd.Result{Outcome: "history", NonTrivial: desc}
	if overlap {
		desc += "; sessions overlap: each later one is negotiated while the one before waits for the answer to its STARTTLS request"
		res.NonTrivial = desc
	}
	obsOf := make([]observation, n)
	var runSession func(i int)
	runSession = func(i int) {
		d := domains[(order+i)%3]
		location := jid.MustParse(d)
		if otherLocation {
			// the stream is opened to a host that is not the domain of our address
			location = jid.MustParse("xmpp-host." + d)
		}
		if overlap && i+1 < n {
			whileWaitingForProceed = func() { runSession(i + 1) }
		}
		obsOf[i] = runAt(f, clientCfg{}, location, jid.MustParse("me@"+d+"/r"), list, 0)
		whileWaitingForProceed = nil
	}
	if overlap {
		runSession(0)
	}
	for i := 0; i < n; i++ {
		d := domains[(order+i)%3]
		if !overlap {
			runSession(i)
		}
		obs := obsOf[i]
		if obs.panic != nil {
			res.Violation = &nd.Violation{Sig: "starttls:" + obs.panic.Sig(), Msg: desc + ": panic " + obs.panic.Value}
			return res
		}
		if !obs.tlsStarted {
			res.Violation = &nd.Violation{Sig: "history:no-tls-attempt", Msg: fmt.Sprintf("%s: session %d (%s) did not start TLS: %+v", desc, i, d, obs.err)}
			return res
		}
		if obs.sni != d {
			res.Violation = &nd.Violation{Sig: "sni:wrong-server-name:reused-feature", Msg: fmt.Sprintf("%s: session %d has domain %s but the handshake named %q", desc, i, d, obs.sni)}
			return res
		}
	}
	return res
}

// whileWaitingForHeader, if set, runs once when a session has sent its stream
// header and its peer has not answered yet.
var whileWaitingForHeader func()

// sharedConfigBody: one Negotiator value whose configuration function decides
// per session (by its address) which features it gets, used by two sessions
// that overlap in time: the second one - not configured for STARTTLS - is
// negotiated while the first waits for its peer's header or for the answer to
// its STARTTLS request. What a session is configured with is its own.
func sharedConfigBody(c *nd.Ctx) nd.Result {
	list := c.Choose(len(firstLists), "first-features")
	at := c.Choose(2, "other-session-runs-while-waiting-for") // 0 the peer's header, 1 the answer to STARTTLS
	otherList := c.Choose(len(firstLists), "other-session-first-features")
	f := xmpp.StartTLS(nil)
	sharedNegotiator = xmpp.NewNegotiator(func(s *xmpp.Session, _ *xmpp.StreamConfig) xmpp.StreamConfig {
		if s == nil || s.LocalAddr().Domain().String() == "plain.example" {
			return xmpp.StreamConfig{}
		}
		return xmpp.StreamConfig{Features: []xmpp.StreamFeature{f}}
	})
	defer func() { sharedNegotiator = nil; whileWaitingForHeader = nil; whileWaitingForProceed = nil }()
	desc := fmt.Sprintf("one Negotiator value configuring sessions by address: a session with STARTTLS (first list %s) and, while it waits for %s, a session without (first list %s)", firstLists[list].name, []string{"its peer's header", "the answer to its STARTTLS request"}[at], firstLists[otherList].name)
	c.Note("%s", desc)
	res := nd.Result{Outcome: "shared-config", NonTrivial: desc}
	var other observation
	hook := func() {
		other = runAt(f, clientCfg{}, jid.MustParse("plain.example"), jid.MustParse("me@plain.example/r"), otherList, 0)
	}
	if at == 0 {
		whileWaitingForHeader = hook
	} else {
		whileWaitingForProceed = hook
	}
	obs := runAt(f, clientCfg{}, jid.MustParse("example.com"), jid.MustParse("me@example.com/r"), list, 0)
	for _, o := range []observation{obs, other} {
		if o.panic != nil {
			res.Violation = &nd.Violation{Sig: "starttls:" + o.panic.Sig(), Msg: desc + ": panic " + o.panic.Value}
			return res
		}
	}
	if !obs.tlsStarted {
		res.Violation = &nd.Violation{Sig: "shared-config:no-tls-attempt", Msg: fmt.Sprintf("%s: the session configured with STARTTLS did not start TLS (outcome %s, state %v, err %v)", desc, obs.outcome, obs.state, obs.err)}
		return res
	}
	if obs.sni != "example.com" {
		res.Violation = &nd.Violation{Sig: "sni:wrong-server-name:shared-config", Msg: fmt.Sprintf("%s: the handshake named %q", desc, obs.sni)}
	}
	return res
}

// sharedFeatures, if set, is the one features slice (same backing array) that
// every session's configuration function returns.
var sharedFeatures []xmpp.StreamFeature

// sharedSliceBody: an application keeps one slice [StartTLS, SASL, bind] and
// hands it to every session it opens (a reconnecting client). A first session
// runs to the end (TLS, authentication, binding) or stops at some answer; the
// next session made from the very same slice must behave exactly like a
// session made from a fresh slice with the same features: what the library
// does with the slice during one negotiation is not the next session's business.
func sharedSliceBody(c *nd.Ctx) nd.Result {
	firstList := c.Choose(len(firstLists), "first-session-features")
	firstAnswer := c.Choose(len(answers), "first-session-answer")
	list := c.Choose(len(firstLists), "second-session-features")
	answer := c.Choose(len(answers), "second-session-answer")
	scram := c.Choose(2, "scram-only") == 1
	mkTLS := func() xmpp.StreamFeature {
		return xmpp.StartTLS(&tls.Config{RootCAs: tlspeer.Roots(), ServerName: "example.com", MinVersion: tls.VersionTLS12})
	}
	mkSlice := func() []xmpp.StreamFeature {
		m := sasl.Plain
		if scram {
			m = sasl.ScramSha256
		}
		return []xmpp.StreamFeature{mkTLS(), xmpp.SASL("", "secret", m), xmpp.BindResource()}
	}
	cfg := clientCfg{explicitTLS: true, others: true, scram: scram}
	origin := jid.MustParse("me@example.com/r")
	desc := fmt.Sprintf("one features slice [StartTLS, SASL, bind] for two sessions: first session list=%s answer=%s, second session list=%s answer=%s, scram-only=%v", firstLists[firstList].name, answers[firstAnswer].name, firstLists[list].name, answers[answer].name, scram)
	c.Note("%s", desc)
	res := nd.Result{Outcome: "error", NonTrivial: desc}
	defer func() { sharedFeatures = nil }()
	sharedFeatures = mkSlice()
	first := run(sharedFeatures[0], cfg, origin, firstList, firstAnswer)
	obs := run(sharedFeatures[0], cfg, origin, list, answer)
	sharedFeatures = mkSlice()
	base := run(sharedFeatures[0], cfg, origin, list, answer)
	fail := func(sig, f string, a ...any) nd.Result {
		res.Violation = &nd.Violation{Sig: sig, Msg: desc + fmt.Sprintf(" [first session: outcome=%s; second: outcome=%s err=%q state=%v handshaken=%v pre-TLS bytes=%q]: ", first.outcome, obs.outcome, obs.err, obs.state, obs.handshaken, obs.preTLS) + fmt.Sprintf(f, a...)}
		return res
	}
	for _, o := range []observation{first, obs, base} {
		if o.panic != nil {
			return fail("starttls:"+o.panic.Sig(), "panic %s\n%s", o.panic.Value, o.panic.Stack)
		}
	}
	res.Outcome = obs.outcome
	if ok, why := preTLSOK(obs.preTLS); !ok {
		return fail("cleartext:sent-more-than-header-and-starttls:shared-slice", "%s", why)
	}
	if obs.outcome == "ready-insecure" || obs.outcome == "other" {
		return fail("cleartext:ready-without-tls:shared-slice", "the session was established without a TLS layer")
	}
	if obs.outcome != base.outcome || obs.tlsStarted != base.tlsStarted || normalise(obs.preTLS) != normalise(base.preTLS) {
		return fail("shared-slice:later-session-differs", "a session made from a fresh slice: outcome=%s tls-started=%v err=%q pre-TLS bytes=%q", base.outcome, base.tlsStarted, base.err, base.preTLS)
	}
	var a, b []string
	for _, x := range base.app {
		a = append(a, normalise(x))
	}
	for _, x := range obs.app {
		b = append(b, normalise(x))
	}
	if strings.Join(a, "") != strings.Join(b, "") {
		return fail("shared-slice:later-session-differs:protected-bytes", "with a fresh slice the TLS endpoint received %q, with the shared one %q", a, b)
	}
	return res
}

var _ = stanza.NSClient

func init() {
	drv.Register(&drv.Prop{
		ID:    "C02",
		Level: "model_checking",
		Rule: "initiating session configured with StartTLS (+ optionally SASL and bind) against a scripted peer that can switch to a real crypto/tls server run in lock-step: 7 first features lists (STARTTLS required/optional/absent/among others, empty, unknown only) x 10 answers to the STARTTLS request (proceed, proceed with pipelined fake plaintext features or stanza, proceed then plaintext, failure, wrong namespace, unknown element, text, EOF, features again) x explicit/default TLS config x tee none/in/out/both x other features; plus histories of 2-3 sessions of different domains sharing one StartTLS(nil) value. " +
			"Oracle: bytes written before the first TLS record are the stream header and at most the STARTTLS request; outcome is an error or a ready session with the Secure bit, a TLS connection state and a completed handshake; plaintext received before TLS is never acted upon; SNI = the session's own domain; with tee the cleartext bytes, the outcome and the protected bytes equal the run without tee. Non-trivial = every distinct configuration.",
		Assumptions: []string{"the TLS peer is crypto/tls itself with an in-process certificate; with the default client config the handshake fails on certificate verification after the ClientHello, which is enough to observe the server name", "TLS records are recognised by their header bytes in the raw transcript"},
		Parts: func(tier string) []drv.Part {
			b := 4 * time.Minute
			return []drv.Part{
				{Name: "scenarios", Body: scenarioBody, CutDepth: 3, Budget: b},
				{Name: "history", Body: historyBody, CutDepth: 2, Budget: b, Workers: 4},
				{Name: "shared-config", Desc: "one Negotiator value that configures sessions by their address, two overlapping sessions", Body: sharedConfigBody, CutDepth: 2, Budget: b, Workers: 4},
				{Name: "shared-slice", Desc: "one features slice [StartTLS, SASL, bind] handed to two consecutive sessions; the second is compared with a session made from a fresh slice", Body: sharedSliceBody, CutDepth: 2, Budget: b},
			}
		},
	})
}

// WrapConn, if set, wraps the scripted connection (fault injection by C04).
var WrapConn func(*sess.Reactive) io.ReadWriter

// WrapCtx, if set, derives the context the session is established with
// (cancellation injection by C04).
var WrapCtx func(context.Context) context.Context

// TLSHandshake runs the full STARTTLS + SASL + bind handshake with an explicit
// TLS configuration against the lock-step TLS peer and reports the outcome.
func TLSHandshake() (ready bool, errText string, p *nd.Panic) {
	f := xmpp.StartTLS(&tls.Config{RootCAs: tlspeer.Roots(), ServerName: "example.com", MinVersion: tls.VersionTLS12})
	obs := run(f, clientCfg{explicitTLS: true, others: true}, jid.MustParse("me@example.com/r"), 0, 0)
	return obs.outcome == "ready-secure" || obs.outcome == "ready-insecure" || (obs.state&xmpp.Ready != 0), obs.err, obs.panic
}
