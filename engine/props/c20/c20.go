// Package c20: the entity-capabilities hash is canonical.
package c20

import (
	"crypto/sha1"
	"crypto/sha256"
	"crypto/sha512"
	"encoding/base64"
	"encoding/xml"
	"fmt"
	"hash"
	"sort"
	"strings"
	"time"

	xcrypto "mellium.im/xmpp/crypto"
	"mellium.im/xmpp/disco"
	"mellium.im/xmpp/disco/info"
	"mellium.im/xmpp/form"

	"verif/drv"
	"verif/nd"
)

type ident struct{ cat, typ, lang, name string }
type fieldSpec struct {
	name string
	vals []string
	kind int // 0 text-single/list-multi by count, 1 list-multi, 2 text-multi, 3 hidden
}
type formSpec struct {
	hasType  bool
	formType string
	fields   []fieldSpec
}

// refHash is a literal transcription of XEP-0115 §5.1.
func refHash(ids []ident, feats []string, forms []formSpec, h hash.Hash) string {
	var s strings.Builder
	ids = append([]ident(nil), ids...)
	sort.Slice(ids, func(a, b int) bool {
		if ids[a].cat != ids[b].cat {
			return ids[a].cat < ids[b].cat
		}
		if ids[a].typ != ids[b].typ {
			return ids[a].typ < ids[b].typ
		}
		return ids[a].lang < ids[b].lang
	})
	for _, i := range ids {
		s.WriteString(i.cat + "/" + i.typ + "/" + i.lang + "/" + i.name + "<")
	}
	feats = append([]string(nil), feats...)
	sort.Strings(feats)
	for _, f := range feats {
		s.WriteString(f + "<")
	}
	// sorted by FORM_TYPE (the reference is only used when they are all distinct)
	forms = append([]formSpec(nil), forms...)
	sort.Slice(forms, func(a, b int) bool { return forms[a].formType < forms[b].formType })
	for _, f := range forms {
		s.WriteString(refForm(f))
	}
	h.Reset()
	h.Write([]byte(s.String()))
	return base64.StdEncoding.EncodeToString(h.Sum(nil))
}

func refForm(f formSpec) string {
	var s strings.Builder
	s.WriteString(f.formType + "<")
	fields := append([]fieldSpec(nil), f.fields...)
	sort.Slice(fields, func(a, b int) bool { return fields[a].name < fields[b].name })
	for _, fl := range fields {
		s.WriteString(fl.name + "<")
		vals := append([]string(nil), fl.vals...)
		sort.Strings(vals)
		for _, v := range vals {
			s.WriteString(v + "<")
		}
	}
	return s.String()
}

func buildForm(f formSpec, typeFirst bool) form.Data {
	var opts []form.Field
	ft := form.Hidden("FORM_TYPE", form.Value(f.formType))
	if f.hasType && typeFirst {
		opts = append(opts, ft)
	}
	for _, fl := range f.fields {
		var o []form.Option
		for _, v := range fl.vals {
			o = append(o, form.Value(v))
		}
		switch fl.kind {
		case 1:
			opts = append(opts, form.ListMulti(fl.name, o...))
		case 2:
			opts = append(opts, form.TextMulti(fl.name, o...))
		case 3:
			opts = append(opts, form.Hidden(fl.name, o...))
		default:
			opts = append(opts, form.Text(fl.name, o...))
		}
	}
	if f.hasType && !typeFirst {
		opts = append(opts, ft)
	}
	return *form.New(opts...)
}

func buildInfo(ids []ident, feats []string, forms []formSpec, typeFirst bool) disco.Info {
	var in disco.Info
	for _, i := range ids {
		in.Identity = append(in.Identity, info.Identity{Category: i.cat, Type: i.typ, Lang: i.lang, Name: i.name})
	}
	for _, f := range feats {
		in.Features = append(in.Features, info.Feature{Var: f})
	}
	for _, f := range forms {
		in.Form = append(in.Form, buildForm(f, typeFirst))
	}
	return in
}

type hf struct {
	name string
	mk   func() hash.Hash
}

var hashes = []hf{{"sha-1", sha1.New}, {"sha-256", sha256.New}, {"sha-512", sha512.New}, {"sha-224", sha256.New224}}

// libHashes: the hash functions as the library hands them out (crypto.Hash.New)
// next to the standard library's constructor of the algorithm they name.
var libHashes = []struct {
	h   xcrypto.Hash
	ref func() hash.Hash
}{{xcrypto.SHA1, sha1.New}, {xcrypto.SHA224, sha256.New224}, {xcrypto.SHA256, sha256.New}, {xcrypto.SHA384, sha512.New384}, {xcrypto.SHA512, sha512.New}}

var identPool = []ident{
	{"client", "pc", "", "Exodus 0.9.1"},
	{"client", "pc", "el", "Ψ 0.11"},
	{"client", "pc", "en", "Psi 0.11"},
	{"client", "pc", "en-US", "Psi 0.11"}, // language tags are hashed as they are written
	{"client", "web", "", "w"},
	{"client", "web-embedded", "", "a<b 100%v"},
	{"client-x", "pc", "", ""},
	{"account", "pc", "en", "Z"},
	{"client", "phone", "", long130},
}
// strings as long as, and longer than, the block of the hash functions (64 and 128 bytes)
var long64 = "urn:long:" + strings.Repeat("f", 55)
var long130 = "urn:long:" + strings.Repeat("g", 121)

var featPool = []string{"http://jabber.org/protocol/caps", "http://jabber.org/protocol/disco#info", "http://jabber.org/protocol/disco#items", "http://jabber.org/protocol/muc", "a", "a<b%20c", "é", "B", long64, long130} // '<' must be escaped, '%' must not be interpreted (percent-encoded URIs)
var fieldNames = []string{"os", "ip%5Fversion", "Os", ""} // the last one: a field without a var (eg. type fixed): its values still belong to the form
var valuePool = []string{"ipv6", "ipv4", "a<b%s"}
var valuePoolEmpty = []string{"", "ipv4", "a<b%d"} // the empty value still contributes its separator (XEP-0115 5.1 step 7.3)
var typePool = []string{"urn:xmpp:dataforms:softwareinfo", "urn:a", "urn:a:b%25", "urn:a#meta", " urn:a\n x "} // one FORM_TYPE a prefix of two others, continued by a byte above and by one below the separator

// choose an ordered selection without replacement of at most max items out of n.
func selection(c *nd.Ctx, n, max int, label string) []int {
	k := c.Choose(max+1, label+"-count")
	used := make([]bool, n)
	var out []int
	for i := 0; i < k; i++ {
		x := c.Choose(n-i, label)
		// x-th unused
		for j := 0; j < n; j++ {
			if used[j] {
				continue
			}
			if x == 0 {
				used[j] = true
				out = append(out, j)
				break
			}
			x--
		}
	}
	return out
}

func chooseForm(c *nd.Ctx, maxFields, maxVals int, valuePool []string) formSpec {
	var f formSpec
	t := c.Choose(len(typePool)+1, "form-type")
	if t > 0 {
		f.hasType = true
		f.formType = typePool[t-1]
	}
	for _, fi := range selection(c, len(fieldNames), maxFields, "field") {
		fs := fieldSpec{name: fieldNames[fi], kind: c.Choose(3, "field-kind")}
		for _, vi := range selection(c, len(valuePool), maxVals, "value") {
			fs.vals = append(fs.vals, valuePool[vi])
		}
		f.fields = append(f.fields, fs)
	}
	return f
}

func describe(ids []ident, feats []string, forms []formSpec) string {
	return fmt.Sprintf("identities=%v features=%q forms=%+v", ids, feats, forms)
}

// checkInfo computes the hash through both entry points with every hash
// function and compares with the reference.
func checkInfo(ids []ident, feats []string, forms []formSpec, typeFirst bool) *nd.Violation {
	comparable := true // reference defined: every form has a FORM_TYPE, all distinct
	seen := map[string]bool{}
	for _, f := range forms {
		if !f.hasType || seen[f.formType] {
			comparable = false
		}
		seen[f.formType] = true
	}
	for _, h := range hashes {
		var got, got2 string
		if p := nd.Catch(func() {
			got = buildInfo(ids, feats, forms, typeFirst).Hash(h.mk())
			got2 = string(buildInfo(ids, feats, forms, typeFirst).AppendHash(nil, h.mk()))
		}); p != nil {
			return &nd.Violation{Sig: "hash:" + p.Sig(), Msg: fmt.Sprintf("%s: panic %s", describe(ids, feats, forms), p.Value)}
		}
		if got != got2 {
			return &nd.Violation{Sig: "hash:Hash-differs-from-AppendHash", Msg: fmt.Sprintf("%s %s: Hash=%s AppendHash(nil)=%s", describe(ids, feats, forms), h.name, got, got2)}
		}
		// empty destinations other than nil: spare capacity (a reused buffer).
		// (The statement speaks of empty destinations only; with a non-empty
		// one the library encodes prefix and digest together - an observation,
		// not judged here.)
		for _, dst := range [][]byte{make([]byte, 0, 64), make([]byte, 0, 7), make([]byte, 0, 200)[:0:100]} {
			pre := string(dst)
			var got3 string
			if p := nd.Catch(func() { got3 = string(buildInfo(ids, feats, forms, typeFirst).AppendHash(dst, h.mk())) }); p != nil {
				return &nd.Violation{Sig: "hash:append:" + p.Sig(), Msg: fmt.Sprintf("%s: panic %s", describe(ids, feats, forms), p.Value)}
			}
			if got3 != pre+got {
				return &nd.Violation{Sig: "hash:AppendHash-depends-on-destination", Msg: fmt.Sprintf("%s %s: Hash=%s, AppendHash(dst with len %d cap %d)=%s", describe(ids, feats, forms), h.name, got, len(dst), cap(dst), got3)}
			}
		}
		if comparable {
			if want := refHash(ids, feats, forms, h.mk()); got != want {
				return &nd.Violation{Sig: "hash:differs-from-xep-0115:" + part(ids, feats, forms), Msg: fmt.Sprintf("%s %s: got %s, XEP-0115 5.1 construction %s", describe(ids, feats, forms), h.name, got, want)}
			}
		} else {
			// order independence: same multiset in canonical order
			ci, cf, cfm := canon(ids, feats, forms)
			var want string
			if p := nd.Catch(func() { want = buildInfo(ci, cf, cfm, true).Hash(h.mk()) }); p != nil {
				return &nd.Violation{Sig: "hash:" + p.Sig(), Msg: fmt.Sprintf("%s: panic %s", describe(ci, cf, cfm), p.Value)}
			}
			if got != want {
				return &nd.Violation{Sig: "hash:order-dependent:forms", Msg: fmt.Sprintf("%s %s: got %s, same sets in another order %s give %s", describe(ids, feats, forms), h.name, got, describe(ci, cf, cfm), want)}
			}
		}
	}
	return nil
}

func part(ids []ident, feats []string, forms []formSpec) string {
	if len(forms) > 0 {
		return "forms"
	}
	if len(ids) > 1 {
		return "identities"
	}
	return "features"
}

func canon(ids []ident, feats []string, forms []formSpec) ([]ident, []string, []formSpec) {
	ids = append([]ident(nil), ids...)
	sort.Slice(ids, func(a, b int) bool { return fmt.Sprint(ids[a]) < fmt.Sprint(ids[b]) })
	feats = append([]string(nil), feats...)
	sort.Strings(feats)
	var out []formSpec
	for _, f := range forms {
		g := formSpec{hasType: f.hasType, formType: f.formType}
		for _, fl := range f.fields {
			vals := append([]string(nil), fl.vals...)
			sort.Strings(vals)
			g.fields = append(g.fields, fieldSpec{name: fl.name, vals: vals, kind: fl.kind})
		}
		sort.Slice(g.fields, func(a, b int) bool { return g.fields[a].name < g.fields[b].name })
		out = append(out, g)
	}
	sort.Slice(out, func(a, b int) bool { return fmt.Sprintf("%+v", out[a]) < fmt.Sprintf("%+v", out[b]) })
	return ids, feats, out
}

func idFeatBody(maxN int) nd.Body {
	return func(c *nd.Ctx) nd.Result {
		var ids []ident
		for _, i := range selection(c, len(identPool), maxN, "identity") {
			ids = append(ids, identPool[i])
		}
		var feats []string
		for _, i := range selection(c, len(featPool), maxN, "feature") {
			feats = append(feats, featPool[i])
		}
		c.Note("%s", describe(ids, feats, nil))
		res := nd.Result{Outcome: "ok"}
		if len(ids) > 1 || len(feats) > 1 {
			res.NonTrivial = describe(ids, feats, nil)
			res.Outcome = "ok-permuted"
		}
		res.Violation = checkInfo(ids, feats, nil, true)
		return res
	}
}

func formsBody(maxForms, maxFields, maxVals int, valuePool []string) nd.Body {
	return func(c *nd.Ctx) nd.Result {
		ids := []ident{identPool[c.Choose(2, "identity")]}
		feats := []string{featPool[0], featPool[1]}
		n := c.Choose(maxForms+1, "forms")
		var forms []formSpec
		for i := 0; i < n; i++ {
			if n > 1 { // two forms: one field each (the cross product of two full forms is ~10^8)
				forms = append(forms, chooseForm(c, 1, maxVals, valuePool))
			} else {
				forms = append(forms, chooseForm(c, maxFields, maxVals, valuePool))
			}
		}
		typeFirst := c.Choose(2, "FORM_TYPE-position") == 0
		c.Note("%s FORM_TYPE first=%v", describe(ids, feats, forms), typeFirst)
		res := nd.Result{Outcome: fmt.Sprintf("forms=%d", n)}
		if n > 0 {
			res.NonTrivial = describe(ids, feats, forms)
		}
		res.Violation = checkInfo(ids, feats, forms, typeFirst)
		return res
	}
}

// decoded: info values unmarshalled from a peer's reply, with empty and
// malformed forms.
var xmlForms = []string{
	`<x xmlns='jabber:x:data'/>`,
	`<x xmlns='jabber:x:data' type='result'></x>`,
	`<x xmlns='jabber:x:data' type='result'><field var='FORM_TYPE' type='hidden'><value>urn:a</value></field></x>`,
	`<x xmlns='jabber:x:data' type='result'><field var='FORM_TYPE' type='hidden'/></x>`,
	`<x xmlns='jabber:x:data' type='result'><field var='FORM_TYPE'><value>urn:b</value></field><field var='os'><value>Mac</value></field></x>`,
	`<x xmlns='jabber:x:data' type='result'><field var='os'><value>Mac</value></field></x>`,
	`<x xmlns='jabber:x:data' type='result'><field/></x>`,
	`<x xmlns='jabber:x:data' type='result'><field var='FORM_TYPE' type='hidden'><value>urn:c</value><value>urn:d</value></field><field var='ip_version' type='list-multi'><value>ipv6</value><value>ipv4</value></field><field var='ip_version'><value>x</value></field></x>`,
	`<x xmlns='jabber:x:data' type='result'><title>t</title><instructions>i</instructions><field type='fixed'><value>f</value></field></x>`,
	`<x xmlns='jabber:x:data' type='result'><field var='FORM_TYPE' type='hidden'><value>urn:xmpp:dataforms:softwareinfo</value></field><field var='software'><value>Psi</value></field><field var='os'><value>Mac</value></field></x>`,
}

func decodedBody(c *nd.Ctx) nd.Result {
	sel := selection(c, len(xmlForms), 2, "xml-form")
	withIdent := c.Choose(2, "with-identity")
	build := func(order []int) string {
		var b strings.Builder
		b.WriteString(`<query xmlns='http://jabber.org/protocol/disco#info'>`)
		if withIdent == 1 {
			b.WriteString(`<identity category='client' type='pc' name='Ψ'/><feature var='b'/><feature var='a'/>`)
		}
		for _, i := range order {
			b.WriteString(xmlForms[i])
		}
		b.WriteString(`</query>`)
		return b.String()
	}
	doc := build(sel)
	c.Note("decoded from %s", doc)
	res := nd.Result{Outcome: "decoded", NonTrivial: doc}
	hashOf := func(doc string) (string, error, *nd.Violation) {
		var in disco.Info
		var s string
		var err error
		if p := nd.Catch(func() {
			err = xml.Unmarshal([]byte(doc), &in)
			if err == nil {
				s = in.Hash(sha1.New())
			}
		}); p != nil {
			return "", nil, &nd.Violation{Sig: "hash-decoded:" + p.Sig(), Msg: fmt.Sprintf("info decoded from %s: panic %s", doc, p.Value)}
		}
		return s, err, nil
	}
	h1, err, v := hashOf(doc)
	if v != nil {
		res.Violation = v
		return res
	}
	if err != nil {
		res.Outcome = "decode-error"
		return res
	}
	if len(sel) == 2 {
		h2, err2, v := hashOf(build([]int{sel[1], sel[0]}))
		if v != nil {
			res.Violation = v
			return res
		}
		if err2 == nil && h1 != h2 {
			res.Violation = &nd.Violation{Sig: "hash:order-dependent:forms", Msg: fmt.Sprintf("info decoded from %s hashes to %s; with the two forms swapped to %s", doc, h1, h2)}
		}
	}
	return res
}

// anchors: the two worked examples of XEP-0115 (§5.2, §5.3) pin the reference itself.
// the second worked example of XEP-0115 (5.3) as a peer sends it; %H% is the
// type attribute of the FORM_TYPE field, %T% that of the other fields (field
// types are optional in forms of type result)
const xepExample2 = `<query xmlns='http://jabber.org/protocol/disco#info'><identity xml:lang='en' category='client' name='Psi 0.11' type='pc'/><identity xml:lang='el' category='client' name='Ψ 0.11' type='pc'/><feature var='http://jabber.org/protocol/caps'/><feature var='http://jabber.org/protocol/disco#info'/><feature var='http://jabber.org/protocol/disco#items'/><feature var='http://jabber.org/protocol/muc'/><x xmlns='jabber:x:data' type='result'><field var='FORM_TYPE'%H%><value>urn:xmpp:dataforms:softwareinfo</value></field><field var='ip_version'%T%><value>ipv4</value><value>ipv6</value></field><field var='os'><value>Mac</value></field><field var='os_version'><value>10.5.1</value></field><field var='software'><value>Psi</value></field><field var='software_version'><value>0.11</value></field></x></query>`

func decodedAnchor(c *nd.Ctx, shape int) nd.Result {
	doc := xepExample2
	switch shape {
	case 0:
		doc = strings.Replace(strings.Replace(doc, "%H%", " type='hidden'", 1), "%T%", " type='text-multi'", 1)
	case 1: // no field types at all
		doc = strings.Replace(strings.Replace(doc, "%H%", "", 1), "%T%", "", 1)
	case 2: // FORM_TYPE typed as an ordinary field
		doc = strings.Replace(strings.Replace(doc, "%H%", " type='text-single'", 1), "%T%", " type='list-multi'", 1)
	}
	c.Note("XEP-0115 example 2 decoded from %s", doc)
	res := nd.Result{Outcome: "anchor-decoded", NonTrivial: fmt.Sprintf("decoded/%d", shape)}
	const want = "q07IKJEyjvHSyhy//CH0CxmKi8w="
	var got string
	var err error
	if p := nd.Catch(func() {
		var in disco.Info
		if err = xml.Unmarshal([]byte(doc), &in); err == nil {
			got = in.Hash(sha1.New())
		}
	}); p != nil {
		res.Violation = &nd.Violation{Sig: "hash-decoded:" + p.Sig(), Msg: "XEP example decoded: panic " + p.Value}
		return res
	}
	if err != nil || got != want {
		res.Violation = &nd.Violation{Sig: "hash:differs-from-xep-0115:worked-example-decoded", Msg: fmt.Sprintf("XEP-0115 example 2 decoded from %s: got %s (%v) want %s", doc, got, err, want)}
	}
	return res
}

func anchorsBody(c *nd.Ctx) nd.Result {
	which := c.Choose(5, "example")
	if which >= 2 {
		return decodedAnchor(c, which-2)
	}
	perm := c.Choose(6, "rotation")
	var ids []ident
	var feats []string
	var forms []formSpec
	want := "QgayPKawpkPSDYmwT/WM94uAlu0="
	feats = []string{"http://jabber.org/protocol/caps", "http://jabber.org/protocol/disco#info", "http://jabber.org/protocol/disco#items", "http://jabber.org/protocol/muc"}
	if which == 0 {
		ids = []ident{{"client", "pc", "", "Exodus 0.9.1"}}
	} else {
		want = "q07IKJEyjvHSyhy//CH0CxmKi8w="
		ids = []ident{{"client", "pc", "en", "Psi 0.11"}, {"client", "pc", "el", "Ψ 0.11"}}
		forms = []formSpec{{hasType: true, formType: "urn:xmpp:dataforms:softwareinfo", fields: []fieldSpec{
			{name: "ip_version", vals: []string{"ipv4", "ipv6"}, kind: 1},
			{name: "os", vals: []string{"Mac"}},
			{name: "os_version", vals: []string{"10.5.1"}},
			{name: "software", vals: []string{"Psi"}},
			{name: "software_version", vals: []string{"0.11"}},
		}}}
	}
	// rotate features / fields / values
	for i := 0; i < perm; i++ {
		feats = append(feats[1:], feats[0])
		if len(forms) > 0 {
			f := forms[0].fields
			forms[0].fields = append(f[1:], f[0])
			v := forms[0].fields
			for j := range v {
				if len(v[j].vals) > 1 {
					v[j].vals = []string{v[j].vals[1], v[j].vals[0]}
				}
			}
		}
		if len(ids) > 1 {
			ids = []ident{ids[1], ids[0]}
		}
	}
	c.Note("XEP-0115 example %d rotation %d", which+1, perm)
	res := nd.Result{Outcome: "anchor", NonTrivial: fmt.Sprintf("%d/%d", which, perm)}
	if r := refHash(ids, feats, forms, sha1.New()); r != want {
		panic(fmt.Sprintf("c20 reference is wrong: example %d gives %s want %s", which+1, r, want))
	}
	var got string
	if p := nd.Catch(func() { got = buildInfo(ids, feats, forms, perm%2 == 0).Hash(sha1.New()) }); p != nil {
		res.Violation = &nd.Violation{Sig: "hash:" + p.Sig(), Msg: "XEP example: panic " + p.Value}
		return res
	}
	if got != want {
		res.Violation = &nd.Violation{Sig: "hash:differs-from-xep-0115:worked-example", Msg: fmt.Sprintf("XEP-0115 example %d rotation %d: got %s want %s", which+1, perm, got, want)}
		return res
	}
	// every supported hash function, as the library constructs it
	for _, lh := range libHashes {
		var g string
		if p := nd.Catch(func() { g = buildInfo(ids, feats, forms, true).Hash(lh.h.New()) }); p != nil {
			res.Violation = &nd.Violation{Sig: "hash:library-hash:" + p.Sig(), Msg: fmt.Sprintf("%v.New(): panic %s", lh.h, p.Value)}
			return res
		}
		if w := refHash(ids, feats, forms, lh.ref()); g != w {
			res.Violation = &nd.Violation{Sig: "hash:differs-from-xep-0115:library-hash-function", Msg: fmt.Sprintf("XEP-0115 example %d hashed with the library's %v.New(): got %s want %s", which+1, lh.h, g, w)}
			return res
		}
	}
	return res
}

func init() {
	drv.Register(&drv.Prop{
		ID:    "C20",
		Level: "exploration",
		Rule: "every ordered selection (so every permutation of every subset) of <=N identities and <=N features from pools with prefix-related / non-ASCII / '<' names; every list of <=2 forms, each with/without FORM_TYPE (field first or last), every ordered selection of fields and of values, all field kinds; info values decoded from XML with empty and malformed forms in both orders; " +
			"x 4 hash functions, through Hash, AppendHash(nil) and AppendHash into empty buffers with spare capacity, against a literal transcription of XEP-0115 5.1 anchored on the XEP's two worked examples. Non-trivial = distinct info value with at least two items in some dimension (a real permutation) or at least one form.",
		Assumptions: []string{"forms without FORM_TYPE or with duplicate FORM_TYPEs have no defined 5.1 value: only order-independence and no-panic are required for them"},
		Parts: func(tier string) []drv.Part {
			n, mf, mv, budget := 3, 2, 2, 4*time.Minute
			if tier == "thorough" {
				n, mf, mv, budget = 4, 3, 2, 20*time.Minute
			}
			return []drv.Part{
				{Name: "anchors", Body: anchorsBody, Workers: 1, Budget: budget},
				{Name: "identities-features", Desc: fmt.Sprintf("ordered selections of <= %d identities x <= %d features", n, n), Body: idFeatBody(n), CutDepth: 3, Budget: budget},
				{Name: "forms", Desc: fmt.Sprintf("<= 2 forms, <= %d fields, <= %d values", mf, mv), Body: formsBody(2, mf, mv, valuePool), CutDepth: 4, Budget: budget},
				{Name: "empty-values", Desc: fmt.Sprintf("one form, <= %d fields, <= 3 values from a pool that holds the empty string", mf), Body: formsBody(1, mf, 3, valuePoolEmpty), CutDepth: 4, Budget: budget},
				{Name: "decoded", Desc: "info values decoded from XML", Body: decodedBody, Workers: 1, Budget: budget},
			}
		},
	})
}
