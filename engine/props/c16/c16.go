// Package c16: JID escaping is a lossless, chunk-independent transform.
package c16

import (
	"bytes"
	"fmt"
	"io"
	"strings"
	"time"

	"golang.org/x/text/transform"
	"mellium.im/xmpp/jid"

	"verif/drv"
	"verif/nd"
)

const escapable = ` "&'/:<>@\`

func refEscape(s string) string {
	var b strings.Builder
	for i := 0; i < len(s); i++ {
		c := s[i]
		if strings.IndexByte(escapable, c) >= 0 {
			fmt.Fprintf(&b, `\%02x`, c)
		} else {
			b.WriteByte(c)
		}
	}
	return b.String()
}

var seqs = map[string]byte{"20": ' ', "22": '"', "26": '&', "27": '\'', "2f": '/', "3a": ':', "3c": '<', "3e": '>', "40": '@', "5c": '\\'}

func refUnescape(s string) string {
	var b strings.Builder
	for i := 0; i < len(s); {
		if s[i] == '\\' && i+2 < len(s) {
			if c, ok := seqs[strings.ToLower(s[i+1:i+3])]; ok {
				b.WriteByte(c)
				i += 3
				continue
			}
		}
		b.WriteByte(s[i])
		i++
	}
	return b.String()
}

type dir struct {
	name   string
	t      jid.Transformer
	ref    func(string) string
	minCap int
}

var dirs = []dir{
	{"escape", jid.Escape, refEscape, 3},
	{"unescape", jid.Unescape, refUnescape, 1},
}

type chunkReader struct {
	s    string
	cuts []int
	i    int
	pos  int
}

func (r *chunkReader) Read(p []byte) (int, error) {
	if r.pos >= len(r.s) {
		return 0, io.EOF
	}
	end := len(r.s)
	if r.i < len(r.cuts) {
		end = r.cuts[r.i]
		r.i++
	}
	if end <= r.pos { // empty piece: skip to next
		return r.Read(p)
	}
	n := copy(p, r.s[r.pos:end])
	r.pos += n
	return n, nil
}

var caps = []int{1, 2, 3, 4, 5, 6, 7, 8, 128}

// checkString applies every law to one input; returns the first violation.
func checkString(s string, deep bool) *nd.Violation {
	for _, d := range dirs {
		want := d.ref(s)
		var got string
		if p := nd.Catch(func() { got = d.t.String(s) }); p != nil {
			return &nd.Violation{Sig: d.name + ".String:" + p.Sig(), Msg: fmt.Sprintf("%s.String(%q) panics: %s", d.name, s, p.Value)}
		}
		if got != want {
			return &nd.Violation{Sig: d.name + ".String:differs-from-reference", Msg: fmt.Sprintf("%s.String(%q) = %q, reference %q", d.name, s, got, want)}
		}
		var gotb []byte
		if p := nd.Catch(func() { gotb = d.t.Bytes([]byte(s)) }); p != nil {
			return &nd.Violation{Sig: d.name + ".Bytes:" + p.Sig(), Msg: fmt.Sprintf("%s.Bytes(%q) panics: %s", d.name, s, p.Value)}
		}
		if string(gotb) != want {
			return &nd.Violation{Sig: d.name + ".Bytes:differs-from-reference", Msg: fmt.Sprintf("%s.Bytes(%q) = %q, reference %q", d.name, s, gotb, want)}
		}
		// Span, both atEOF values, on every prefix as the chunk seen so far.
		for k := 0; k <= len(s); k++ {
			for _, eof := range []bool{true, false} {
				if eof && k != len(s) {
					continue
				}
				src := s[:k]
				var n int
				var err error
				if p := nd.Catch(func() { n, err = d.t.Span([]byte(src), eof) }); p != nil {
					return &nd.Violation{Sig: d.name + ".Span:" + p.Sig(), Msg: fmt.Sprintf("%s.Span(%q,%v) panics: %s", d.name, src, eof, p.Value)}
				}
				if n < 0 || n > len(src) {
					return &nd.Violation{Sig: d.name + ".Span:range", Msg: fmt.Sprintf("%s.Span(%q,%v) = %d", d.name, src, eof, n)}
				}
				// the spanned prefix must be unchanged in the full result
				if src[:n]+d.ref(s[n:]) != want {
					return &nd.Violation{Sig: d.name + ".Span:spanned-prefix-changes", Msg: fmt.Sprintf("%s.Span(%q,%v) = %d but transform of %q is %q", d.name, src, eof, n, s, want)}
				}
				if err == nil && n != len(src) {
					return &nd.Violation{Sig: d.name + ".Span:nil-err-short", Msg: fmt.Sprintf("%s.Span(%q,%v) = %d, nil", d.name, src, eof, n)}
				}
				if eof && err == transform.ErrShortSrc {
					return &nd.Violation{Sig: d.name + ".Span:shortsrc-at-eof", Msg: fmt.Sprintf("%s.Span(%q,true) = %d, ErrShortSrc", d.name, src, n)}
				}
				if eof && n == len(src) && err != nil {
					return &nd.Violation{Sig: d.name + ".Span:err-at-full-span", Msg: fmt.Sprintf("%s.Span(%q,true) = %d, %v", d.name, src, n, err)}
				}
				if eof && want == s && (n != len(s) || err != nil) {
					return &nd.Violation{Sig: d.name + ".Span:disagrees-with-String", Msg: fmt.Sprintf("%s.Span(%q,true) = %d,%v but String leaves it unchanged", d.name, s, n, err)}
				}
			}
		}
		// Single-call law for Transform: for every prefix s[:k] offered as src
		// (atEOF iff k == len(s)) and every destination capacity.
		for k := 0; k <= len(s); k++ {
			eof := k == len(s)
			src := []byte(s[:k])
			capList := caps
			if deep {
				capList = append(append([]int{}, caps...), len(want), len(want)+1)
			}
			for _, cp := range capList {
				dst := make([]byte, cp, cp)
				var nDst, nSrc int
				var err error
				if p := nd.Catch(func() { nDst, nSrc, err = d.t.Transform(dst, src, eof) }); p != nil {
					return &nd.Violation{Sig: d.name + ".Transform:" + p.Sig(), Msg: fmt.Sprintf("%s.Transform(dst[%d], %q, %v) panics: %s", d.name, cp, src, eof, p.Value)}
				}
				desc := func() string {
					return fmt.Sprintf("%s.Transform(dst[%d], %q, atEOF=%v) = (%d, %d, %v) dst=%q; whole input %q, reference %q", d.name, cp, src, eof, nDst, nSrc, err, dst[:max(0, min(nDst, cp))], s, want)
				}
				if nDst < 0 || nDst > cp || nSrc < 0 || nSrc > len(src) {
					return &nd.Violation{Sig: d.name + ".Transform:counts-out-of-range", Msg: desc()}
				}
				// compositional: what was written + reference of the rest = reference of all
				if string(dst[:nDst])+d.ref(s[nSrc:]) != want {
					sig := d.name + ".Transform:chunk-law"
					if err == transform.ErrShortDst {
						sig = d.name + ".Transform:short-dst-corrupts"
					}
					return &nd.Violation{Sig: sig, Msg: desc()}
				}
				switch err {
				case nil:
					if nSrc != len(src) {
						return &nd.Violation{Sig: d.name + ".Transform:nil-err-unconsumed", Msg: desc()}
					}
				case transform.ErrShortDst:
					if nSrc == len(src) {
						return &nd.Violation{Sig: d.name + ".Transform:shortdst-all-consumed", Msg: desc()}
					}
					if cp >= d.minCap && nDst == 0 && nSrc == 0 {
						return &nd.Violation{Sig: d.name + ".Transform:no-progress", Msg: desc()}
					}
					// it must really not have fit: the reference output of the
					// whole remaining input is longer than the space left
					if len(d.ref(s[nSrc:k])) <= cp-nDst && eof {
						return &nd.Violation{Sig: d.name + ".Transform:spurious-shortdst", Msg: desc()}
					}
				case transform.ErrShortSrc:
					if eof {
						return &nd.Violation{Sig: d.name + ".Transform:shortsrc-at-eof", Msg: desc()}
					}
					if k-nSrc >= 3 || k-nSrc == 0 {
						return &nd.Violation{Sig: d.name + ".Transform:spurious-shortsrc", Msg: desc()}
					}
				default:
					return &nd.Violation{Sig: d.name + ".Transform:unexpected-error", Msg: desc()}
				}
			}
		}
		// Driver loop over every 2- and 3-way split with small destinations,
		// and the x/text Reader over chunked input.
		n := len(s)
		for a := 0; a <= n; a++ {
			for b := a; b <= n; b++ {
				if !deep && b != n && b != a {
					continue
				}
				for _, cp := range []int{d.minCap, 4, 128} {
					out, verr := drive(d, s, []int{a, b}, cp)
					if verr != nil {
						return verr
					}
					if out != want {
						return &nd.Violation{Sig: d.name + ".Transform:streaming-differs", Msg: fmt.Sprintf("%s streaming over %q cut at %d,%d with dst cap %d = %q, reference %q", d.name, s, a, b, cp, out, want)}
					}
				}
				var rb []byte
				var rerr error
				if p := nd.Catch(func() { rb, rerr = io.ReadAll(transform.NewReader(&chunkReader{s: s, cuts: []int{a, b}}, d.t)) }); p != nil {
					return &nd.Violation{Sig: d.name + ".Reader:" + p.Sig(), Msg: fmt.Sprintf("%s transform.Reader over %q cut at %d,%d panics: %s", d.name, s, a, b, p.Value)}
				}
				if rerr != nil || string(rb) != want {
					return &nd.Violation{Sig: d.name + ".Reader:differs", Msg: fmt.Sprintf("%s transform.Reader over %q cut at %d,%d = %q,%v reference %q", d.name, s, a, b, rb, rerr, want)}
				}
			}
		}
		var wbuf bytes.Buffer
		var werr error
		if p := nd.Catch(func() {
			w := transform.NewWriter(&wbuf, d.t)
			for i := 0; i < len(s); i++ {
				if _, werr = w.Write([]byte{s[i]}); werr != nil {
					return
				}
			}
			werr = w.Close()
		}); p != nil {
			return &nd.Violation{Sig: d.name + ".Writer:" + p.Sig(), Msg: fmt.Sprintf("%s transform.Writer bytewise over %q panics: %s", d.name, s, p.Value)}
		}
		if werr != nil || wbuf.String() != want {
			return &nd.Violation{Sig: d.name + ".Writer:differs", Msg: fmt.Sprintf("%s transform.Writer bytewise over %q = %q,%v reference %q", d.name, s, wbuf.String(), werr, want)}
		}
	}
	// round trip and output alphabet
	var e, u string
	if p := nd.Catch(func() { e = jid.Escape.String(s); u = jid.Unescape.String(e) }); p != nil {
		return &nd.Violation{Sig: "roundtrip:" + p.Sig(), Msg: fmt.Sprintf("Unescape(Escape(%q)) panics: %s", s, p.Value)}
	}
	if u != s {
		return &nd.Violation{Sig: "roundtrip:lossy", Msg: fmt.Sprintf("Unescape(Escape(%q)) = %q (escaped %q)", s, u, e)}
	}
	if strings.ContainsAny(e, ` "&'/:<>@`) {
		return &nd.Violation{Sig: "escape:disallowed-char-in-output", Msg: fmt.Sprintf("Escape(%q) = %q", s, e)}
	}
	for i := 0; i < len(e); i++ {
		if e[i] == '\\' {
			if i+2 >= len(e) || seqs[e[i+1:i+3]] == 0 {
				return &nd.Violation{Sig: "escape:bare-backslash-in-output", Msg: fmt.Sprintf("Escape(%q) = %q", s, e)}
			}
		}
	}
	return nil
}

// drive feeds s to the transformer in the pieces given by cuts, with a
// destination of fixed capacity, following the transform.Transformer protocol.
func drive(d dir, s string, cuts []int, cp int) (string, *nd.Violation) {
	var out []byte
	var pending []byte
	pos := 0
	pieces := append(append([]int{}, cuts...), len(s))
	for pi, end := range pieces {
		pending = append(pending, s[pos:end]...)
		pos = end
		eof := pi == len(pieces)-1
		for steps := 0; ; steps++ {
			if steps > 4*len(s)+16 {
				return "", &nd.Violation{Sig: d.name + ".Transform:livelock", Msg: fmt.Sprintf("%s streaming over %q cuts %v cap %d does not finish", d.name, s, cuts, cp)}
			}
			dst := make([]byte, cp)
			var nDst, nSrc int
			var err error
			if p := nd.Catch(func() { nDst, nSrc, err = d.t.Transform(dst, pending, eof) }); p != nil {
				return "", &nd.Violation{Sig: d.name + ".Transform:" + p.Sig(), Msg: fmt.Sprintf("%s.Transform(dst[%d], %q, %v) panics: %s", d.name, cp, pending, eof, p.Value)}
			}
			if nDst < 0 || nDst > cp || nSrc < 0 || nSrc > len(pending) {
				return "", &nd.Violation{Sig: d.name + ".Transform:counts-out-of-range", Msg: fmt.Sprintf("%s.Transform(dst[%d], %q, %v) = %d,%d,%v", d.name, cp, pending, eof, nDst, nSrc, err)}
			}
			out = append(out, dst[:nDst]...)
			pending = pending[nSrc:]
			if err == transform.ErrShortDst {
				continue
			}
			if err == transform.ErrShortSrc && !eof {
				break
			}
			if err != nil {
				return "", &nd.Violation{Sig: d.name + ".Transform:unexpected-error", Msg: fmt.Sprintf("%s streaming over %q cuts %v cap %d: %v", d.name, s, cuts, cp, err)}
			}
			if len(pending) != 0 {
				return "", &nd.Violation{Sig: d.name + ".Transform:nil-err-unconsumed", Msg: fmt.Sprintf("%s streaming over %q cuts %v cap %d: nil error with %q pending", d.name, s, cuts, cp, pending)}
			}
			break
		}
	}
	return string(out), nil
}

var alphabet = []string{"a", " ", `\`, "2", "0", "5", "c", "C", "@", "x"}

func nontrivial(s string) bool {
	if strings.ContainsAny(s, escapable) {
		return true
	}
	return false
}

// wideAlphabet adds to the core alphabet: multi-byte characters whose bytes
// equal an escapable ASCII character modulo 128 (NBSP: 0xA0 ~ space, u-umlaut:
// 0xBC ~ '<', section sign: 0xA7 ~ apostrophe), a raw byte that is not valid
// UTF-8, control bytes that differ from hex digits only in bit 5, and more hex
// digits in both cases.
var wideAlphabet = append(append([]string{}, alphabet...), "\u00a0", "\u00fc", "\u00a7", "\xa0", "\x10", "\x16", "e", "E", "7")

func stringsBody(maxLen int, deep bool, alpha ...string) nd.Body {
	alphabet := alphabet
	if len(alpha) > 0 {
		alphabet = alpha
	}
	return func(c *nd.Ctx) nd.Result {
		n := c.Choose(maxLen+1, "len")
		var b strings.Builder
		for i := 0; i < n; i++ {
			b.WriteString(alphabet[c.Choose(len(alphabet), "sym")])
		}
		s := b.String()
		c.Note("input %q", s)
		res := nd.Result{Outcome: "ok"}
		if nontrivial(s) {
			res.NonTrivial = s
			if refUnescape(s) != s {
				res.Outcome = "ok-has-escape-sequence"
			} else {
				res.Outcome = "ok-has-escapable"
			}
		}
		if v := checkString(s, deep); v != nil {
			res.Violation = v
			res.Outcome = "violation"
		}
		return res
	}
}

// planted: an escapable character or an escape sequence (either hex case, or
// a near-miss) planted at chosen offsets of a long filler, around the 128-byte
// buffer boundaries used by transform.String and around 4096 (transform.Reader).
var plants = []string{" ", `\`, "@", `\20`, `\5c`, `\5C`, `\2F`, `\2f`, `\3e`, `\40`, `\2`, `\20\20`, ` \`, `\\20`, `\2g`, `/`, `"&'`}
var offsets = []int{0, 1, 2, 3, 4, 5, 6, 125, 126, 127, 128, 129, 130, 131, 253, 254, 255, 256, 257, 258, 259, 4093, 4094, 4095, 4096, 4097}
var fills = []string{"a", "c", "@", `\`, " "} // fillers that are themselves escapable (dense input: the output is three times as long) or backslashes

func plantedBody(c *nd.Ctx) nd.Result {
	p := plants[c.Choose(len(plants), "plant")]
	off := offsets[c.Choose(len(offsets), "offset")]
	fill := fills[c.Choose(len(fills), "fill")]
	tail := c.Choose(3, "tail") // 0: nothing after, 1: one filler, 2: a second plant later
	s := strings.Repeat(fill, off) + p
	switch tail {
	case 1:
		s += fill
	case 2:
		s += strings.Repeat(fill, 126) + p + fill
	}
	c.Note("plant %q at offset %d in %d-byte filler %q, tail %d", p, off, len(s), fill, tail)
	res := nd.Result{Outcome: "ok", NonTrivial: fmt.Sprintf("%s@%d/%s/%d", p, off, fill, tail)}
	if v := checkLong(s); v != nil {
		res.Violation = v
		res.Outcome = "violation"
	}
	return res
}

// checkLong applies the whole-string laws plus streaming with a few cuts near
// the plant (the full per-prefix laws are quadratic and reserved for short strings).
func checkLong(s string) *nd.Violation {
	for _, d := range dirs {
		want := d.ref(s)
		var got string
		if p := nd.Catch(func() { got = d.t.String(s) }); p != nil {
			return &nd.Violation{Sig: d.name + ".String:" + p.Sig(), Msg: fmt.Sprintf("%s.String(%s) panics: %s", d.name, abbrev(s), p.Value)}
		}
		if got != want {
			return &nd.Violation{Sig: d.name + ".String:differs-from-reference", Msg: fmt.Sprintf("%s.String(%s) = %s, reference %s", d.name, abbrev(s), abbrev(got), abbrev(want))}
		}
		var gotb []byte
		if p := nd.Catch(func() { gotb = d.t.Bytes([]byte(s)) }); p != nil {
			return &nd.Violation{Sig: d.name + ".Bytes:" + p.Sig(), Msg: fmt.Sprintf("%s.Bytes(%s) panics: %s", d.name, abbrev(s), p.Value)}
		}
		if string(gotb) != want {
			return &nd.Violation{Sig: d.name + ".Bytes:differs-from-reference", Msg: fmt.Sprintf("%s.Bytes(%s) = %s, reference %s", d.name, abbrev(s), abbrev(string(gotb)), abbrev(want))}
		}
		var rb []byte
		var rerr error
		if p := nd.Catch(func() { rb, rerr = io.ReadAll(transform.NewReader(strings.NewReader(s), d.t)) }); p != nil {
			return &nd.Violation{Sig: d.name + ".Reader:" + p.Sig(), Msg: fmt.Sprintf("%s transform.Reader over %s panics: %s", d.name, abbrev(s), p.Value)}
		}
		if rerr != nil || string(rb) != want {
			return &nd.Violation{Sig: d.name + ".Reader:differs", Msg: fmt.Sprintf("%s transform.Reader over %s = %s,%v reference %s", d.name, abbrev(s), abbrev(string(rb)), rerr, abbrev(want))}
		}
		for _, cp := range []int{d.minCap, 7, 128, 4096} {
			out, v := drive(d, s, nil, cp)
			if v != nil {
				return v
			}
			if out != want {
				return &nd.Violation{Sig: d.name + ".Transform:streaming-differs", Msg: fmt.Sprintf("%s streaming over %s with dst cap %d = %s, reference %s", d.name, abbrev(s), cp, abbrev(out), abbrev(want))}
			}
		}
	}
	var u string
	if p := nd.Catch(func() { u = jid.Unescape.String(jid.Escape.String(s)) }); p != nil {
		return &nd.Violation{Sig: "roundtrip:" + p.Sig(), Msg: fmt.Sprintf("Unescape(Escape(%s)) panics: %s", abbrev(s), p.Value)}
	}
	if u != s {
		return &nd.Violation{Sig: "roundtrip:lossy", Msg: fmt.Sprintf("Unescape(Escape(%s)) = %s", abbrev(s), abbrev(u))}
	}
	return nil
}

func abbrev(s string) string {
	if len(s) <= 40 {
		return fmt.Sprintf("%q", s)
	}
	// run-length encode fillers
	var b strings.Builder
	for i := 0; i < len(s); {
		j := i
		for j < len(s) && s[j] == s[i] {
			j++
		}
		if j-i > 4 {
			fmt.Fprintf(&b, "%q*%d ", s[i], j-i)
		} else {
			fmt.Fprintf(&b, "%q ", s[i:j])
		}
		i = j
	}
	return b.String()
}

func init() {
	drv.Register(&drv.Prop{
		ID:    "C16",
		Level: "exploration",
		Rule: "every string over the alphabet {a,space,\\,2,0,5,c,C,@,x} up to the tier's length, and every string one symbol shorter over that alphabet widened by NBSP, u-umlaut, section sign, a raw 0xA0 byte, control bytes 0x10 and 0x16 and e/E/7 (all of them, no sampling), each checked through String, Bytes, Span, " +
			"single-call Transform for every prefix x destination capacity, streaming with every 2/3-way split, transform.Reader/Writer, against a 15-line reference; " +
			"plus escapes/escapables planted at offsets around 0..6, 128, 256, 4096. Non-trivial = distinct input containing an escapable character or backslash.",
		Assumptions: []string{"golang.org/x/text/transform helpers (String, Bytes, Reader, Writer) follow their documented contract", "inputs outside the two alphabets and beyond the stated lengths/offsets are not covered"},
		Parts: func(tier string) []drv.Part {
			l, deep, budget := 5, false, 90*time.Second
			if tier == "thorough" {
				l, deep, budget = 6, true, 20*time.Minute
			}
			return []drv.Part{
				{Name: "strings", Desc: fmt.Sprintf("all strings of length <= %d over a 10-symbol alphabet", l), Body: stringsBody(l, deep), CutDepth: 3, Budget: budget},
				{Name: "strings-wide", Desc: fmt.Sprintf("all strings of length <= %d over a 19-symbol alphabet with non-ASCII, invalid and control bytes", l-1), Body: stringsBody(l-1, deep, wideAlphabet...), CutDepth: 3, Budget: budget},
				{Name: "planted", Desc: "escapable characters and escape sequences planted around buffer boundaries", Body: plantedBody, CutDepth: 2, Budget: budget},
			}
		},
	})
}
