// Package c14: the multiplexer always picks the most specific registered handler.
package c14

import (
	"encoding/xml"
	"fmt"
	"io"
	"strings"
	"time"

	"mellium.im/xmlstream"
	"mellium.im/xmpp/mux"
	"mellium.im/xmpp/stanza"

	"verif/drv"
	"verif/nd"
	"verif/xu"
)

const ns = stanza.NSClient

var (
	nA = xml.Name{Space: "n1", Local: "a"}
	nB = xml.Name{Space: "n1", Local: "b"}
	nC = xml.Name{Space: "n2", Local: "a"}
	nD = xml.Name{Space: "n3", Local: "d"}
)

// payload patterns of the universe, most to least specific for A.
var payloadPats = []xml.Name{nA, nC, {Local: "a"}, {Space: "n1"}, {}}

var iqTypes = []string{"get", "set", "result", ""} // the last one: no type attribute
var msgTypes = []string{"chat", "normal", "headline"}
var presTypes = []string{"", "unavailable", "probe"}

// children alphabet: A, B, C, D, text
// (the last child is white space that a decoder reports as two tokens: text, then a CDATA section)
var childDocs = []string{`<a xmlns="n1">x<i/></a>`, `<b xmlns="n1"/>`, `<a xmlns="n2"><a xmlns="n1"/></a>`, `<d xmlns="n3">t</d>`, `text`, wsDoc}
var childNames = []xml.Name{nA, nB, nC, nD, {}, {}}

const wsDoc = " \n<![CDATA[ ]]>"

type call struct {
	label string   // which registered handler
	read  []string // tokens it obtained
	errs  []string
	start string // IQ: payload start handed over
}

type recEnc struct{ toks []xml.Token }

func (e *recEnc) EncodeToken(t xml.Token) error { e.toks = append(e.toks, xml.CopyToken(t)); return nil }
func (e *recEnc) Encode(v interface{}) error    { return fmt.Errorf("unexpected Encode") }
func (e *recEnc) EncodeElement(v interface{}, s xml.StartElement) error {
	return fmt.Errorf("unexpected EncodeElement")
}
func (e *recEnc) Flush() error { return nil }

// readProgram: how many tokens the i-th invoked handler reads.
// 0 none, 1 one, 2 all, 3 past the end, 4 alternating all/none, 5 alternating none/all
func wants(prog, i int) int {
	switch prog {
	case 0:
		return 0
	case 1:
		return 1
	case 2:
		return 1 << 20
	case 3:
		return -1 // all, then two more
	case 4:
		if i%2 == 0 {
			return 1 << 20
		}
		return 0
	default:
		if i%2 == 1 {
			return 1 << 20
		}
		return 0
	}
}

func consume(r xml.TokenReader, want int) (toks []string, errs []string) {
	extra := 0
	if want < 0 {
		want = 1 << 20
		extra = 2
	}
	for i := 0; i < want; i++ {
		t, err := r.Token()
		if t != nil {
			toks = append(toks, xu.TokString([]xml.Token{t}))
		}
		if err != nil {
			if err != io.EOF {
				errs = append(errs, err.Error())
			}
			break
		}
		if t == nil {
			errs = append(errs, "nil token, nil error")
			break
		}
		if i > 100000 {
			errs = append(errs, "reader does not end")
			break
		}
	}
	for i := 0; i < extra; i++ {
		t, err := r.Token()
		if t != nil || err != io.EOF {
			errs = append(errs, fmt.Sprintf("read past the end gave %v, %v", t, err))
		}
	}
	return
}

func patLabel(typ string, p xml.Name) string { return fmt.Sprintf("%s/{%s}%s", typ, p.Space, p.Local) }

// refChoice: the four-step cascade.
func refChoice(reg map[string]bool, typ string, n xml.Name) (string, bool) {
	for _, cand := range []xml.Name{n, {Local: n.Local}, {Space: n.Space}, {}} {
		if l := patLabel(typ, cand); reg[l] {
			return l, true
		}
	}
	return "", false
}

func stanzaDoc(kind, typ string, children []int, from string) string {
	var b strings.Builder
	fmt.Fprintf(&b, `<%s xmlns="%s" id="i1"`, kind, ns)
	if typ != "" {
		fmt.Fprintf(&b, ` type="%s"`, typ)
	}
	if from != "" {
		fmt.Fprintf(&b, ` from="%s"`, from)
	}
	b.WriteString(">")
	for _, c := range children {
		b.WriteString(childDocs[c])
	}
	fmt.Fprintf(&b, `</%s>`, kind)
	return b.String()
}

// run feeds one stanza to the mux the way the serve loop does.
// eofLast delivers the final token together with io.EOF, which the
// xml.TokenReader contract allows (xmlstream.Wrap readers do it).
type eofLast struct {
	toks []xml.Token
	i    int
}

func (r *eofLast) Token() (xml.Token, error) {
	if r.i >= len(r.toks) {
		return nil, io.EOF
	}
	t := r.toks[r.i]
	r.i++
	if r.i == len(r.toks) {
		return t, io.EOF
	}
	return t, nil
}

func run(m *mux.ServeMux, doc string, enc *recEnc, eofWithLast bool) (err error, p *nd.Panic) {
	d := xml.NewDecoder(strings.NewReader(doc))
	tok, _ := d.Token()
	start := tok.(xml.StartElement)
	// the session strips nothing else; namespace declarations stay as attributes
	var tr xml.TokenReader = xmlstream.InnerElement(d)
	if eofWithLast {
		toks, _ := xu.Tokens(tr)
		tr = &eofLast{toks: toks}
	}
	rw := struct {
		xml.TokenReader
		xmlstream.Encoder
	}{TokenReader: tr, Encoder: enc}
	p = nd.Catch(func() { err = m.HandleXMPP(rw, &start) })
	return
}

// stanzaNSBody is stanzaBody over a second, small universe: children that
// inherit the stanza namespace (body, show ...) and the patterns that match
// them exactly, by local name, by that namespace and by type only.
func stanzaNSBody(kind string, maxChildren int) nd.Body {
	inner := stanzaBody(kind, maxChildren)
	nBody := xml.Name{Space: ns, Local: "body"}
	return func(c *nd.Ctx) nd.Result {
		defer func(p []xml.Name, d []string, n []xml.Name) { payloadPats, childDocs, childNames = p, d, n }(payloadPats, childDocs, childNames)
		payloadPats = []xml.Name{nBody, {Local: "body"}, {Space: ns}, {}}
		childDocs = []string{`<body>hi</body>`, `<show>away</show>`, `<a xmlns="n1">x<i/></a>`, `<body xmlns="n1"/>`, `text`, wsDoc}
		childNames = []xml.Name{nBody, {Space: ns, Local: "show"}, nA, {Space: "n1", Local: "body"}, {}, {}}
		return inner(c)
	}
}

// largeBody is stanzaBody over stanzas whose first kind of child is large: it
// holds so many elements that the stanza is longer than any fixed-size token
// buffer a router might keep (sizes around powers of two up to 5000 tokens).
// Handlers for later children must still be invoked and see the whole stanza,
// whatever the earlier handlers consumed.
// textFrom: the children from this index on are text, not elements.
var textFrom = 4

// nestedChildren: the children of the stanza a re-entering handler feeds through the mux.
var nestedChildren = []int{1, 0, 3}

var largeSizes = []int{255, 511, 512, 513, 1025, 2500}

func largeBody(kind string) nd.Body {
	inner := stanzaBody(kind, 2)
	return func(c *nd.Ctx) nd.Result {
		defer func(p []xml.Name, d []string, n []xml.Name) { payloadPats, childDocs, childNames = p, d, n }(payloadPats, childDocs, childNames)
		n := largeSizes[c.Choose(len(largeSizes), "elements-inside-the-large-child")]
		big := `<a xmlns="n1">` + strings.Repeat("<i/>", n) + `</a>` // 2n+2 tokens
		payloadPats = []xml.Name{nA, nB}
		childDocs = []string{big, `<b xmlns="n1"/>`, `text`}
		childNames = []xml.Name{nA, nB, {}}
		textFrom, nestedChildren = 2, []int{1, 2, 1}
		defer func() { textFrom, nestedChildren = 4, []int{1, 0, 3} }()
		res := inner(c)
		if res.NonTrivial != "" {
			res.NonTrivial = fmt.Sprintf("%d|%v", n, c.Vector())
		}
		if res.Violation != nil {
			res.Violation.Sig = "large:" + res.Violation.Sig
			if len(res.Violation.Msg) > 1500 {
				res.Violation.Msg = fmt.Sprintf("(large child with %d elements) ", n) + res.Violation.Msg[:700] + " … " + res.Violation.Msg[len(res.Violation.Msg)-700:]
			}
		}
		return res
	}
}

func stanzaBody(kind string, maxChildren int) nd.Body {
	return stanzaBodyTypes(kind, maxChildren, map[string][]string{"iq": iqTypes, "message": msgTypes, "presence": presTypes}[kind])
}

// stanzaBodyTypes: handlers are registered for the first two of the types, the
// incoming stanza has any of them.
func stanzaBodyTypes(kind string, maxChildren int, types []string) nd.Body {
	return func(c *nd.Ctx) nd.Result {
		// registered subset: payload patterns x the first two types
		reg := map[string]bool{}
		var regList []string
		for ti := 0; ti < 2; ti++ {
			for _, p := range payloadPats {
				if c.Choose(2, "registered") == 1 {
					l := patLabel(types[ti], p)
					reg[l] = true
					regList = append(regList, l)
				}
			}
		}
		typ := types[c.Choose(len(types), "type")]
		n := c.Choose(maxChildren+1, "nchildren")
		var children []int
		for i := 0; i < n; i++ {
			children = append(children, c.Choose(len(childDocs), "child"))
		}
		prog := c.Choose(6, "read-program")
		from := ""
		if kind == "iq" && c.Choose(2, "iq-has-from") == 0 {
			// (without a from: the usual shape of a request from one's own server)
			from = "juliet@example.com/r"
		}
		doc := stanzaDoc(kind, typ, children, from)
		eofWithLast := c.Choose(2, "reader-eof-with-last-token") == 1
		// the first payload handler that runs feeds another stanza (a forwarded
		// or archived copy it unpacked) through the same mux before it reads on
		reenter := kind != "iq" && c.Choose(2, "handler-re-enters-the-mux") == 1
		c.Note("registered=%v stanza=%s read-program=%d eof-with-last-token=%v re-enter=%v", regList, doc, prog, eofWithLast, reenter)

		var calls []call
		var mref *mux.ServeMux
		depth, reentered := 0, false
		var nestedPanic *nd.Panic
		nest := func() {
			if !reenter || reentered || depth > 0 {
				return
			}
			reentered = true
			depth++
			_, nestedPanic = run(mref, stanzaDoc(kind, typ, nestedChildren, ""), &recEnc{}, false)
			depth--
		}
		var opts []mux.Option
		for ti := 0; ti < 2; ti++ {
			for _, p := range payloadPats {
				l := patLabel(types[ti], p)
				if !reg[l] {
					continue
				}
				l, p := l, p
				switch kind {
				case "iq":
					opts = append(opts, mux.IQFunc(stanza.IQType(types[ti]), p, func(iq stanza.IQ, t xmlstream.TokenReadEncoder, start *xml.StartElement) error {
						toks, errs := consume(t, wants(prog, len(calls)))
						calls = append(calls, call{label: l, read: toks, errs: errs, start: xu.TokString([]xml.Token{*start})})
						return nil
					}))
				case "message":
					opts = append(opts, mux.MessageFunc(stanza.MessageType(types[ti]), p, func(msg stanza.Message, t xmlstream.TokenReadEncoder) error {
						if depth > 0 {
							// a handler invoked for the nested stanza: reads it all
							consume(t, 1<<20)
							return nil
						}
						nest()
						toks, errs := consume(t, wants(prog, len(calls)))
						calls = append(calls, call{label: l, read: toks, errs: errs})
						return nil
					}))
				case "presence":
					opts = append(opts, mux.PresenceFunc(stanza.PresenceType(types[ti]), p, func(pr stanza.Presence, t xmlstream.TokenReadEncoder) error {
						if depth > 0 {
							// a handler invoked for the nested stanza: reads it all
							consume(t, 1<<20)
							return nil
						}
						nest()
						toks, errs := consume(t, wants(prog, len(calls)))
						calls = append(calls, call{label: l, read: toks, errs: errs})
						return nil
					}))
				}
			}
		}
		m := mux.New(ns, opts...)
		mref = m
		enc := &recEnc{}
		err, p := run(m, doc, enc, eofWithLast)
		if p == nil {
			p = nestedPanic
		}
		res := nd.Result{Outcome: kind}
		if len(regList) > 1 && n > 0 {
			res.NonTrivial = fmt.Sprintf("%v|%s", regList, doc)
		}
		if p != nil {
			res.Violation = &nd.Violation{Sig: "mux:" + p.Sig(), Msg: fmt.Sprintf("registered=%v stanza=%s: panic %s", regList, doc, p.Value)}
			return res
		}
		fail := func(sig, f string, a ...any) nd.Result {
			res.Violation = &nd.Violation{Sig: "mux:" + kind + ":" + sig, Msg: fmt.Sprintf("registered=%v stanza=%s read-program=%d eof-with-last-token=%v re-enter=%v: ", regList, doc, prog, eofWithLast, reenter) + fmt.Sprintf(f, a...)}
			return res
		}
		allToks, _ := xu.Tokens(xml.NewDecoder(strings.NewReader(doc)))
		var full []string
		for _, t := range allToks {
			full = append(full, xu.TokString([]xml.Token{t}))
		}
		for _, cl := range calls {
			if len(cl.errs) > 0 {
				return fail("handler-read-error", "handler %s: %v", cl.label, cl.errs)
			}
		}
		out, _ := xu.Render(&xu.SliceReader{Toks: enc.toks})
		if kind == "iq" {
			// first child must be an element (leading whitespace is skipped); text first is an error
			var want string
			var payload xml.Name
			hasPayload := false
			textFirst := false
			first := children
			for len(first) > 0 && first[0] == 5 {
				first = first[1:] // leading white space, in however many tokens, is not a payload
			}
			if len(first) > 0 {
				if first[0] == 4 {
					textFirst = true
				} else {
					payload, hasPayload = childNames[first[0]], true
				}
			}
			if textFirst || (!hasPayload && typ != "result") {
				if typ == "" && len(calls) > 0 {
					return fail("wrong-handler", "an IQ without a type was given to %v", labels(calls))
				}
				// malformed for this router: an error is acceptable, a handler call is not required
				if len(calls) > 0 && textFirst {
					return fail("handler-called-for-text-payload", "calls %v", calls)
				}
				res.Outcome = "iq-invalid-payload"
				return res
			}
			want, ok := refChoice(reg, typ, payload)
			if err != nil {
				return fail("unexpected-error", "%v", err)
			}
			if ok {
				if len(calls) != 1 || calls[0].label != want {
					return fail("wrong-handler", "reference picks %s, mux invoked %v", want, labels(calls))
				}
				if hasPayload && !strings.HasPrefix(calls[0].start, fmt.Sprintf("<{%s}%s", payload.Space, payload.Local)) {
					return fail("wrong-payload-start", "handler got start %s", calls[0].start)
				}
				if len(enc.toks) != 0 {
					return fail("default-reply-although-handled", "wrote %s", out)
				}
				return res
			}
			if len(calls) != 0 {
				return fail("wrong-handler", "no pattern matches but mux invoked %v", labels(calls))
			}
			if typ == "get" || typ == "set" {
				roots, perr := xu.Parse(out)
				if perr != nil || len(roots) != 1 {
					return fail("default-reply-missing", "unhandled %s IQ: wrote %q (%v)", typ, out, perr)
				}
				r := roots[0]
				ty, _ := r.AttrVal("", "type")
				id, _ := r.AttrVal("", "id")
				to, _ := r.AttrVal("", "to")
				if r.Name.Local != "iq" || ty != "error" || id != "i1" || to != from || !strings.Contains(r.String(), "service-unavailable") {
					return fail("default-reply-wrong", "unhandled %s IQ: wrote %s", typ, out)
				}
			} else if len(enc.toks) != 0 && typ != "" {
				// (an IQ without a type is invalid: only "no handler registered
				// for another type is invoked" is judged for it)
				return fail("default-reply-for-result", "wrote %s", out)
			}
			return res
		}
		// message / presence
		if err != nil {
			return fail("unexpected-error", "%v", err)
		}
		if len(enc.toks) != 0 {
			return fail("unexpected-output", "wrote %s", out)
		}
		var want []string
		elems := 0
		for _, ch := range children {
			if ch >= textFrom {
				continue
			}
			elems++
			if l, ok := refChoice(reg, typ, childNames[ch]); ok {
				want = append(want, l)
			}
		}
		if len(children) == 0 {
			if l, ok := refChoice(reg, typ, xml.Name{}); ok {
				want = append(want, l)
			}
		}
		got := labels(calls)
		if fmt.Sprint(got) != fmt.Sprint(want) {
			return fail("wrong-handler", "reference invokes %v, mux invoked %v", want, got)
		}
		for i, cl := range calls {
			w := wants(prog, i)
			var expect []string
			switch {
			case w < 0 || w >= len(full):
				expect = full
			default:
				expect = full[:w]
			}
			if fmt.Sprint(cl.read) != fmt.Sprint(expect) {
				return fail("handler-does-not-see-whole-stanza", "invocation %d (%s) read %v, want %v", i, cl.label, cl.read, expect)
			}
		}
		return res
	}
}

func labels(cs []call) []string {
	var l []string
	for _, c := range cs {
		l = append(l, c.label)
	}
	return l
}

// top-level Handle patterns
var topPats = []xml.Name{nA, nC, {Local: "a"}, {Space: "n1"}, {Space: "n2"}, {Local: "b"}, {Space: ns}, {}} // the empty name: the namespace-only pattern of elements in no namespace, not a catch-all
var topIn = []xml.Name{nA, nB, nC, nD, {Space: "n2", Local: "b"}, {Space: "n3", Local: "a"}, {Space: "n1", Local: "message"}, {Space: ns, Local: "message"}, {Space: ns, Local: "presence"}, {Space: ns, Local: "a"},
	// named like stanzas, but not in the namespace the mux was created with: not stanzas of this mux
	{Space: "n1", Local: "iq"}, {Space: stanza.NSServer, Local: "iq"}, {Space: stanza.NSServer, Local: "message"}, {Space: "n3", Local: "presence"}, {Local: "q"}}

func topBody(c *nd.Ctx) nd.Result {
	reg := map[xml.Name]bool{}
	var regList []xml.Name
	for _, p := range topPats {
		if c.Choose(2, "registered") == 1 {
			reg[p] = true
			regList = append(regList, p)
		}
	}
	in := topIn[c.Choose(len(topIn), "element")]
	prog := c.Choose(4, "read-program")
	stanzaHandlers := c.Choose(2, "wildcard-stanza-handlers-registered") == 1
	c.Note("Handle patterns %v, element %v, wildcard stanza handlers registered: %v", regList, in, stanzaHandlers)
	var called []xml.Name
	var readErrs []string
	var opts []mux.Option
	if stanzaHandlers {
		// handlers for every stanza of the mux's namespace: elements of other
		// namespaces never reach them, whatever they are called
		for _, typ := range []string{"get", "set", "result", "error"} {
			opts = append(opts, mux.IQFunc(stanza.IQType(typ), xml.Name{}, func(iq stanza.IQ, t xmlstream.TokenReadEncoder, start *xml.StartElement) error {
				called = append(called, xml.Name{Space: "stanza-handler", Local: "iq"})
				return nil
			}))
		}
		opts = append(opts, mux.MessageFunc("", xml.Name{}, func(msg stanza.Message, t xmlstream.TokenReadEncoder) error {
			called = append(called, xml.Name{Space: "stanza-handler", Local: "message"})
			return nil
		}), mux.PresenceFunc("", xml.Name{}, func(pr stanza.Presence, t xmlstream.TokenReadEncoder) error {
			called = append(called, xml.Name{Space: "stanza-handler", Local: "presence"})
			return nil
		}))
	}
	for _, p := range regList {
		p := p
		opts = append(opts, mux.HandleFunc(p, func(t xmlstream.TokenReadEncoder, start *xml.StartElement) error {
			_, errs := consume(t, wants(prog, 0))
			readErrs = append(readErrs, errs...)
			called = append(called, p)
			return nil
		}))
	}
	res := nd.Result{Outcome: "top-level"}
	if len(regList) > 1 {
		res.NonTrivial = fmt.Sprintf("%v|%v", regList, in)
	}
	m := mux.New(ns, opts...)
	enc := &recEnc{}
	doc := fmt.Sprintf(`<%s xmlns="%s"><x/>t</%s>`, in.Local, in.Space, in.Local)
	err, p := run(m, doc, enc, prog%2 == 1)
	if p != nil {
		res.Violation = &nd.Violation{Sig: "mux:top:" + p.Sig(), Msg: fmt.Sprintf("patterns %v element %v: panic %s", regList, in, p.Value)}
		return res
	}
	var want []xml.Name
	if stanzaHandlers && in.Space == ns && (in.Local == "message" || in.Local == "presence" || in.Local == "iq") {
		// a stanza of this mux goes to the stanza handlers (the message-ns and
		// presence-ns parts judge those); only non-stanzas are judged here
		return nd.Result{Skip: true}
	}
	for _, cand := range []xml.Name{in, {Local: in.Local}, {Space: in.Space}} {
		if reg[cand] {
			want = []xml.Name{cand}
			break
		}
	}
	if err != nil || len(readErrs) > 0 || fmt.Sprint(called) != fmt.Sprint(want) || len(enc.toks) != 0 {
		res.Violation = &nd.Violation{Sig: "mux:top:wrong-handler", Msg: fmt.Sprintf("patterns %v element %v: reference invokes %v, mux invoked %v (err %v, read errors %v, output %d tokens)", regList, in, want, called, err, readErrs, len(enc.toks))}
	}
	return res
}

// registration laws
func regBody(c *nd.Ctx) nd.Result {
	kind := c.Choose(4, "kind")
	how := c.Choose(5, "how") // 0 duplicate, 1 nil interface, 2 nil func, 3 duplicate via Func, 4 two distinct patterns (legal in either order)
	p := payloadPats[c.Choose(len(payloadPats), "pattern")]
	names := []string{"IQ", "Message", "Presence", "Handle"}
	c.Note("register %s pattern %v case %d", names[kind], p, how)
	res := nd.Result{Outcome: "registration", NonTrivial: fmt.Sprintf("%d/%d/%v", kind, how, p)}
	if kind == 3 && p == (xml.Name{}) {
		p = xml.Name{Local: "x"}
	}
	okIQ := mux.IQHandlerFunc(func(stanza.IQ, xmlstream.TokenReadEncoder, *xml.StartElement) error { return nil })
	okMsg := mux.MessageHandlerFunc(func(stanza.Message, xmlstream.TokenReadEncoder) error { return nil })
	okPres := mux.PresenceHandlerFunc(func(stanza.Presence, xmlstream.TokenReadEncoder) error { return nil })
	if how == 4 {
		// every set of distinct patterns is legal, whatever order they are
		// registered in (a wildcard before or after the patterns it covers)
		for _, q := range payloadPats {
			if kind == 3 && q == (xml.Name{}) {
				q = xml.Name{Local: "y"}
			}
			if q == p {
				continue
			}
			var two []mux.Option
			switch kind {
			case 0:
				two = []mux.Option{mux.IQ("get", p, okIQ), mux.IQ("get", q, okIQ)}
			case 1:
				two = []mux.Option{mux.Message("chat", p, okMsg), mux.Message("chat", q, okMsg)}
			case 2:
				two = []mux.Option{mux.Presence("", p, okPres), mux.Presence("", q, okPres)}
			case 3:
				okH := func(t xmlstream.TokenReadEncoder, start *xml.StartElement) error { return nil }
				two = []mux.Option{mux.HandleFunc(p, okH), mux.HandleFunc(q, okH)}
			}
			if pn := nd.Catch(func() { mux.New(ns, two...) }); pn != nil {
				res.Violation = &nd.Violation{Sig: "register:distinct-patterns-refused", Msg: fmt.Sprintf("mux.New refused %s patterns %v then %v: %s", names[kind], p, q, pn.Value)}
				return res
			}
		}
		return res
	}
	var opts []mux.Option
	switch kind {
	case 0:
		switch how {
		case 0:
			opts = []mux.Option{mux.IQ("get", p, okIQ), mux.IQ("get", p, okIQ)}
		case 1:
			opts = []mux.Option{mux.IQ("get", p, nil)}
		case 2:
			opts = []mux.Option{mux.IQFunc("get", p, nil)}
		case 3:
			opts = []mux.Option{mux.IQ("get", p, okIQ), mux.IQFunc("get", p, okIQ)}
		}
	case 1:
		switch how {
		case 0:
			opts = []mux.Option{mux.Message("chat", p, okMsg), mux.Message("chat", p, okMsg)}
		case 1:
			opts = []mux.Option{mux.Message("chat", p, nil)}
		case 2:
			opts = []mux.Option{mux.MessageFunc("chat", p, nil)}
		case 3:
			opts = []mux.Option{mux.Message("chat", p, okMsg), mux.MessageFunc("chat", p, okMsg)}
		}
	case 2:
		switch how {
		case 0:
			opts = []mux.Option{mux.Presence("", p, okPres), mux.Presence("", p, okPres)}
		case 1:
			opts = []mux.Option{mux.Presence("", p, nil)}
		case 2:
			opts = []mux.Option{mux.PresenceFunc("", p, nil)}
		case 3:
			opts = []mux.Option{mux.Presence("", p, okPres), mux.PresenceFunc("", p, okPres)}
		}
	case 3:
		okH := func(t xmlstream.TokenReadEncoder, start *xml.StartElement) error { return nil }
		switch how {
		case 0:
			opts = []mux.Option{mux.HandleFunc(p, okH), mux.HandleFunc(p, okH)}
		case 1:
			opts = []mux.Option{mux.Handle(p, nil)}
		case 2:
			opts = []mux.Option{mux.HandleFunc(p, nil)}
		case 3:
			opts = []mux.Option{mux.HandleFunc(p, okH), mux.HandleFunc(p, okH)}
		}
	}
	pn := nd.Catch(func() { mux.New(ns, opts...) })
	if pn == nil {
		what := []string{"duplicate", "nil-handler", "nil-func", "duplicate"}[how]
		res.Violation = &nd.Violation{Sig: "register:" + what + "-accepted", Msg: fmt.Sprintf("mux.New accepted a %s registration of %s pattern %v (case %d) without refusing it", what, names[kind], p, how)}
	}
	return res
}

func init() {
	drv.Register(&drv.Prop{
		ID:    "C14",
		Level: "model_checking",
		Rule: "for each stanza kind: every subset (2^10) of the pattern universe {exact A, exact C, local-only, namespace-only, wildcard} x 2 types, x every incoming stanza of 3 types with every child sequence up to the tier's length over {A, B, C, D(unmatched), text}, x 6 handler read programs (none, one token, all, past the end, alternating); top-level Handle: every subset of 6 patterns x 7 element names; registration laws: duplicate / nil interface / nil func for IQ, Message, Presence, Handle. " +
			"Oracle: explicit reference model (the four-step cascade, 8 lines) decides which handlers must run in which order and what each can read. Non-trivial = distinct (pattern set with >= 2 patterns, stanza with >= 1 child).",
		Assumptions: []string{"the mux is driven the way the serve loop drives it: HandleXMPP(xmlstream.InnerElement(decoder), start)", "IQs whose first child is text, and non-result IQs without payload, are invalid for the router: only 'no handler is invoked for text' is checked"},
		Parts: func(tier string) []drv.Part {
			k, b := 2, 100*time.Second
			if tier == "thorough" {
				k, b = 3, 20*time.Minute
			}
			return []drv.Part{
				{Name: "message", Body: stanzaBody("message", k), CutDepth: 6, Budget: b},
				{Name: "presence", Body: stanzaBody("presence", k), CutDepth: 6, Budget: b},
				{Name: "iq", Body: stanzaBody("iq", k), CutDepth: 6, Budget: b},
				{Name: "iq-replies", Desc: "handlers registered for error and result IQs (replies are routed by their payload like requests)", Body: stanzaBodyTypes("iq", k, []string{"error", "result", "get"}), CutDepth: 6, Budget: b},
				{Name: "message-ns", Desc: "children that inherit the stanza namespace (body, show) against exact, local-name, namespace and type-only patterns", Body: stanzaNSBody("message", k), CutDepth: 6, Budget: b},
				{Name: "presence-ns", Desc: "the same for presences", Body: stanzaNSBody("presence", k), CutDepth: 6, Budget: b},
				{Name: "message-large", Desc: "a child with 255..2500 elements (510..5000 tokens) before / after a small one, two payload handlers, every read program", Body: largeBody("message"), CutDepth: 4, Budget: b},
				{Name: "presence-large", Desc: "the same for presences", Body: largeBody("presence"), CutDepth: 4, Budget: b},
				{Name: "top-level", Body: topBody, CutDepth: 4, Budget: b},
				{Name: "registration", Body: regBody, Workers: 1, Budget: b},
			}
		},
	})
}
