// Package drv is the check driver: property registry, worker processes,
// evidence, replays and known findings.
package drv

import (
	"bytes"
	"encoding/json"
	"fmt"
	"os"
	"os/exec"
	"path/filepath"
	"sort"
	"strconv"
	"strings"
	"sync"
	"time"

	"verif/nd"
)

// Part is one harness of a property, explored exhaustively on its own.
type Part struct {
	Name        string
	Desc        string
	Body        nd.Body
	MaxDev      int
	CutDepth    int           // depth at which the tree is cut for sharding (default 2)
	ShardLevels int           // >0: deviation-level sharding (see nd.Options)
	Workers     int           // worker processes (default 16; 1: in one process)
	Budget      time.Duration // wall-clock cap; hitting it yields exhaustive:false, not a failure
	Env         []string      // extra environment for workers
	// CrashIsolate: the worker records the vector of the execution in progress,
	// so that an unrecoverable crash of the worker process inside the library
	// (a panic in a goroutine the library spawned, a runtime fatal error) is
	// reported as a violation with that vector instead of an engine error.
	CrashIsolate bool
	// Race: the part is the free-running complement of the controlled parts. Its
	// workers are the -race build of the same binary (VERIF_RACE_EXE) running
	// with VS_FREE=1: the harness bodies execute on real goroutines with the
	// library's real synchronisation, outcomes are not judged, and every data
	// race the detector reports between two accesses made by the library is a
	// violation (signature race:<function>~<function>).
	Race bool
}

// Prop is a registered property check.
type Prop struct {
	ID          string
	Level       string // model_checking | exploration | fault_enumeration
	Rule        string
	Assumptions []string
	Parts       func(tier string) []Part
}

var registry = map[string]*Prop{}

// Register adds a property check.
func Register(p *Prop) { registry[strings.ToLower(p.ID)] = p }

func verifDir() string {
	if d := os.Getenv("VERIF_DIR"); d != "" {
		return d
	}
	return "/verif"
}

type knownEntry struct {
	Property  string `json:"property"`
	Signature string `json:"signature"`
	Status    string `json:"status"` // known | fixed
	Commit    string `json:"commit,omitempty"`
	What      string `json:"what"`
}

func loadKnown() []knownEntry {
	b, err := os.ReadFile(filepath.Join(verifDir(), "known_findings.json"))
	if err != nil {
		return nil
	}
	var f struct {
		Findings []knownEntry `json:"findings"`
	}
	if err := json.Unmarshal(b, &f); err != nil {
		fmt.Fprintln(os.Stderr, "known_findings.json:", err)
		os.Exit(2)
	}
	return f.Findings
}

type workerOut struct {
	Stats  *nd.Stats `json:"stats"`
	NT     string    `json:"nt_file"`
	States string    `json:"states_file"`
}

// AtExit runs before the process exits (profiling hook).
var AtExit = func() {}

// Main is the entry point of cmd/vcheck.
func Main() {
	defer AtExit()
	if len(os.Args) < 2 {
		usage()
	}
	switch os.Args[1] {
	case "check":
		if len(os.Args) < 4 {
			usage()
		}
		os.Exit(check(os.Args[2], os.Args[3]))
	case "worker":
		// worker <id> <tier> <part> <i> <n> <outdir>
		if len(os.Args) < 8 {
			usage()
		}
		rc := worker(os.Args[2], os.Args[3], os.Args[4], atoi(os.Args[5]), atoi(os.Args[6]), os.Args[7])
		AtExit()
		os.Exit(rc)
	case "replay":
		if len(os.Args) < 3 {
			usage()
		}
		os.Exit(replay(os.Args[2]))
	case "hasrace":
		// exit 0 iff the property has a free-running -race part in this tier
		if len(os.Args) >= 4 {
			if p := registry[strings.ToLower(os.Args[2])]; p != nil {
				tier := os.Args[3]
				if tier != "thorough" {
					tier = "quick"
				}
				for _, pt := range p.Parts(tier) {
					if pt.Race {
						os.Exit(0)
					}
				}
			}
		}
		os.Exit(1)
	case "list":
		var ids []string
		for id := range registry {
			ids = append(ids, id)
		}
		sort.Strings(ids)
		fmt.Println(strings.Join(ids, " "))
	default:
		usage()
	}
}

func usage() {
	fmt.Fprintln(os.Stderr, "usage: vcheck check <id> <quick|thorough> | replay <file> | list")
	os.Exit(2)
}

func atoi(s string) int { n, _ := strconv.Atoi(s); return n }

func findPart(p *Prop, tier, name string) *Part {
	for _, pt := range p.Parts(tier) {
		if pt.Name == name {
			pt := pt
			return &pt
		}
	}
	return nil
}

func worker(id, tier, part string, i, n int, outdir string) int {
	p := registry[strings.ToLower(id)]
	if p == nil {
		fmt.Fprintln(os.Stderr, "unknown property", id)
		return 2
	}
	pt := findPart(p, tier, part)
	if pt == nil {
		fmt.Fprintln(os.Stderr, "unknown part", part)
		return 2
	}
	opt := nd.Options{MaxDev: pt.MaxDev, Shard: i, NShards: n, CutDepth: pt.CutDepth, ShardLevels: pt.ShardLevels}
	if opt.CutDepth == 0 {
		opt.CutDepth = 2
	}
	if opt.ShardLevels > 0 && n > 1 && os.Getenv("VERIF_STATIC_SHARDS") == "" {
		// dynamic distribution of the shard jobs (see nd.Options.QueueDir)
		opt.QueueDir = filepath.Join(outdir, part+".queue")
		os.MkdirAll(opt.QueueDir, 0o755)
		if opt.ShardLevels > 2 {
			// the queue re-balances by itself (idle workers are handed subtrees),
			// two levels of seeding are enough and keep the jobs coarse
			opt.ShardLevels = 2
		}
	}
	if d := os.Getenv("VERIF_DEADLINE"); d != "" {
		ns, _ := strconv.ParseInt(d, 10, 64)
		opt.Deadline = time.Unix(0, ns)
	}
	base := filepath.Join(outdir, fmt.Sprintf("%s-%d", part, i))
	if pt.CrashIsolate {
		f, err := os.Create(base + ".cur")
		if err == nil {
			defer f.Close()
			opt.OnExec = func(vec []int) {
				b, _ := json.Marshal(vec)
				b = append(b, '\n')
				f.WriteAt(append(b, make([]byte, 8)...), 0)
				f.Truncate(int64(len(b)))
			}
		}
	}
	if pt.Race {
		body := pt.Body
		pt.Body = func(c *nd.Ctx) (res nd.Result) {
			defer func() {
				if e := recover(); e != nil {
					if _, ok := e.(nd.NondetError); ok {
						panic(e)
					}
					res = nd.Result{Outcome: "free-run:harness-panic"}
				}
			}()
			r := body(c)
			if r.Skip {
				return r
			}
			return nd.Result{Outcome: "free-run"}
		}
	}
	st := nd.Explore(pt.Body, opt)
	if pt.Race {
		// schedules are the runtime's here: a choice point that moved is not an error
		st.NondetErr = ""
		st.Found = map[string]*nd.Found{}
	}
	// confirm violations by replay
	for sig, f := range st.Found {
		if err := nd.Confirm(pt.Body, f, pt.MaxDev, 5); err != nil {
			st.NondetErr = fmt.Sprintf("violation %s not reproducible: %v", sig, err)
		}
	}
	os.WriteFile(base+".nt", nd.EncodeSet(st.NonTrivial), 0o644)
	os.WriteFile(base+".states", nd.EncodeSet(st.States), 0o644)
	b, _ := json.Marshal(workerOut{Stats: st, NT: base + ".nt", States: base + ".states"})
	if err := os.WriteFile(base+".json", b, 0o644); err != nil {
		fmt.Fprintln(os.Stderr, err)
		return 2
	}
	return 0
}

type partReport struct {
	Name        string           `json:"name"`
	Desc        string           `json:"desc,omitempty"`
	MaxDev      int              `json:"max_deviations"`
	Evaluations int64            `json:"evaluations"`
	Transitions int64            `json:"transitions"`
	States      int              `json:"states"`
	NonTrivial  int              `json:"distinct_nontrivial"`
	MaxDepth    int              `json:"max_depth"`
	Outcomes    map[string]int64 `json:"outcomes"`
	Exhaustive  bool             `json:"exhaustive"`
	CapNote     string           `json:"cap_note,omitempty"`
	WallS       float64          `json:"wall_s"`
	Workers     int              `json:"workers"`
}

func check(id, tier string) int {
	start := time.Now()
	p := registry[strings.ToLower(id)]
	if p == nil {
		fmt.Fprintln(os.Stderr, "unknown property", id)
		return 2
	}
	if tier != "quick" && tier != "thorough" {
		usage()
	}
	vd := verifDir()
	os.MkdirAll(filepath.Join(vd, "evidence"), 0o755)
	os.MkdirAll(filepath.Join(vd, "replays"), 0o755)
	scratch, err := os.MkdirTemp(os.Getenv("VERIF_SCRATCH"), "vcheck-")
	if err != nil {
		fmt.Fprintln(os.Stderr, err)
		return 2
	}
	defer os.RemoveAll(scratch)
	exe, _ := os.Executable()

	total := nd.Stats{Outcomes: map[string]int64{}, NonTrivial: map[uint64]struct{}{}, States: map[uint64]struct{}{}, Found: map[string]*nd.Found{}, Exhaustive: true}
	var reports []partReport
	foundPart := map[string]string{}
	foundDev := map[string]int{}
	broken := ""
	lostWorker := "" // a worker hung or died: an engine problem unless the others found a violation
	for _, pt := range p.Parts(tier) {
		if pt.Race && os.Getenv("VERIF_RACE_EXE") == "" {
			fmt.Fprintln(os.Stderr, "ENGINE ERROR: part", pt.Name, "needs the -race build of the harness (VERIF_RACE_EXE)")
			return 2
		}
		if only := os.Getenv("VERIF_PARTS"); only != "" && !strings.Contains(","+only+",", ","+pt.Name+",") {
			continue // debugging aid: run selected parts only (evidence then covers only those)
		}
		pstart := time.Now()
		n := pt.Workers
		if n == 0 {
			n = 16
		}
		budget := pt.Budget
		if budget == 0 {
			budget = 60 * time.Second
		}
		deadline := time.Now().Add(budget)
		var wg sync.WaitGroup
		errs := make([]string, n)
		for i := 0; i < n; i++ {
			wg.Add(1)
			go func(i int) {
				defer wg.Done()
				wexe := exe
				if pt.Race {
					wexe = os.Getenv("VERIF_RACE_EXE")
				}
				cmd := exec.Command(wexe, "worker", id, tier, pt.Name, strconv.Itoa(i), strconv.Itoa(n), scratch)
				cmd.Env = append(os.Environ(), "VERIF_DEADLINE="+strconv.FormatInt(deadline.UnixNano(), 10))
				cmd.Env = append(cmd.Env, pt.Env...)
				if pt.Race {
					cmd.Env = append(cmd.Env, "VS_FREE=1", "GORACE=halt_on_error=0 exitcode=0 history_size=3 log_path="+filepath.Join(scratch, fmt.Sprintf("%s-%d.race", pt.Name, i)))
				}
				var stderr bytes.Buffer
				cmd.Stderr = &stderr
				cmd.Stdout = &stderr
				done := make(chan error, 1)
				if err := cmd.Start(); err != nil {
					errs[i] = err.Error()
					return
				}
				go func() { done <- cmd.Wait() }()
				select {
				case err := <-done:
					if err != nil {
						errs[i] = fmt.Sprintf("worker %d: %v\n%s", i, err, tail(stderr.String(), 4000))
						// the job this worker held is lost: let the others stop
						// instead of waiting for it until the deadline
						nd.AbortQueue(filepath.Join(scratch, pt.Name+".queue"))
					}
				case <-time.After(budget + 120*time.Second):
					cmd.Process.Kill()
					errs[i] = fmt.Sprintf("worker %d: hung past its deadline (engine problem)\n%s", i, tail(stderr.String(), 4000))
				}
			}(i)
		}
		wg.Wait()
		ps := nd.Stats{Outcomes: map[string]int64{}, NonTrivial: map[uint64]struct{}{}, States: map[uint64]struct{}{}, Found: map[string]*nd.Found{}, Exhaustive: true}
		for i := 0; i < n; i++ {
			base := filepath.Join(scratch, fmt.Sprintf("%s-%d", pt.Name, i))
			if errs[i] != "" {
				if f := crashFound(pt, base, errs[i]); f != nil {
					cs := nd.Stats{Outcomes: map[string]int64{"worker-crash": 1}, NonTrivial: map[uint64]struct{}{}, States: map[uint64]struct{}{}, Found: map[string]*nd.Found{f.Sig: f}, Exhaustive: false, CapNote: "a worker process crashed inside the library; its shard was not completed"}
					ps.Merge(&cs)
					continue
				}
				if pt.Race {
					// free-running executions are not judged: a worker that died (a
					// runtime fatal error such as concurrent map access, in the harness's
					// own bookkeeping or after a race that was already reported) only
					// shortens the sample; the race reports it wrote are still read
					ps.Exhaustive = false
					ps.CapNote = "a free-running worker ended early; its remaining executions were not run"
					ps.Outcomes["free-run-worker-ended-early"]++
					continue
				}
				// a worker that hung or died outside the library did not finish its
				// share; what the other workers found and confirmed by replay still
				// stands (see the end of check)
				lostWorker = errs[i]
				ps.Exhaustive = false
				ps.CapNote = "a worker process did not finish; its share was not completed"
				continue
			}
			b, err := os.ReadFile(base + ".json")
			if err != nil {
				broken = err.Error()
				continue
			}
			var wo workerOut
			wo.Stats = &nd.Stats{}
			if err := json.Unmarshal(b, &wo); err != nil {
				broken = err.Error()
				continue
			}
			st := wo.Stats
			st.NonTrivial = map[uint64]struct{}{}
			st.States = map[uint64]struct{}{}
			if st.Outcomes == nil {
				st.Outcomes = map[string]int64{}
			}
			if b, err := os.ReadFile(base + ".nt"); err == nil {
				nd.DecodeSet(b, st.NonTrivial)
			}
			if b, err := os.ReadFile(base + ".states"); err == nil {
				nd.DecodeSet(b, st.States)
			}
			if st.NondetErr != "" {
				broken = "part " + pt.Name + ": " + st.NondetErr
			}
			ps.Merge(st)
		}
		if pt.Race {
			nrep, races := collectRaces(scratch, pt.Name)
			ps.Outcomes["race-reports-seen"] = int64(nrep)
			for sig, f := range races {
				ps.Found[sig] = f
			}
		}
		for sig := range ps.Found {
			if _, ok := foundPart[sig]; !ok {
				foundPart[sig] = pt.Name
				foundDev[sig] = pt.MaxDev
			}
		}
		reports = append(reports, partReport{Name: pt.Name, Desc: pt.Desc, MaxDev: pt.MaxDev, Evaluations: ps.Evaluations, Transitions: ps.Transitions,
			States: len(ps.States), NonTrivial: len(ps.NonTrivial), MaxDepth: ps.MaxDepth, Outcomes: ps.Outcomes, Exhaustive: ps.Exhaustive, CapNote: ps.CapNote,
			WallS: time.Since(pstart).Seconds(), Workers: n})
		// prefix outcome and nontrivial keys by part so that parts do not merge
		po := map[string]int64{}
		for k, v := range ps.Outcomes {
			po[pt.Name+":"+k] = v
		}
		ps.Outcomes = po
		total.Merge(&ps)
		fmt.Printf("part %-18s evals=%d transitions=%d states=%d nontrivial=%d outcomes=%d exhaustive=%v %.1fs\n", pt.Name, ps.Evaluations, ps.Transitions, len(ps.States), len(ps.NonTrivial), len(ps.Outcomes), ps.Exhaustive, time.Since(pstart).Seconds())
	}
	if broken != "" {
		fmt.Fprintln(os.Stderr, "ENGINE ERROR:", broken)
		return 2
	}
	if lostWorker != "" {
		if len(total.Found) == 0 {
			fmt.Fprintln(os.Stderr, "ENGINE ERROR:", lostWorker)
			return 2
		}
		// confirmed violations are reported; the lost share is noted
		fmt.Fprintln(os.Stderr, "ENGINE NOTE: a worker did not finish (its share of the exploration is missing):", strings.SplitN(lostWorker, "\n", 2)[0])
		total.Exhaustive = false
	}

	// classify violations
	known := loadKnown()
	unlisted := 0
	var sigs []string
	for sig := range total.Found {
		sigs = append(sigs, sig)
	}
	sort.Strings(sigs)
	var findings []map[string]any
	for _, sig := range sigs {
		f := total.Found[sig]
		rp := filepath.Join(vd, "replays", fmt.Sprintf("%s-%s.json", strings.ToUpper(id), nd.SigSafe(sig)))
		rb, _ := json.MarshalIndent(map[string]any{"property": strings.ToUpper(id), "tier": tier, "part": foundPart[sig], "max_dev": foundDev[sig],
			"signature": sig, "vector": f.Vector, "points": f.Points, "events": f.Notes, "message": f.Msg, "executions_with_signature": f.Count}, "", " ")
		os.WriteFile(rp, rb, 0o644)
		listed := false
		for _, k := range known {
			if strings.EqualFold(k.Property, id) && k.Signature == sig && k.Status == "known" {
				listed = true
				fmt.Printf("KNOWN-FINDING: property=%s %s [%s] replay=%s\n", strings.ToUpper(id), k.What, sig, rp)
			}
		}
		findings = append(findings, map[string]any{"signature": sig, "listed_known": listed, "replay": rp, "count": f.Count, "message": firstLine(f.Msg)})
		if !listed {
			unlisted++
			fmt.Printf("VIOLATION property=%s replay=%s\n", strings.ToUpper(id), rp)
			fmt.Printf("  signature: %s\n  %s\n", sig, firstLine(f.Msg))
			for _, n := range f.Notes {
				fmt.Printf("    | %s\n", n)
			}
		}
	}

	// evidence
	states := len(total.States)
	stateNote := "distinct canonical state keys observed (Ctx.Observe)"
	if states == 0 {
		states = int(total.Evaluations)
		stateNote = "no state key defined for this harness: states = distinct complete executions (leaves of the choice tree)"
	}
	var samples []any
	for _, s := range total.Samples {
		samples = append(samples, s)
	}
	if len(samples) == 0 {
		samples = append(samples, "no sample kept")
	}
	seed := atoi(os.Getenv("VERIF_SEED"))
	ev := map[string]any{
		"property_id": strings.ToUpper(id),
		"tier":        tier,
		"seed":        seed,
		"level":       p.Level,
		"coverage": map[string]any{
			"evaluations":                   total.Evaluations,
			"distinct_nontrivial":           len(total.NonTrivial),
			"rule":                          p.Rule,
			"samples":                       samples,
			"states":                        states,
			"states_note":                   stateNote,
			"transitions":                   total.Transitions,
			"traces_validated_against_impl": total.Evaluations,
			"traces_note":                   "every explored trace is an execution of the implementation in /repo (no separate model)",
			"exhaustive":                    total.Exhaustive,
			"cap_note":                      total.CapNote,
			"distinct_outcomes":             len(total.Outcomes),
			"outcomes":                      capMap(total.Outcomes, 60),
			"parts":                         reports,
			"findings":                      findings,
			"skipped_out_of_domain":         total.Skipped,
		},
		"assumptions": p.Assumptions,
		"wall_s":      time.Since(start).Seconds(),
		"violations":  unlisted,
	}
	eb, _ := json.MarshalIndent(ev, "", " ")
	if err := os.WriteFile(filepath.Join(vd, "evidence", strings.ToUpper(id)+".json"), eb, 0o644); err != nil {
		fmt.Fprintln(os.Stderr, err)
		return 2
	}
	fmt.Printf("%s %s: evaluations=%d states=%d transitions=%d nontrivial=%d outcomes=%d exhaustive=%v violations=%d wall=%.1fs\n",
		strings.ToUpper(id), tier, total.Evaluations, states, total.Transitions, len(total.NonTrivial), len(total.Outcomes), total.Exhaustive, unlisted, time.Since(start).Seconds())
	if unlisted > 0 {
		return 1
	}
	return 0
}

func capMap(m map[string]int64, n int) map[string]int64 {
	if len(m) <= n {
		return m
	}
	keys := make([]string, 0, len(m))
	for k := range m {
		keys = append(keys, k)
	}
	sort.Strings(keys)
	out := map[string]int64{}
	for _, k := range keys[:n] {
		out[k] = m[k]
	}
	out["…(truncated)"] = int64(len(m) - n)
	return out
}

func firstLine(s string) string {
	if i := strings.IndexByte(s, '\n'); i >= 0 {
		return s[:i]
	}
	return s
}

func tail(s string, n int) string {
	if len(s) > n {
		return s[len(s)-n:]
	}
	return s
}

func replay(file string) int {
	b, err := os.ReadFile(file)
	if err != nil {
		fmt.Fprintln(os.Stderr, err)
		return 2
	}
	var r struct {
		Property string `json:"property"`
		Tier     string `json:"tier"`
		Part     string `json:"part"`
		MaxDev   int    `json:"max_dev"`
		Vector   []int  `json:"vector"`
	}
	if err := json.Unmarshal(b, &r); err != nil {
		fmt.Fprintln(os.Stderr, err)
		return 2
	}
	p := registry[strings.ToLower(r.Property)]
	if p == nil {
		fmt.Fprintln(os.Stderr, "unknown property", r.Property)
		return 2
	}
	pt := findPart(p, r.Tier, r.Part)
	if pt == nil {
		fmt.Fprintln(os.Stderr, "unknown part", r.Part)
		return 2
	}
	if pt.Race {
		var m struct {
			Signature string `json:"signature"`
			Message   string `json:"message"`
		}
		json.Unmarshal(b, &m)
		fmt.Printf("data race reported by the race detector in a free-running execution of part %s (re-run the check to reproduce):\n%s\n", r.Part, m.Message)
		fmt.Printf("VIOLATION property=%s replay=%s\n  signature: %s\n", strings.ToUpper(r.Property), file, m.Signature)
		return 1
	}
	res, notes, _, err := nd.Replay(pt.Body, r.Vector, r.MaxDev)
	if err != nil {
		fmt.Fprintln(os.Stderr, err)
		return 2
	}
	for _, n := range notes {
		fmt.Println("  |", n)
	}
	fmt.Println("outcome:", res.Outcome)
	if res.Violation != nil {
		fmt.Printf("VIOLATION property=%s replay=%s\n  signature: %s\n  %s\n", strings.ToUpper(r.Property), file, res.Violation.Sig, res.Violation.Msg)
		return 1
	}
	fmt.Println("property held on this execution")
	return 0
}

// crashFound turns the crash of a CrashIsolate worker into a violation if the
// crash happened inside the library under test.
func crashFound(pt Part, base, stderr string) *nd.Found {
	if !pt.CrashIsolate || !strings.Contains(stderr, "mellium.im/xmpp") {
		return nil
	}
	b, err := os.ReadFile(base + ".cur")
	if err != nil {
		return nil
	}
	var vec []int
	if json.Unmarshal(bytes.TrimSpace(b), &vec) != nil {
		return nil
	}
	kind := "panic"
	if strings.Contains(stderr, "fatal error:") {
		kind = "fatal"
	}
	frame := ""
	for _, line := range strings.Split(stderr, "\n") {
		line = strings.TrimSpace(line)
		if strings.HasPrefix(line, "mellium.im/xmpp") && frame == "" {
			frame = line
			if k := strings.Index(frame, "("); k > 0 && !strings.Contains(frame[:k], ".(") {
				frame = frame[:k]
			} else if k := strings.LastIndex(frame, "("); k > 0 {
				frame = frame[:k]
			}
		}
	}
	first := ""
	for _, line := range strings.Split(stderr, "\n") {
		if strings.HasPrefix(line, "panic:") || strings.HasPrefix(line, "fatal error:") {
			first = line
			break
		}
	}
	return &nd.Found{Violation: nd.Violation{Sig: "crash:" + kind + "@" + frame, Msg: "worker process crashed inside the library: " + first + "\n" + tail(stderr, 3000)}, Vector: vec, Count: 1}
}

// collectRaces reads the race detector's log files of a Race part and returns
// the number of reports seen and, per signature, the reports in which both
// racing accesses were made by the library under test (the innermost frame of
// each access stack that belongs to either the library or the harness is the
// library's). Races the harness itself takes part in (its bookkeeping is
// written for the cooperative scheduler) say nothing about the library.
func collectRaces(dir, part string) (int, map[string]*nd.Found) {
	files, _ := filepath.Glob(filepath.Join(dir, part+"-*.race.*"))
	sort.Strings(files)
	out := map[string]*nd.Found{}
	total := 0
	for _, f := range files {
		b, err := os.ReadFile(f)
		if err != nil {
			continue
		}
		for _, rep := range strings.Split(string(b), "==================") {
			if !strings.Contains(rep, "WARNING: DATA RACE") {
				continue
			}
			total++
			owners := raceOwners(rep)
			if len(owners) < 2 {
				continue
			}
			lib := true
			for _, o := range owners[:2] {
				if !strings.HasPrefix(o, "mellium.im/xmpp") {
					lib = false
				}
			}
			if !lib {
				if os.Getenv("VERIF_RACE_DEBUG") != "" {
					fmt.Fprintf(os.Stderr, "race ignored (harness takes part): %s ~ %s\n", owners[0], owners[1])
				}
				continue
			}
			pair := []string{owners[0], owners[1]}
			sort.Strings(pair)
			sig := "race:" + pair[0] + "~" + pair[1]
			if e := out[sig]; e != nil {
				e.Count++
				continue
			}
			out[sig] = &nd.Found{Violation: nd.Violation{Sig: sig, Msg: "data race between two accesses of the library (free-running execution, race detector report):\n" + strings.TrimSpace(rep)}, Count: 1}
		}
	}
	return total, out
}

// raceOwners returns, for each access stack of a race report (the sections
// that start with "Read at", "Write at", "Previous read at", "Previous write
// at"), the function of the innermost frame that belongs to the library or the
// harness.
func raceOwners(rep string) []string {
	var owners []string
	lines := strings.Split(rep, "\n")
	for i := 0; i < len(lines); i++ {
		l := strings.TrimSpace(lines[i])
		if !(strings.HasPrefix(l, "Read at") || strings.HasPrefix(l, "Write at") || strings.HasPrefix(l, "Previous read at") || strings.HasPrefix(l, "Previous write at") ||
			strings.HasPrefix(l, "Atomic read at") || strings.HasPrefix(l, "Atomic write at") || strings.HasPrefix(l, "Previous atomic")) {
			continue
		}
		owner := ""
		for j := i + 1; j < len(lines); j++ {
			fl := strings.TrimSpace(lines[j])
			if fl == "" {
				break
			}
			if strings.HasPrefix(fl, "/") || strings.HasPrefix(fl, "<") {
				continue // file:line of the frame above
			}
			fn := fl
			if k := strings.LastIndex(fn, "("); k > 0 {
				fn = fn[:k]
			}
			if strings.HasPrefix(fn, "mellium.im/xmpp") || strings.HasPrefix(fn, "verif/") || strings.HasPrefix(fn, "main.") {
				owner = fn
				break
			}
		}
		owners = append(owners, owner)
	}
	return owners
}

// RacePart builds the free-running -race complement of a property's
// controlled parts: the same harness bodies, each of their harness-level
// choice vectors executed `repeat` times on real goroutines.
func RacePart(repeat, maxDev int, budget time.Duration, bodies ...nd.Body) Part {
	return Part{
		Name: "race",
		Desc: fmt.Sprintf("free-running complement: the harness bodies of the controlled parts executed on real goroutines by a -race build (%d bodies, every harness-level choice vector %d times); reports data races between two library accesses, judges nothing else", len(bodies), repeat),
		Body: func(c *nd.Ctx) nd.Result {
			c.Choose(repeat, "repetition")
			b := bodies[c.Choose(len(bodies), "body")]
			return b(c)
		},
		MaxDev: maxDev, Workers: 8, CutDepth: 3, Budget: budget, Race: true, Env: []string{"GOMAXPROCS=4"},
	}
}
