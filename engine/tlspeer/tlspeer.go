// Package tlspeer is a scripted peer that can switch to a real crypto/tls
// endpoint in the middle of the conversation, run in lock-step with the
// library under test (strict hand-over: the TLS endpoint only runs while the
// library is blocked in Read, and the library only continues when the endpoint
// is blocked in Read again), so that executions stay deterministic in structure.
package tlspeer

import (
	"crypto/ed25519"
	"crypto/rand"
	"crypto/tls"
	"crypto/x509"
	"crypto/x509/pkix"
	"fmt"
	"io"
	"math/big"
	"net"
	"sync"
	"time"
)

var (
	once     sync.Once
	cert     tls.Certificate
	rootPool *x509.CertPool
)

func setup() {
	once.Do(func() {
		// Ed25519: fixed-length signatures, so that the byte layout of the
		// handshake is the same in every run (fault offsets stay comparable)
		pub, key, err := ed25519.GenerateKey(rand.Reader)
		if err != nil {
			panic(err)
		}
		tmpl := &x509.Certificate{
			SerialNumber: big.NewInt(1), Subject: pkix.Name{CommonName: "verif test CA"},
			NotBefore: time.Now().Add(-time.Hour), NotAfter: time.Now().Add(1000 * time.Hour),
			KeyUsage: x509.KeyUsageDigitalSignature | x509.KeyUsageCertSign, ExtKeyUsage: []x509.ExtKeyUsage{x509.ExtKeyUsageServerAuth, x509.ExtKeyUsageClientAuth},
			BasicConstraintsValid: true, IsCA: true,
			DNSNames: []string{"example.com", "example.org", "other.example"},
			SubjectKeyId: []byte{1, 2, 3, 4},
		}
		der, err := x509.CreateCertificate(rand.Reader, tmpl, tmpl, pub, key)
		if err != nil {
			panic(err)
		}
		cert = tls.Certificate{Certificate: [][]byte{der}, PrivateKey: key}
		c, _ := x509.ParseCertificate(der)
		rootPool = x509.NewCertPool()
		rootPool.AddCert(c)
	})
}

// Roots returns a pool that trusts the peer's certificate.
func Roots() *x509.CertPool { setup(); return rootPool }

// pipeEnd is the TLS endpoint's view of the connection.
type pipeEnd struct {
	in      []byte
	feed    chan []byte   // library -> endpoint
	need    chan struct{} // endpoint -> driver: "blocked in Read, everything written so far is final"
	out     []byte        // bytes the endpoint wrote for the library
	eof     bool
	dropAll bool
}

func (p *pipeEnd) Read(b []byte) (int, error) {
	for len(p.in) == 0 {
		if p.eof {
			return 0, io.EOF
		}
		p.need <- struct{}{}
		d, ok := <-p.feed
		if !ok {
			p.eof = true
			return 0, io.EOF
		}
		p.in = append(p.in, d...)
	}
	n := copy(b, p.in)
	p.in = p.in[n:]
	return n, nil
}

func (p *pipeEnd) Write(b []byte) (int, error) {
	p.out = append(p.out, b...)
	return len(b), nil
}
func (p *pipeEnd) Close() error                     { return nil }
func (p *pipeEnd) LocalAddr() net.Addr              { return addr{} }
func (p *pipeEnd) RemoteAddr() net.Addr             { return addr{} }
func (p *pipeEnd) SetDeadline(time.Time) error      { return nil }
func (p *pipeEnd) SetReadDeadline(time.Time) error  { return nil }
func (p *pipeEnd) SetWriteDeadline(time.Time) error { return nil }

type addr struct{}

func (addr) Network() string { return "mem" }
func (addr) String() string  { return "tlspeer" }

// Server is a lock-step TLS server endpoint.
type Server struct {
	pipe *pipeEnd
	done chan struct{}
	// results
	SNI          string
	HelloSeen    bool
	HandshakeErr error
	Handshaken   bool
	App          func(decrypted string) string // what the server says in answer to application data ("" = nothing)
	AppLog       []string                      // decrypted data received
	started      bool
}

// NewServer returns a server whose application-level behaviour is app.
func NewServer(app func(decrypted string) string) *Server {
	setup()
	return &Server{App: app}
}

func (s *Server) start() {
	s.started = true
	s.pipe = &pipeEnd{feed: make(chan []byte), need: make(chan struct{})}
	s.done = make(chan struct{})
	cfg := &tls.Config{
		Certificates:           []tls.Certificate{cert},
		SessionTicketsDisabled: true,
		MinVersion:             tls.VersionTLS12,
		GetConfigForClient: func(h *tls.ClientHelloInfo) (*tls.Config, error) {
			s.SNI = h.ServerName
			s.HelloSeen = true
			return nil, nil
		},
	}
	go func() {
		defer close(s.done)
		c := tls.Server(s.pipe, cfg)
		if err := c.Handshake(); err != nil {
			s.HandshakeErr = err
			return
		}
		s.Handshaken = true
		buf := make([]byte, 16384)
		for {
			n, err := c.Read(buf)
			if n > 0 {
				in := string(buf[:n])
				s.AppLog = append(s.AppLog, in)
				if reply := s.App(in); reply != "" {
					if _, werr := c.Write([]byte(reply)); werr != nil {
						return
					}
				}
			}
			if err != nil {
				return
			}
		}
	}()
}

// Exchange hands the bytes the library wrote to the TLS endpoint, lets it run
// until it blocks again (or ends) and returns what it produced.
func (s *Server) Exchange(fromLib []byte) ([]byte, bool) {
	if !s.started {
		s.start()
		// the endpoint first asks for input
		select {
		case <-s.pipe.need:
		case <-s.done:
			return nil, false
		}
	}
	select {
	case s.pipe.feed <- fromLib:
	case <-s.done:
		return s.take(), false
	}
	select {
	case <-s.pipe.need:
		return s.take(), true
	case <-s.done:
		return s.take(), false
	}
}

func (s *Server) take() []byte {
	o := s.pipe.out
	s.pipe.out = nil
	return o
}

// Stop ends the endpoint goroutine.
func (s *Server) Stop() {
	if !s.started {
		return
	}
	select {
	case <-s.done:
		return
	default:
	}
	close(s.pipe.feed)
	for {
		select {
		case <-s.pipe.need:
			// it asked again after EOF handling; Read returns EOF from now on
		case <-s.done:
			return
		}
	}
}

var _ = fmt.Sprint
