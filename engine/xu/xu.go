// Package xu has small XML helpers shared by the harnesses (encoding/xml is
// the well-formedness judge and the tree parser).
package xu

import (
	"bytes"
	"encoding/xml"
	"fmt"
	"io"
	"sort"
	"strings"

	"mellium.im/xmlstream"
)

// Render encodes a token stream with the standard encoder.
func Render(r xml.TokenReader) ([]byte, error) {
	var b bytes.Buffer
	e := xml.NewEncoder(&b)
	if r != nil {
		if _, err := xmlstream.Copy(e, r); err != nil {
			return b.Bytes(), err
		}
	}
	err := e.Flush()
	return b.Bytes(), err
}

// Tokens reads all tokens from r (copied).
func Tokens(r xml.TokenReader) ([]xml.Token, error) {
	var out []xml.Token
	if r == nil {
		return nil, nil
	}
	for i := 0; i < 100000; i++ {
		t, err := r.Token()
		if t != nil {
			out = append(out, xml.CopyToken(t))
		}
		if err == io.EOF {
			return out, nil
		}
		if err != nil {
			return out, err
		}
		if t == nil {
			return out, fmt.Errorf("nil token with nil error")
		}
	}
	return out, fmt.Errorf("token reader does not end")
}

// Node is a parsed element tree (namespace declarations are not attributes).
type Node struct {
	Name     xml.Name
	Attr     []xml.Attr
	Children []*Node
	Text     string // for text nodes (Name.Local == "")
}

// Parse parses a complete document (or fragment with several roots) into trees.
// It fails on anything encoding/xml rejects.
func Parse(b []byte) ([]*Node, error) {
	d := xml.NewDecoder(bytes.NewReader(b))
	var roots []*Node
	var stack []*Node
	for {
		t, err := d.Token()
		if err == io.EOF {
			break
		}
		if err != nil {
			return nil, err
		}
		switch tt := t.(type) {
		case xml.StartElement:
			n := &Node{Name: tt.Name}
			seen := map[xml.Name]bool{}
			for _, a := range tt.Attr {
				// encoding/xml accepts duplicate attributes; XML does not
				if seen[a.Name] {
					return nil, fmt.Errorf("duplicate attribute %v on <%s>", a.Name, tt.Name.Local)
				}
				seen[a.Name] = true
				if a.Name.Space == "xmlns" || (a.Name.Space == "" && a.Name.Local == "xmlns") {
					continue
				}
				n.Attr = append(n.Attr, a)
			}
			sort.Slice(n.Attr, func(i, j int) bool {
				if n.Attr[i].Name.Space != n.Attr[j].Name.Space {
					return n.Attr[i].Name.Space < n.Attr[j].Name.Space
				}
				return n.Attr[i].Name.Local < n.Attr[j].Name.Local
			})
			if len(stack) > 0 {
				p := stack[len(stack)-1]
				p.Children = append(p.Children, n)
			} else {
				roots = append(roots, n)
			}
			stack = append(stack, n)
		case xml.EndElement:
			if len(stack) == 0 {
				return nil, fmt.Errorf("unbalanced end element")
			}
			stack = stack[:len(stack)-1]
		case xml.CharData:
			if len(stack) > 0 {
				p := stack[len(stack)-1]
				if k := len(p.Children); k > 0 && p.Children[k-1].Name.Local == "" {
					p.Children[k-1].Text += string(tt)
				} else {
					p.Children = append(p.Children, &Node{Text: string(tt)})
				}
			} else if strings.TrimSpace(string(tt)) != "" {
				return nil, fmt.Errorf("text outside root element")
			}
		}
	}
	if len(stack) != 0 {
		return nil, fmt.Errorf("unclosed element")
	}
	return roots, nil
}

// String gives a canonical rendering of a tree (for comparison and messages).
func (n *Node) String() string {
	var b strings.Builder
	n.write(&b)
	return b.String()
}

func (n *Node) write(b *strings.Builder) {
	if n.Name.Local == "" {
		fmt.Fprintf(b, "%q", n.Text)
		return
	}
	fmt.Fprintf(b, "<{%s}%s", n.Name.Space, n.Name.Local)
	for _, a := range n.Attr {
		fmt.Fprintf(b, " {%s}%s=%q", a.Name.Space, a.Name.Local, a.Value)
	}
	b.WriteString(">")
	for _, c := range n.Children {
		c.write(b)
	}
	b.WriteString("</>")
}

// WellFormed reports whether b is exactly one well-formed element.
func WellFormed(b []byte) error {
	roots, err := Parse(b)
	if err != nil {
		return err
	}
	if len(roots) != 1 {
		return fmt.Errorf("%d root elements", len(roots))
	}
	return nil
}

// Attr returns the value of an un-namespaced (or given-space) attribute.
func (n *Node) AttrVal(space, local string) (string, bool) {
	for _, a := range n.Attr {
		if a.Name.Local == local && a.Name.Space == space {
			return a.Value, true
		}
	}
	return "", false
}

// TokString renders a token list compactly.
func TokString(toks []xml.Token) string {
	var b strings.Builder
	for _, t := range toks {
		switch tt := t.(type) {
		case xml.StartElement:
			fmt.Fprintf(&b, "<{%s}%s", tt.Name.Space, tt.Name.Local)
			for _, a := range tt.Attr {
				fmt.Fprintf(&b, " {%s}%s=%q", a.Name.Space, a.Name.Local, a.Value)
			}
			b.WriteString(">")
		case xml.EndElement:
			fmt.Fprintf(&b, "</{%s}%s>", tt.Name.Space, tt.Name.Local)
		case xml.CharData:
			fmt.Fprintf(&b, "%q", string(tt))
		default:
			fmt.Fprintf(&b, "[%T]", t)
		}
	}
	return b.String()
}

// StripNS returns the tokens of a decoded document without namespace
// declaration attributes (so that re-encoding does not duplicate them).
func StripNS(doc string) []xml.Token {
	toks, _ := Tokens(xml.NewDecoder(strings.NewReader(doc)))
	for i, t := range toks {
		if se, ok := t.(xml.StartElement); ok {
			var attrs []xml.Attr
			for _, a := range se.Attr {
				if a.Name.Space == "xmlns" || (a.Name.Space == "" && a.Name.Local == "xmlns") {
					continue
				}
				attrs = append(attrs, a)
			}
			se.Attr = attrs
			toks[i] = se
		}
	}
	return toks
}

// SliceReader replays a token slice.
type SliceReader struct {
	Toks []xml.Token
	i    int
}

func (r *SliceReader) Token() (xml.Token, error) {
	if r.i >= len(r.Toks) {
		return nil, io.EOF
	}
	t := r.Toks[r.i]
	r.i++
	return xml.CopyToken(t), nil
}

// Reader returns a reader over the tokens of doc without xmlns attributes.
func Reader(doc string) xml.TokenReader {
	if doc == "" {
		return nil
	}
	return &SliceReader{Toks: StripNS(doc)}
}
