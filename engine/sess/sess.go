// Package sess builds real xmpp.Session values over scripted in-memory
// connections using only the public API.
package sess

import (
	"strings"
	"bytes"
	"context"
	"encoding/xml"
	"fmt"
	"io"
	"mellium.im/xmlstream"

	"mellium.im/xmpp"
	"mellium.im/xmpp/jid"
	"mellium.im/xmpp/stanza"
	"mellium.im/xmpp/stream"
)

// Header returns a stream header as a peer would send it.
func Header(ns string) string {
	return `<stream:stream xmlns='` + ns + `' xmlns:stream='http://etherx.jabber.org/streams' version='1.0' id='sid1' from='example.net' to='me@example.net'>`
}

var (
	Location = jid.MustParse("example.net")
	Origin   = jid.MustParse("me@example.net/res")
)

// ReadyNegotiator consumes the peer's stream header from the input (so that
// the XML decoder has the stream element open, as after a real negotiation)
// and declares the session ready without any further I/O.
func ReadyNegotiator(ns string, state xmpp.SessionState) xmpp.Negotiator {
	return func(ctx context.Context, in, out *stream.Info, s *xmpp.Session, data interface{}) (xmpp.SessionState, io.ReadWriter, interface{}, error) {
		rc := s.TokenReader()
		defer rc.Close()
		tok, err := rc.Token()
		if err != nil {
			return 0, nil, nil, err
		}
		start, ok := tok.(xml.StartElement)
		if !ok || start.Name.Local != "stream" {
			return 0, nil, nil, fmt.Errorf("sess: expected stream header, got %T %v", tok, tok)
		}
		in.XMLNS = ns
		out.XMLNS = ns
		in.Name = start.Name
		return state | xmpp.Ready, nil, nil, nil
	}
}

// RW is a plain scripted connection: fixed input, recorded output.
type RW struct {
	In  *bytes.Reader
	Out bytes.Buffer
}

func (rw *RW) Read(p []byte) (int, error)  { return rw.In.Read(p) }
func (rw *RW) Write(p []byte) (int, error) { return rw.Out.Write(p) }

// New returns a ready initiator session (client or server namespace) whose
// input is header+input. The session's own address is Origin.
func New(ns string, input string) (*xmpp.Session, *RW, error) {
	rw := &RW{In: bytes.NewReader([]byte(Header(ns) + input))}
	var st xmpp.SessionState
	if ns == stanza.NSServer {
		st = xmpp.S2S
	}
	s, err := xmpp.NewSession(context.Background(), Location, Origin, rw, st, ReadyNegotiator(ns, 0))
	return s, rw, err
}

// NewRebound is like New, but the session starts out knowing only its domain
// and learns its address during negotiation (as resource binding does for an
// anonymous or server-assigned login): the negotiator calls UpdateAddr(Origin).
func NewRebound(ns string, input string) (*xmpp.Session, *RW, error) {
	rw := &RW{In: bytes.NewReader([]byte(Header(ns) + input))}
	var st xmpp.SessionState
	if ns == stanza.NSServer {
		st = xmpp.S2S
	}
	ready := ReadyNegotiator(ns, 0)
	neg := func(ctx context.Context, in, out *stream.Info, s *xmpp.Session, data interface{}) (xmpp.SessionState, io.ReadWriter, interface{}, error) {
		s.UpdateAddr(Origin)
		return ready(ctx, in, out, s, data)
	}
	s, err := xmpp.NewSession(context.Background(), Location, Location, rw, st, neg)
	return s, rw, err
}

// NewLang is like New, but the peer's stream header carried xml:lang='de' and
// the negotiator recorded it, as the default negotiator does.
func NewLang(ns string, input string) (*xmpp.Session, *RW, error) {
	hdr := strings.Replace(Header(ns), " version=", " xml:lang='de' version=", 1)
	rw := &RW{In: bytes.NewReader([]byte(hdr + input))}
	var st xmpp.SessionState
	if ns == stanza.NSServer {
		st = xmpp.S2S
	}
	ready := ReadyNegotiator(ns, 0)
	neg := func(ctx context.Context, in, out *stream.Info, s *xmpp.Session, data interface{}) (xmpp.SessionState, io.ReadWriter, interface{}, error) {
		in.Lang, out.Lang = "de", "de"
		return ready(ctx, in, out, s, data)
	}
	s, err := xmpp.NewSession(context.Background(), Location, Origin, rw, st, neg)
	return s, rw, err
}

// NewReceived is like New for the receiving side of a stream: the session
// was initiated by the peer (Origin) towards us (Location).
func NewReceived(ns string, input string) (*xmpp.Session, *RW, error) {
	rw := &RW{In: bytes.NewReader([]byte(Header(ns) + input))}
	st := xmpp.Received
	if ns == stanza.NSServer {
		st |= xmpp.S2S
	}
	s, err := xmpp.NewSession(context.Background(), Location, Origin, rw, st, ReadyNegotiator(ns, 0))
	return s, rw, err
}

// NewReceivedNegotiated returns a received session established by the library's
// own default negotiator: nothing is known in advance, the addresses come from
// the peer's stream header (which names only us), and one trivial feature
// selected by the peer makes the session ready.
func NewReceivedNegotiated(ns string, input string) (*xmpp.Session, *RW, error) {
	hdr := `<stream:stream xmlns='` + ns + `' xmlns:stream='http://etherx.jabber.org/streams' version='1.0' to='example.net'>`
	rw := &RW{In: bytes.NewReader([]byte(hdr + `<r xmlns='urn:verif:ready'/>` + input))}
	var st xmpp.SessionState
	if ns == stanza.NSServer {
		st = xmpp.S2S
	}
	ready := xmpp.StreamFeature{
		Name: xml.Name{Space: "urn:verif:ready", Local: "r"},
		List: func(ctx context.Context, e xmlstream.TokenWriter, start xml.StartElement) (bool, error) {
			if err := e.EncodeToken(start); err != nil {
				return true, err
			}
			return true, e.EncodeToken(start.End())
		},
		Parse: func(ctx context.Context, d *xml.Decoder, start *xml.StartElement) (bool, interface{}, error) {
			return true, nil, d.Skip()
		},
		Negotiate: func(ctx context.Context, s *xmpp.Session, data interface{}) (xmpp.SessionState, io.ReadWriter, error) {
			r := s.TokenReader()
			defer r.Close()
			if _, err := r.Token(); err != nil {
				return 0, nil, err
			}
			return xmpp.Ready, nil, xmlstream.Skip(r)
		},
	}
	s, err := xmpp.ReceiveSession(context.Background(), rw, st, xmpp.NewNegotiator(func(*xmpp.Session, *xmpp.StreamConfig) xmpp.StreamConfig {
		return xmpp.StreamConfig{Features: []xmpp.StreamFeature{ready}}
	}))
	return s, rw, err
}

// NewUnaddressed is like New for a received session that knows no address at
// all (the peer's stream header carried neither to nor from).
func NewUnaddressed(ns string, input string) (*xmpp.Session, *RW, error) {
	rw := &RW{In: bytes.NewReader([]byte(Header(ns) + input))}
	st := xmpp.Received
	if ns == stanza.NSServer {
		st |= xmpp.S2S
	}
	s, err := xmpp.NewSession(context.Background(), jid.JID{}, jid.JID{}, rw, st, ReadyNegotiator(ns, 0))
	return s, rw, err
}

// NewRW is like New for an arbitrary ReadWriter; the header is consumed from it.
func NewRW(ns string, rw io.ReadWriter, state xmpp.SessionState) (*xmpp.Session, error) {
	if ns == stanza.NSServer {
		state |= xmpp.S2S
	}
	return xmpp.NewSession(context.Background(), Location, Origin, rw, state, ReadyNegotiator(ns, 0))
}

// Reactive is a scripted peer that is not a goroutine: whenever the library
// reads and nothing is buffered, Step is asked what the peer says next, given
// what the library wrote since the previous step. Returning "" (and nil)
// means the peer closes the connection (io.EOF).
type Reactive struct {
	Step    func(step int, written string) (string, error)
	out     []byte
	seen    int
	buf     []byte
	step    int
	ReadErr error // sticky error once returned
	// WriteFail, if >= 0, makes the n-th Write call (0-based) fail.
	WriteFail int
	writes    int
	Events    []string
}

// NewReactive returns a Reactive with write faults disabled.
func NewReactive(step func(step int, written string) (string, error)) *Reactive {
	return &Reactive{Step: step, WriteFail: -1}
}

func (r *Reactive) Read(p []byte) (int, error) {
	if len(r.buf) == 0 {
		if r.ReadErr != nil {
			return 0, r.ReadErr
		}
		w := string(r.out[r.seen:])
		r.seen = len(r.out)
		if w != "" {
			r.Events = append(r.Events, "lib: "+w)
		}
		reply, err := r.Step(r.step, w)
		r.step++
		if err == nil && reply == "" {
			err = io.EOF
		}
		if reply != "" {
			r.Events = append(r.Events, "peer: "+reply)
		}
		if err != nil {
			r.Events = append(r.Events, "peer: "+err.Error())
			r.ReadErr = err
			if reply == "" {
				return 0, err
			}
		}
		r.buf = []byte(reply)
	}
	n := copy(p, r.buf)
	r.buf = r.buf[n:]
	return n, nil
}

func (r *Reactive) Write(p []byte) (int, error) {
	if r.WriteFail >= 0 && r.writes == r.WriteFail {
		r.writes++
		r.Events = append(r.Events, "write fault")
		return 0, fmt.Errorf("sess: injected write error")
	}
	r.writes++
	r.out = append(r.out, p...)
	return len(p), nil
}

// Written returns everything the library wrote.
func (r *Reactive) Written() string { return string(r.out) }

// Unseen returns what was written after the last Step.
func (r *Reactive) Unseen() string {
	return string(r.out[r.seen:])
}
