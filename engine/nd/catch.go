package nd

import (
	"fmt"
	"runtime"
	"strings"
)

// Panic describes a recovered panic.
type Panic struct {
	Value string
	Frame string // top frame inside the library under test ("" if none)
	Stack string
}

// Catch runs f and reports a panic raised by it, if any.  NondetError panics
// (engine errors) are re-raised.
func Catch(f func()) (p *Panic) {
	defer func() {
		if e := recover(); e != nil {
			if ne, ok := e.(NondetError); ok {
				panic(ne)
			}
			p = NewPanic(e, 3)
		}
	}()
	f()
	return nil
}

// NewPanic captures the current stack (call it from a deferred function).
func NewPanic(e any, skip int) *Panic {
	pcs := make([]uintptr, 64)
	n := runtime.Callers(skip, pcs)
	frames := runtime.CallersFrames(pcs[:n])
	var sb strings.Builder
	frame := ""
	for {
		fr, more := frames.Next()
		fmt.Fprintf(&sb, "%s\n\t%s:%d\n", fr.Function, fr.File, fr.Line)
		if frame == "" && strings.HasPrefix(fr.Function, "mellium.im/xmpp") {
			frame = fr.Function
		}
		if !more {
			break
		}
	}
	return &Panic{Value: fmt.Sprint(e), Frame: frame, Stack: sb.String()}
}

// Kind maps a panic message to a short class.
func (p *Panic) Kind() string {
	v := p.Value
	switch {
	case strings.Contains(v, "index out of range"):
		return "index"
	case strings.Contains(v, "slice bounds out of range"):
		return "slice-bounds"
	case strings.Contains(v, "nil pointer dereference"):
		return "nil-deref"
	case strings.Contains(v, "interface conversion"):
		return "type-assertion"
	case strings.Contains(v, "closed channel"):
		return "closed-channel"
	case strings.Contains(v, "nil map"):
		return "nil-map"
	case strings.Contains(v, "makeslice"):
		return "makeslice"
	}
	if len(v) > 40 {
		v = v[:40]
	}
	return v
}

// Sig is the known-findings signature of a panic.
func (p *Panic) Sig() string {
	f := p.Frame
	if f == "" {
		f = "outside-library"
	}
	return "panic@" + f + ":" + p.Kind()
}

// Violation converts the panic into a violation.
func (p *Panic) Violation() *Violation {
	return &Violation{Sig: p.Sig(), Msg: "panic: " + p.Value + "\n" + p.Stack}
}
