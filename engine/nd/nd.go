// Package nd is a stateless, exhaustive explorer for nondeterministic Go
// programs.  A harness body calls Ctx.Choose wherever the environment, the
// input generator or a scheduler has a choice; Explore re-executes the body
// once per leaf of the resulting choice tree (depth first, lexicographic),
// within a bound on the accumulated "deviation" cost of non-default choices.
//
// Nothing here samples: every vector of choices within the bound is executed
// exactly once, unless the deadline is hit, in which case Stats.Exhaustive is
// false.
package nd

import (
	"bufio"
	"encoding/binary"
	"encoding/json"
	"fmt"
	"hash/fnv"
	"io"
	"os"
	"path/filepath"
	"sort"
	"strings"
	"syscall"
	"time"
)

// Point is one recorded choice point of an execution.
type Point struct {
	N      int    `json:"n"`
	Label  string `json:"label"`
	Cost   int    `json:"cost,omitempty"`
	Choice int    `json:"choice"`
}

// NondetError is the panic value raised when a replayed prefix does not meet
// the same choice points as the execution it was taken from.  It is always an
// engine/harness problem (exit 2), never a verdict.
type NondetError struct{ Msg string }

func (e NondetError) Error() string { return "nondeterminism: " + e.Msg }

// Ctx is handed to the body for one execution.
type Ctx struct {
	prefix []int
	expect []Point // expected (n,label) for the replayed prefix, may be shorter
	pts    []Point
	dev    int
	notes  []string
	keep   bool // keep notes (replay / samples)
	obs    []uint64
	bound  int
}

// Choose is a free choice among n alternatives; 0 is the default answer.
func (c *Ctx) Choose(n int, label string) int { return c.ChooseCost(n, label, 0) }

// ChooseCost is a choice whose alternatives i>0 each cost `cost` deviations.
// Alternatives that would exceed the deviation bound are never taken by the
// explorer.
func (c *Ctx) ChooseCost(n int, label string, cost int) int {
	if n <= 0 {
		panic(fmt.Sprintf("nd: Choose(%d,%q)", n, label))
	}
	i := len(c.pts)
	ch := 0
	if i < len(c.prefix) {
		ch = c.prefix[i]
		if ch >= n || ch < 0 {
			panic(NondetError{fmt.Sprintf("point %d %q: replayed choice %d out of range %d", i, label, ch, n)})
		}
		if i < len(c.expect) {
			if e := c.expect[i]; e.N != n || e.Label != label {
				panic(NondetError{fmt.Sprintf("point %d: expected (%d,%q) got (%d,%q)", i, e.N, e.Label, n, label)})
			}
		}
	}
	c.pts = append(c.pts, Point{N: n, Label: label, Cost: cost, Choice: ch})
	if ch > 0 {
		c.dev += cost
	}
	return ch
}

// Deviations returns the deviation cost accumulated so far in this execution.
func (c *Ctx) Deviations() int { return c.dev }

// Remaining returns how many more deviations the bound allows.
func (c *Ctx) Remaining() int { return c.bound - c.dev }

// Observe records a canonical state key reached by this execution (counted as
// a distinct state in the statistics).
func (c *Ctx) Observe(key string) {
	h := fnv.New64a()
	h.Write([]byte(key))
	c.obs = append(c.obs, h.Sum64())
}

// Note appends a line to the decoded event list of this execution (kept only
// for replays and samples).
func (c *Ctx) Note(format string, a ...any) {
	if c.keep {
		c.notes = append(c.notes, fmt.Sprintf(format, a...))
	}
}

// Keeping reports whether notes are kept (so a body can skip costly formatting).
func (c *Ctx) Keeping() bool { return c.keep }

// Vector returns the choices made so far.
func (c *Ctx) Vector() []int {
	v := make([]int, len(c.pts))
	for i, p := range c.pts {
		v[i] = p.Choice
	}
	return v
}

// Violation describes a failed oracle clause.
type Violation struct {
	Sig string `json:"sig"` // classifier: failing call site / input class
	Msg string `json:"msg"`
}

// Result is what a body returns for one execution.
type Result struct {
	Outcome    string     // outcome class (few distinct values)
	NonTrivial string     // non-empty: key of the non-trivial case this execution exercised
	Violation  *Violation // nil: property held on this execution
	Skip       bool       // execution is outside the harness's domain (not counted)
}

// Body is a harness.
type Body func(c *Ctx) Result

// Options for Explore.
type Options struct {
	MaxDev   int       // bound on the accumulated deviation cost
	Deadline time.Time // zero: none
	Shard    int       // this worker's index
	NShards  int       // number of workers (0/1: no sharding)
	CutDepth int       // depth at which the tree is cut into shard prefixes
	// ShardLevels > 0 selects deviation-level sharding instead: the tree is cut
	// below the all-default execution into the subtrees rooted at its
	// single-deviation children (recursively ShardLevels times). With deviation
	// bounding nearly the whole tree hangs below the default prefix, so depth
	// cuts balance badly; these subtrees are many and small.
	ShardLevels int
	// QueueDir (with ShardLevels): instead of every worker enumerating the
	// whole shard frontier and taking idx%NShards of it, the workers share a
	// work queue kept in this directory (files under an exclusive lock). A job
	// is a prefix and a level; a job below ShardLevels runs the default
	// execution of its prefix and pushes its single-deviation children, a job
	// at ShardLevels explores its whole subtree. The executions performed are
	// exactly those of the static split, each by exactly one worker; heavy
	// subtrees no longer leave the other workers idle and the frontier is
	// expanded once instead of once per worker.
	QueueDir string
	MaxViol  int                // stop after this many distinct violation signatures (default 20)
	Samples  int                // number of sample executions to keep (default 4)
	OnExec   func(vector []int) // called before every execution (crash isolation)
}

// Found is a violation together with the execution that shows it.
type Found struct {
	Violation
	Vector []int    `json:"vector"`
	Points []Point  `json:"points,omitempty"`
	Notes  []string `json:"notes,omitempty"`
	Cost   int      `json:"cost"`
	Count  int      `json:"count"` // executions with this signature
}

// Sample is a decoded execution kept for the evidence file.
type Sample struct {
	Vector  []int    `json:"vector"`
	Notes   []string `json:"notes,omitempty"`
	Outcome string   `json:"outcome"`
}

// Stats is the coverage statement of one exploration.
type Stats struct {
	Evaluations int64               `json:"evaluations"`
	Skipped     int64               `json:"skipped"`
	Transitions int64               `json:"transitions"`
	MaxDepth    int                 `json:"max_depth"`
	Outcomes    map[string]int64    `json:"outcomes"`
	NonTrivial  map[uint64]struct{} `json:"-"`
	States      map[uint64]struct{} `json:"-"`
	Found       map[string]*Found   `json:"found,omitempty"`
	Samples     []Sample            `json:"samples,omitempty"`
	Exhaustive  bool                `json:"exhaustive"`
	CapNote     string              `json:"cap_note,omitempty"`
	NondetErr   string              `json:"nondet_err,omitempty"`
}

func hash64(s string) uint64 {
	h := fnv.New64a()
	h.Write([]byte(s))
	return h.Sum64()
}

func newStats() *Stats {
	return &Stats{Outcomes: map[string]int64{}, NonTrivial: map[uint64]struct{}{}, States: map[uint64]struct{}{}, Found: map[string]*Found{}, Exhaustive: true}
}

type runner struct {
	body Body
	opt  Options
	ctx  Ctx
}

// runChecked is run, but a nondeterminism error is enriched with the trace of
// the previous execution (the one the prefix was taken from) and the partial
// trace of this one (debugging aid, ND_KEEPALL=1).
func (r *runner) runChecked(prefix []int, expect []Point, keep bool, prev []string) (res Result, c *Ctx) {
	if !keepAll {
		return r.run(prefix, expect, keep)
	}
	defer func() {
		if e := recover(); e != nil {
			if ne, ok := e.(NondetError); ok {
				panic(NondetError{Msg: ne.Msg + "\nPREVIOUS EXECUTION:\n" + strings.Join(prev, "\n") + "\nTHIS EXECUTION SO FAR:\n" + strings.Join(r.ctx.notes, "\n")})
			}
			panic(e)
		}
	}()
	return r.run(prefix, expect, keep)
}

// run executes the body once with the given prefix.
func (r *runner) run(prefix []int, expect []Point, keep bool) (res Result, c *Ctx) {
	c = &r.ctx
	c.prefix = prefix
	c.expect = expect
	c.pts = c.pts[:0]
	c.dev = 0
	c.notes = nil
	c.keep = keep
	c.obs = c.obs[:0]
	c.bound = r.opt.MaxDev
	res = r.body(c)
	if len(c.pts) < len(prefix) {
		panic(NondetError{fmt.Sprintf("execution ended after %d points, prefix has %d", len(c.pts), len(prefix))})
	}
	return res, c
}

// next computes the lexicographically next vector after the execution in pts,
// changing only positions >= floor and < ceil (ceil<0: no limit); nil when the
// subtree is exhausted.
func next(pts []Point, floor, ceil, maxDev int) []int {
	hi := len(pts)
	if ceil >= 0 && ceil < hi {
		hi = ceil
	}
	// deviation before each position
	dev := 0
	devBefore := make([]int, len(pts)+1)
	for i, p := range pts {
		devBefore[i] = dev
		if p.Choice > 0 {
			dev += p.Cost
		}
	}
	for i := hi - 1; i >= floor; i-- {
		p := pts[i]
		if p.Choice+1 < p.N && devBefore[i]+p.Cost <= maxDev {
			v := make([]int, i+1)
			for j := 0; j < i; j++ {
				v[j] = pts[j].Choice
			}
			v[i] = p.Choice + 1
			return v
		}
	}
	return nil
}

var selfCheck = os.Getenv("ND_SELFCHECK") == "1"
var keepAll = os.Getenv("ND_KEEPALL") == "1"
var lastNotes []string

// Explore runs the body over its whole choice tree (this worker's shard of it).
func Explore(body Body, opt Options) (st *Stats) {
	if opt.MaxViol == 0 {
		opt.MaxViol = 20
	}
	if opt.Samples == 0 {
		opt.Samples = 4
	}
	st = newStats()
	r := &runner{body: body, opt: opt}
	var curVec []int
	defer func() {
		if e := recover(); e != nil {
			if ne, ok := e.(NondetError); ok {
				st.NondetErr = fmt.Sprintf("%s (while replaying prefix %v)", ne.Msg, curVec)
				st.Exhaustive = false
				return
			}
			panic(e)
		}
	}()

	// Enumerate the frontier at CutDepth; shard by index.
	var roots [][]int
	leafOnly := map[int]bool{} // index into roots: run only this one execution
	var nextRoot func() (root []int, leaf bool, ok bool)
	var q *workQueue
	var leafPts []Point // choice points of the leaf execution just performed
	if opt.NShards > 1 && opt.ShardLevels > 0 && opt.QueueDir != "" {
		q = &workQueue{dir: opt.QueueDir}
		defer func() {
			if e := recover(); e != nil {
				q.abort()
				panic(e)
			}
			if !st.Exhaustive {
				q.abort()
			}
		}()
		var cur *qJob
		nextRoot = func() ([]int, bool, bool) {
			// finish the previous job: a job below the last level hands its
			// single-deviation children on
			var push []qJob
			if cur != nil && cur.Level < opt.ShardLevels {
				dev := 0
				for i, p := range leafPts {
					if i >= len(cur.Prefix) {
						for alt := 1; alt < p.N; alt++ {
							if dev+p.Cost > opt.MaxDev {
								break
							}
							v := make([]int, i+1)
							for k := 0; k < i; k++ {
								v[k] = leafPts[k].Choice
							}
							v[i] = alt
							push = append(push, qJob{Prefix: v, Level: cur.Level + 1})
						}
					}
					if p.Choice > 0 {
						dev += p.Cost
					}
				}
			}
			j, state := q.next(push, cur != nil, opt.Deadline)
			cur = j
			switch state {
			case qAborted:
				st.Exhaustive = false
				if st.CapNote == "" {
					st.CapNote = "another worker stopped early (deadline or violation cap)"
				}
				return nil, false, false
			case qDone:
				return nil, false, false
			}
			return j.Prefix, j.Level < opt.ShardLevels, true
		}
	} else if opt.NShards > 1 && opt.ShardLevels > 0 {
		type job struct {
			prefix []int
			leaf   bool
		}
		jobs := []job{{prefix: []int{}}}
		for l := 0; l < opt.ShardLevels; l++ {
			var nextJobs []job
			for _, j := range jobs {
				if j.leaf {
					nextJobs = append(nextJobs, j)
					continue
				}
				_, c := r.run(j.prefix, nil, false)
				pts := append([]Point(nil), c.pts...)
				nextJobs = append(nextJobs, job{prefix: j.prefix, leaf: true})
				dev := 0
				for i, p := range pts {
					if i >= len(j.prefix) {
						for alt := 1; alt < p.N; alt++ {
							if dev+p.Cost > opt.MaxDev {
								break
							}
							v := make([]int, i+1)
							for k := 0; k < i; k++ {
								v[k] = pts[k].Choice
							}
							v[i] = alt
							nextJobs = append(nextJobs, job{prefix: v})
						}
					}
					if p.Choice > 0 {
						dev += p.Cost
					}
				}
				if !opt.Deadline.IsZero() && time.Now().After(opt.Deadline) {
					st.Exhaustive = false
					st.CapNote = "deadline hit while enumerating the shard frontier"
					return st
				}
			}
			jobs = nextJobs
		}
		{
			for idx, j := range jobs {
				if idx%opt.NShards == opt.Shard {
					if j.leaf {
						leafOnly[len(roots)] = true
					}
					roots = append(roots, j.prefix)
				}
			}
		}
	} else if opt.NShards > 1 && opt.CutDepth > 0 {
		var vec []int
		var exp []Point
		idx := 0
		for {
			_, c := r.run(vec, exp, false)
			d := len(c.pts)
			if d > opt.CutDepth {
				d = opt.CutDepth
			}
			if idx%opt.NShards == opt.Shard {
				root := make([]int, d)
				for j := 0; j < d; j++ {
					root[j] = c.pts[j].Choice
				}
				roots = append(roots, root)
			}
			idx++
			exp = append(exp[:0], c.pts...)
			vec = next(c.pts, 0, opt.CutDepth, opt.MaxDev)
			if vec == nil {
				break
			}
			if !opt.Deadline.IsZero() && time.Now().After(opt.Deadline) {
				st.Exhaustive = false
				st.CapNote = "deadline hit while enumerating the shard frontier"
				return st
			}
		}
	} else {
		if opt.NShards > 1 && opt.Shard != 0 {
			return st
		}
		roots = [][]int{nil}
	}

	n := 0
	if nextRoot == nil {
		ri := -1
		nextRoot = func() ([]int, bool, bool) {
			ri++
			if ri >= len(roots) {
				return nil, false, false
			}
			return roots[ri], leafOnly[ri], true
		}
	}
	for {
		root, leaf, ok := nextRoot()
		if !ok {
			break
		}
		vec := root
		if vec == nil {
			vec = []int{}
		}
		floor := len(root)
		var exp []Point
		for vec != nil {
			// keep notes for the first few executions (samples), spread out
			keep := len(st.Samples) < opt.Samples && (n == 0 || n == 7 || n == 101 || n == 1009 || n == 20011)
			if opt.OnExec != nil {
				opt.OnExec(vec)
			}
			curVec = vec
			if selfCheck {
				_, c1 := r.run(vec, exp, true)
				p1 := append([]Point(nil), c1.pts...)
				n1 := append([]string(nil), c1.notes...)
				_, c2 := r.run(vec, exp, true)
				same := len(p1) == len(c2.pts)
				for i := 0; same && i < len(p1); i++ {
					same = p1[i] == c2.pts[i]
				}
				if !same {
					panic(NondetError{Msg: fmt.Sprintf("self-check: two consecutive runs of %v differ\nFIRST:\n%s\nSECOND:\n%s", vec, strings.Join(n1, "\n"), strings.Join(c2.notes, "\n"))})
				}
			}
			if keepAll {
				keep = true
			}
			res, c := r.runChecked(vec, exp, keep, lastNotes)
			if keepAll {
				lastNotes = append(lastNotes[:0], c.notes...)
			}
			n++
			if n&0xff == 0 && !opt.Deadline.IsZero() && time.Now().After(opt.Deadline) {
				st.Exhaustive = false
				st.CapNote = "deadline hit; subtree exploration stopped"
				return st
			}
			if res.Skip {
				st.Skipped++
			} else {
				st.Evaluations++
				st.Transitions += int64(len(c.pts))
				if len(c.pts) > st.MaxDepth {
					st.MaxDepth = len(c.pts)
				}
				st.Outcomes[res.Outcome]++
				if res.NonTrivial != "" {
					st.NonTrivial[hash64(res.NonTrivial)] = struct{}{}
				}
				for _, k := range c.obs {
					st.States[k] = struct{}{}
				}
				if keep {
					st.Samples = append(st.Samples, Sample{Vector: c.Vector(), Notes: c.notes, Outcome: res.Outcome})
				}
				if v := res.Violation; v != nil {
					f := st.Found[v.Sig]
					if f == nil || c.dev < f.Cost || (c.dev == f.Cost && len(c.pts) < len(f.Vector)) {
						cnt := 0
						if f != nil {
							cnt = f.Count
						}
						f = &Found{Violation: *v, Vector: c.Vector(), Cost: c.dev, Count: cnt}
						st.Found[v.Sig] = f
					}
					f.Count++
					if len(st.Found) >= opt.MaxViol {
						st.Exhaustive = false
						st.CapNote = fmt.Sprintf("stopped after %d distinct violation signatures", len(st.Found))
						return st
					}
				}
			}
			exp = append(exp[:0], c.pts...)
			if leaf {
				leafPts = append(leafPts[:0], c.pts...)
				break
			}
			if q != nil && n&0x1ff == 0 && q.hungry() {
				// some worker is idle: hand the shallowest unexplored siblings of
				// the current execution over as whole-subtree jobs and keep only
				// the subtree below the current choice at that depth
				dev := 0
				for i, p := range c.pts {
					if i >= floor && p.Choice+1 < p.N && dev+p.Cost <= opt.MaxDev {
						var give []qJob
						for alt := p.Choice + 1; alt < p.N; alt++ {
							v := make([]int, i+1)
							for k := 0; k < i; k++ {
								v[k] = c.pts[k].Choice
							}
							v[i] = alt
							give = append(give, qJob{Prefix: v, Level: opt.ShardLevels})
						}
						q.donate(give)
						floor = i + 1
						break
					}
					if p.Choice > 0 {
						dev += p.Cost
					}
				}
			}
			vec = next(c.pts, floor, -1, opt.MaxDev)
		}
	}
	return st
}

// workQueue is the file-backed job queue shared by the workers of one part.
type workQueue struct{ dir string }

type qJob struct {
	Prefix []int `json:"p"`
	Level  int   `json:"l"`
}

type qState struct {
	Seeded  bool  `json:"seeded"`
	Off     int64 `json:"off"`     // byte offset of the next unclaimed job
	Active  int   `json:"active"`  // jobs claimed and not yet finished
	Waiting int   `json:"waiting"` // workers waiting for a job
	Aborted bool  `json:"aborted"`
}

const (
	qJobReady = iota
	qDone
	qAborted
)

func (q *workQueue) locked(fn func(st *qState, jobs *os.File)) {
	lf, err := os.OpenFile(filepath.Join(q.dir, "queue.lock"), os.O_RDWR|os.O_CREATE, 0o644)
	if err != nil {
		panic(NondetError{Msg: "work queue: " + err.Error()})
	}
	defer lf.Close()
	if err := syscall.Flock(int(lf.Fd()), syscall.LOCK_EX); err != nil {
		panic(NondetError{Msg: "work queue: " + err.Error()})
	}
	defer syscall.Flock(int(lf.Fd()), syscall.LOCK_UN)
	var st qState
	sp := filepath.Join(q.dir, "queue.state")
	if b, err := os.ReadFile(sp); err == nil {
		json.Unmarshal(b, &st)
	}
	jf, err := os.OpenFile(filepath.Join(q.dir, "queue.jobs"), os.O_RDWR|os.O_CREATE, 0o644)
	if err != nil {
		panic(NondetError{Msg: "work queue: " + err.Error()})
	}
	defer jf.Close()
	fn(&st, jf)
	b, _ := json.Marshal(st)
	if err := os.WriteFile(sp, b, 0o644); err != nil {
		panic(NondetError{Msg: "work queue: " + err.Error()})
	}
}

// AbortQueue marks the work queue in dir (if there is one) as aborted.
func AbortQueue(dir string) {
	if _, err := os.Stat(dir); err != nil {
		return
	}
	defer func() { recover() }()
	(&workQueue{dir: dir}).abort()
}

// hungry reports whether some worker is waiting while the queue is empty.
func (q *workQueue) hungry() (h bool) {
	q.locked(func(st *qState, jf *os.File) {
		end, _ := jf.Seek(0, io.SeekEnd)
		h = st.Waiting > 0 && st.Off >= end && !st.Aborted
	})
	return h
}

// donate appends whole-subtree jobs.
func (q *workQueue) donate(jobs []qJob) {
	q.locked(func(st *qState, jf *os.File) {
		jf.Seek(0, io.SeekEnd)
		w := bufio.NewWriter(jf)
		for _, j := range jobs {
			b, _ := json.Marshal(j)
			w.Write(b)
			w.WriteByte('\n')
		}
		w.Flush()
	})
}

func (q *workQueue) abort() {
	q.locked(func(st *qState, _ *os.File) { st.Aborted = true })
}

// next hands the children of the finished job on, marks it finished and claims
// the next job, waiting while the queue is empty but other workers are still
// producing.
func (q *workQueue) next(push []qJob, finished bool, deadline time.Time) (*qJob, int) {
	waiting := false
	for {
		var job *qJob
		state := -1
		q.locked(func(st *qState, jf *os.File) {
			if !st.Seeded {
				st.Seeded = true
				push = append(push, qJob{Prefix: []int{}, Level: 0})
			}
			if len(push) > 0 {
				end, _ := jf.Seek(0, io.SeekEnd)
				w := bufio.NewWriter(jf)
				for _, j := range push {
					b, _ := json.Marshal(j)
					w.Write(b)
					w.WriteByte('\n')
				}
				w.Flush()
				_ = end
				push = nil
			}
			if finished {
				st.Active--
				finished = false
			}
			if waiting {
				st.Waiting--
				waiting = false
			}
			if st.Aborted {
				state = qAborted
				return
			}
			end, _ := jf.Seek(0, io.SeekEnd)
			if st.Off < end {
				jf.Seek(st.Off, io.SeekStart)
				line, err := bufio.NewReader(jf).ReadBytes('\n')
				if err != nil {
					panic(NondetError{Msg: "work queue: truncated job"})
				}
				var j qJob
				if err := json.Unmarshal(line, &j); err != nil {
					panic(NondetError{Msg: "work queue: " + err.Error()})
				}
				st.Off += int64(len(line))
				st.Active++
				job, state = &j, qJobReady
				return
			}
			if st.Active == 0 {
				state = qDone
				return
			}
			st.Waiting++
			waiting = true
		})
		if state >= 0 {
			return job, state
		}
		if !deadline.IsZero() && time.Now().After(deadline) {
			q.locked(func(st *qState, _ *os.File) { st.Waiting-- })
			return nil, qAborted
		}
		time.Sleep(2 * time.Millisecond)
	}
}

// Replay runs the body once on a fixed vector, keeping notes.
func Replay(body Body, vector []int, maxDev int) (res Result, notes []string, pts []Point, err error) {
	r := &runner{body: body, opt: Options{MaxDev: maxDev}}
	defer func() {
		if e := recover(); e != nil {
			if ne, ok := e.(NondetError); ok {
				err = ne
				return
			}
			panic(e)
		}
	}()
	res, c := r.run(vector, nil, true)
	return res, c.notes, append([]Point(nil), c.pts...), nil
}

// Confirm re-executes a found violation k times and checks that it fails with
// the same signature each time.
func Confirm(body Body, f *Found, maxDev, k int) error {
	for i := 0; i < k; i++ {
		res, notes, pts, err := Replay(body, f.Vector, maxDev)
		if err != nil {
			return err
		}
		if res.Violation == nil {
			return fmt.Errorf("replay %d of %v did not fail (was %s)", i, f.Vector, f.Sig)
		}
		if res.Violation.Sig != f.Sig {
			return fmt.Errorf("replay %d of %v failed differently: %s vs %s", i, f.Vector, res.Violation.Sig, f.Sig)
		}
		f.Notes = notes
		f.Points = pts
		f.Msg = res.Violation.Msg
	}
	return nil
}

// Merge adds the statistics of another shard.
func (st *Stats) Merge(o *Stats) {
	st.Evaluations += o.Evaluations
	st.Skipped += o.Skipped
	st.Transitions += o.Transitions
	if o.MaxDepth > st.MaxDepth {
		st.MaxDepth = o.MaxDepth
	}
	for k, v := range o.Outcomes {
		st.Outcomes[k] += v
	}
	for k := range o.NonTrivial {
		st.NonTrivial[k] = struct{}{}
	}
	for k := range o.States {
		st.States[k] = struct{}{}
	}
	for sig, f := range o.Found {
		g := st.Found[sig]
		if g == nil {
			st.Found[sig] = f
			continue
		}
		cnt := g.Count + f.Count
		if f.Cost < g.Cost || (f.Cost == g.Cost && (len(f.Vector) < len(g.Vector) || (len(f.Vector) == len(g.Vector) && lessVec(f.Vector, g.Vector)))) {
			st.Found[sig] = f
			g = f
		}
		g.Count = cnt
	}
	if len(st.Samples) < 6 {
		st.Samples = append(st.Samples, o.Samples...)
		if len(st.Samples) > 6 {
			st.Samples = st.Samples[:6]
		}
	}
	if !o.Exhaustive {
		st.Exhaustive = false
		if st.CapNote == "" {
			st.CapNote = o.CapNote
		}
	}
	if o.NondetErr != "" && st.NondetErr == "" {
		st.NondetErr = o.NondetErr
	}
}

func lessVec(a, b []int) bool {
	for i := range a {
		if i >= len(b) {
			return false
		}
		if a[i] != b[i] {
			return a[i] < b[i]
		}
	}
	return len(a) < len(b)
}

// EncodeSet / DecodeSet serialise hash sets for transfer between worker and parent.
func EncodeSet(m map[uint64]struct{}) []byte {
	keys := make([]uint64, 0, len(m))
	for k := range m {
		keys = append(keys, k)
	}
	sort.Slice(keys, func(i, j int) bool { return keys[i] < keys[j] })
	b := make([]byte, 8*len(keys))
	for i, k := range keys {
		binary.LittleEndian.PutUint64(b[8*i:], k)
	}
	return b
}

func DecodeSet(b []byte, into map[uint64]struct{}) {
	for i := 0; i+8 <= len(b); i += 8 {
		into[binary.LittleEndian.Uint64(b[i:])] = struct{}{}
	}
}

// SigSafe turns a signature into a file-name fragment.
func SigSafe(s string) string {
	var b strings.Builder
	for _, r := range s {
		switch {
		case r >= 'a' && r <= 'z', r >= 'A' && r <= 'Z', r >= '0' && r <= '9', r == '-', r == '_', r == '.':
			b.WriteRune(r)
		default:
			b.WriteByte('_')
		}
	}
	if b.Len() > 80 {
		// long signatures keep a hash of the whole text so that two of them
		// never share a replay file
		return fmt.Sprintf("%s-%08x", b.String()[:71], uint32(hash64(s)))
	}
	return b.String()
}
