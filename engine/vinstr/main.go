// Command vinstr rewrites the synchronisation operations of the packages in
// scope to calls of verif/vs and verif/vsync and writes a go build -overlay
// file. It works on whatever is in the working tree at check time.
//
// usage: vinstr -dir /repo -out <dir> pkg...
package main

import (
	"bytes"
	"encoding/json"
	"flag"
	"fmt"
	"go/ast"
	"go/format"
	"go/token"
	"go/types"
	"os"
	"path/filepath"
	"strconv"
	"strings"

	"golang.org/x/tools/go/ast/astutil"
	"golang.org/x/tools/go/packages"
)

var failures []string

func failf(fset *token.FileSet, pos token.Pos, f string, a ...any) {
	failures = append(failures, fset.Position(pos).String()+": "+fmt.Sprintf(f, a...))
}

func main() {
	dir := flag.String("dir", "/repo", "module directory")
	out := flag.String("out", "", "output directory")
	flag.Parse()
	if *out == "" || flag.NArg() == 0 {
		fmt.Fprintln(os.Stderr, "usage: vinstr -dir /repo -out <dir> pkg...")
		os.Exit(2)
	}
	cfg := &packages.Config{
		Mode: packages.NeedName | packages.NeedFiles | packages.NeedCompiledGoFiles | packages.NeedSyntax | packages.NeedTypes | packages.NeedTypesInfo | packages.NeedImports | packages.NeedDeps,
		Dir:  *dir,
		Env:  append(os.Environ(), "GOFLAGS=-mod=mod", "GOPROXY=off", "GOSUMDB=off", "GOTOOLCHAIN=local"),
	}
	pkgs, err := packages.Load(cfg, flag.Args()...)
	if err != nil {
		fmt.Fprintln(os.Stderr, "vinstr: load:", err)
		os.Exit(2)
	}
	if packages.PrintErrors(pkgs) > 0 {
		os.Exit(2)
	}
	overlay := map[string]string{}
	stats := map[string]int{}
	for _, p := range pkgs {
		for i, f := range p.Syntax {
			name := p.CompiledGoFiles[i]
			r := &rewriter{fset: p.Fset, info: p.TypesInfo, stats: stats}
			changed := r.file(f)
			if !changed {
				continue
			}
			var buf bytes.Buffer
			if err := format.Node(&buf, p.Fset, f); err != nil {
				fmt.Fprintln(os.Stderr, "vinstr: print", name, err)
				os.Exit(2)
			}
			rel := strings.TrimPrefix(name, *dir)
			dst := filepath.Join(*out, "src", rel)
			os.MkdirAll(filepath.Dir(dst), 0o755)
			if err := os.WriteFile(dst, buf.Bytes(), 0o644); err != nil {
				fmt.Fprintln(os.Stderr, err)
				os.Exit(2)
			}
			overlay[name] = dst
		}
	}
	if len(failures) > 0 {
		for _, f := range failures {
			fmt.Fprintln(os.Stderr, "vinstr: cannot instrument:", f)
		}
		os.Exit(2)
	}
	b, _ := json.MarshalIndent(map[string]any{"Replace": overlay}, "", " ")
	if err := os.WriteFile(filepath.Join(*out, "overlay.json"), b, 0o644); err != nil {
		fmt.Fprintln(os.Stderr, err)
		os.Exit(2)
	}
	sb, _ := json.Marshal(stats)
	os.WriteFile(filepath.Join(*out, "stats.json"), sb, 0o644)
	fmt.Printf("vinstr: %d files rewritten %s\n", len(overlay), sb)
}

type rewriter struct {
	fset   *token.FileSet
	info   *types.Info
	stats  map[string]int
	usedVS bool
	tmp    int
}

func sel(pkg, name string) ast.Expr { return &ast.SelectorExpr{X: ast.NewIdent(pkg), Sel: ast.NewIdent(name)} }

func call(fn ast.Expr, args ...ast.Expr) *ast.CallExpr { return &ast.CallExpr{Fun: fn, Args: args} }

func (r *rewriter) vs(name string, args ...ast.Expr) *ast.CallExpr {
	r.usedVS = true
	return call(sel("vs", name), args...)
}

// pure reports whether evaluating e twice is harmless.
func pure(e ast.Expr) bool {
	switch x := e.(type) {
	case *ast.Ident:
		return true
	case *ast.SelectorExpr:
		return pure(x.X)
	case *ast.ParenExpr:
		return pure(x.X)
	case *ast.StarExpr:
		return pure(x.X)
	case *ast.IndexExpr:
		return pure(x.X) && pure(x.Index)
	case *ast.BasicLit:
		return true
	case *ast.CallExpr:
		// accessor without arguments, e.g. ctx.Done()
		if len(x.Args) == 0 {
			if s, ok := x.Fun.(*ast.SelectorExpr); ok {
				return pure(s.X)
			}
		}
	}
	return false
}

func (r *rewriter) isMap(e ast.Expr) bool {
	t := r.info.TypeOf(e)
	if t == nil {
		return false
	}
	_, ok := t.Underlying().(*types.Map)
	return ok
}

func (r *rewriter) isChan(e ast.Expr) bool {
	t := r.info.TypeOf(e)
	if t == nil {
		return false
	}
	_, ok := t.Underlying().(*types.Chan)
	return ok
}

func (r *rewriter) fresh(prefix string) *ast.Ident {
	r.tmp++
	return ast.NewIdent(fmt.Sprintf("%s_vs%d", prefix, r.tmp))
}

// onlyDeletes reports whether the body of a map range is just delete(m, k).
func onlyDeletes(body *ast.BlockStmt) bool {
	for _, st := range body.List {
		es, ok := st.(*ast.ExprStmt)
		if !ok {
			return false
		}
		c, ok := es.X.(*ast.CallExpr)
		if !ok {
			return false
		}
		id, ok := c.Fun.(*ast.Ident)
		if !ok || id.Name != "delete" {
			return false
		}
	}
	return true
}

func (r *rewriter) file(f *ast.File) bool {
	changed := false
	// 1. sync -> vsync
	for _, imp := range f.Imports {
		if p, _ := strconv.Unquote(imp.Path.Value); p == "sync" {
			name := "sync"
			if imp.Name != nil {
				name = imp.Name.Name
			}
			imp.Name = ast.NewIdent(name)
			imp.Path.Value = strconv.Quote("verif/vsync")
			imp.EndPos = 0
			changed = true
			r.stats["sync-import"]++
		}
	}
	ast.Inspect(f, func(n ast.Node) bool {
		if ss, ok := n.(*ast.SelectStmt); ok {
			for _, st := range ss.Body.List {
				if cc := st.(*ast.CommClause); cc.Comm != nil {
					commStmts[cc.Comm] = true
				}
			}
		}
		return true
	})
	// 2. statements and expressions (post-order so that inner operations are
	// rewritten before the enclosing select is restructured)
	astutil.Apply(f, nil, func(c *astutil.Cursor) bool {
		switch n := c.Node().(type) {
		case *ast.GoStmt:
			c.Replace(r.goStmt(n))
			changed = true
			r.stats["go"]++
		case *ast.SendStmt:
			if _, inSelect := c.Parent().(*ast.CommClause); inSelect && c.Name() == "Comm" {
				return true
			}
			c.Replace(&ast.ExprStmt{X: r.vs("Send", n.Chan, n.Value)})
			changed = true
			r.stats["send"]++
		case *ast.UnaryExpr:
			if n.Op != token.ARROW {
				return true
			}
			if r.commOf(c) {
				return true
			}
			// v, ok := <-c is handled at the assignment
			if as, ok := c.Parent().(*ast.AssignStmt); ok && len(as.Lhs) == 2 && len(as.Rhs) == 1 {
				c.Replace(r.vs("Recv2", n.X))
			} else if vsp, ok := c.Parent().(*ast.ValueSpec); ok && len(vsp.Names) == 2 && len(vsp.Values) == 1 {
				c.Replace(r.vs("Recv2", n.X))
			} else {
				c.Replace(r.vs("Recv", n.X))
			}
			changed = true
			r.stats["recv"]++
		case *ast.CallExpr:
			if id, ok := n.Fun.(*ast.Ident); ok && id.Name == "close" && len(n.Args) == 1 {
				if _, isBuiltin := r.info.Uses[id].(*types.Builtin); isBuiltin {
					c.Replace(r.vs("Close", n.Args[0]))
					changed = true
					r.stats["close"]++
				}
			}
		case *ast.SelectStmt:
			c.Replace(r.selectStmt(n))
			changed = true
			r.stats["select"]++
		case *ast.RangeStmt:
			if r.isChan(n.X) {
				if !pure(n.X) {
					failf(r.fset, n.Pos(), "range over a channel expression with possible side effects")
					return true
				}
				okv := r.fresh("ok")
				var lhs ast.Expr = ast.NewIdent("_")
				tok := token.DEFINE
				if n.Key != nil {
					lhs = n.Key
					if n.Tok == token.ASSIGN {
						// x = range: ok must be declared separately
						tok = token.ASSIGN
					}
				}
				var pre []ast.Stmt
				if tok == token.ASSIGN {
					pre = append(pre, &ast.DeclStmt{Decl: &ast.GenDecl{Tok: token.VAR, Specs: []ast.Spec{&ast.ValueSpec{Names: []*ast.Ident{okv}, Type: ast.NewIdent("bool")}}}})
				}
				pre = append(pre,
					&ast.AssignStmt{Lhs: []ast.Expr{lhs, okv}, Tok: tok, Rhs: []ast.Expr{r.vs("Recv2", n.X)}},
					&ast.IfStmt{Cond: &ast.UnaryExpr{Op: token.NOT, X: okv}, Body: &ast.BlockStmt{List: []ast.Stmt{&ast.BranchStmt{Tok: token.BREAK}}}},
				)
				c.Replace(&ast.ForStmt{Body: &ast.BlockStmt{List: append(pre, n.Body.List...)}})
				changed = true
				r.stats["range-chan"]++
				return true
			}
			if !r.isMap(n.X) || onlyDeletes(n.Body) {
				return true
			}
			if !pure(n.X) {
				failf(r.fset, n.Pos(), "map range over an expression with possible side effects")
				return true
			}
			r.mapRange(n)
			changed = true
			r.stats["map-range"]++
		}
		return true
	})
	if r.usedVS {
		astutil.AddNamedImport(r.fset, f, "vs", "verif/vs")
	}
	if changed {
		// keep only the comments before the package clause (build constraints):
		// positions of rewritten nodes are gone and misplaced comments could
		// swallow code.
		var keep []*ast.CommentGroup
		for _, cg := range f.Comments {
			if cg.End() < f.Package {
				keep = append(keep, cg)
			}
		}
		f.Comments = keep
		ast.Inspect(f, func(n ast.Node) bool {
			switch x := n.(type) {
			case *ast.FuncDecl:
				x.Doc = nil
			case *ast.GenDecl:
				x.Doc = nil
			case *ast.Field:
				x.Doc, x.Comment = nil, nil
			case *ast.ValueSpec:
				x.Doc, x.Comment = nil, nil
			case *ast.TypeSpec:
				x.Doc, x.Comment = nil, nil
			case *ast.ImportSpec:
				x.Doc, x.Comment = nil, nil
			}
			return true
		})
	}
	return changed
}

// commOf reports whether the cursor's node is the receive operation of a
// select communication clause (handled when the select is rewritten).
func (r *rewriter) commOf(c *astutil.Cursor) bool {
	switch p := c.Parent().(type) {
	case *ast.ExprStmt:
		return r.isComm(p)
	case *ast.AssignStmt:
		return r.isComm(p)
	}
	return false
}

var commStmts = map[ast.Stmt]bool{}

func (r *rewriter) isComm(s ast.Stmt) bool { return commStmts[s] }

func init() {}

func (r *rewriter) goStmt(g *ast.GoStmt) ast.Stmt {
	c := g.Call
	if fl, ok := c.Fun.(*ast.FuncLit); ok && len(c.Args) == 0 {
		return &ast.ExprStmt{X: r.vs("Go", fl)}
	}
	// evaluate the function value and the arguments now, run later
	var stmts []ast.Stmt
	fn := r.fresh("f")
	stmts = append(stmts, &ast.AssignStmt{Lhs: []ast.Expr{fn}, Tok: token.DEFINE, Rhs: []ast.Expr{c.Fun}})
	var args []ast.Expr
	for _, a := range c.Args {
		id := r.fresh("a")
		stmts = append(stmts, &ast.AssignStmt{Lhs: []ast.Expr{id}, Tok: token.DEFINE, Rhs: []ast.Expr{a}})
		args = append(args, id)
	}
	inner := &ast.CallExpr{Fun: fn, Args: args}
	if c.Ellipsis.IsValid() {
		inner.Ellipsis = 1
	}
	lit := &ast.FuncLit{Type: &ast.FuncType{Params: &ast.FieldList{}}, Body: &ast.BlockStmt{List: []ast.Stmt{&ast.ExprStmt{X: inner}}}}
	stmts = append(stmts, &ast.ExprStmt{X: r.vs("Go", lit)})
	return &ast.BlockStmt{List: stmts}
}

func (r *rewriter) selectStmt(s *ast.SelectStmt) ast.Stmt {
	var args []ast.Expr
	sw := &ast.SwitchStmt{Body: &ast.BlockStmt{}}
	for i, st := range s.Body.List {
		cc := st.(*ast.CommClause)
		body := cc.Body
		idx := &ast.BasicLit{Kind: token.INT, Value: strconv.Itoa(i)}
		switch comm := cc.Comm.(type) {
		case nil:
			args = append(args, r.vs("Default"))
		case *ast.SendStmt:
			if !pure(comm.Chan) {
				failf(r.fset, comm.Pos(), "select send on an expression with possible side effects")
			}
			args = append(args, r.vs("S", comm.Chan, comm.Value))
		case *ast.ExprStmt:
			u, ok := comm.X.(*ast.UnaryExpr)
			if !ok || u.Op != token.ARROW {
				failf(r.fset, comm.Pos(), "unsupported select communication")
				continue
			}
			if !pure(u.X) {
				failf(r.fset, comm.Pos(), "select receive on an expression with possible side effects")
			}
			args = append(args, r.vs("R", u.X))
		case *ast.AssignStmt:
			u, ok := comm.Rhs[0].(*ast.UnaryExpr)
			if !ok || u.Op != token.ARROW || len(comm.Rhs) != 1 {
				failf(r.fset, comm.Pos(), "unsupported select communication")
				continue
			}
			if !pure(u.X) {
				failf(r.fset, comm.Pos(), "select receive on an expression with possible side effects")
			}
			args = append(args, r.vs("R", u.X))
			got := "Got"
			if len(comm.Lhs) == 2 {
				got = "Got2"
			}
			fetch := &ast.AssignStmt{Lhs: comm.Lhs, Tok: comm.Tok, Rhs: []ast.Expr{r.vs(got, u.X)}}
			body = append([]ast.Stmt{fetch}, body...)
		default:
			failf(r.fset, cc.Pos(), "unsupported select communication %T", comm)
		}
		sw.Body.List = append(sw.Body.List, &ast.CaseClause{List: []ast.Expr{idx}, Body: body})
	}
	// a select whose arms all return is a terminating statement; keep that
	// property for the switch (the default clause is never reached)
	sw.Body.List = append(sw.Body.List, &ast.CaseClause{Body: []ast.Stmt{&ast.ExprStmt{X: call(ast.NewIdent("panic"), &ast.BasicLit{Kind: token.STRING, Value: strconv.Quote("vs: select returned no case")})}}})
	sw.Tag = r.vs("Select", args...)
	return sw
}

func (r *rewriter) mapRange(n *ast.RangeStmt) {
	key := r.fresh("k")
	var pre []ast.Stmt
	m := n.X
	keyName := func(e ast.Expr) (ast.Expr, bool) {
		if e == nil {
			return nil, false
		}
		if id, ok := e.(*ast.Ident); ok && id.Name == "_" {
			return nil, false
		}
		return e, true
	}
	// skip entries deleted while iterating, like the runtime does
	val := r.fresh("v")
	okv := r.fresh("ok")
	pre = append(pre,
		&ast.AssignStmt{Lhs: []ast.Expr{val, okv}, Tok: token.DEFINE, Rhs: []ast.Expr{&ast.IndexExpr{X: m, Index: key}}},
		&ast.IfStmt{Cond: &ast.UnaryExpr{Op: token.NOT, X: okv}, Body: &ast.BlockStmt{List: []ast.Stmt{&ast.BranchStmt{Tok: token.CONTINUE}}}},
	)
	if k, ok := keyName(n.Key); ok {
		pre = append(pre, &ast.AssignStmt{Lhs: []ast.Expr{k}, Tok: n.Tok, Rhs: []ast.Expr{key}})
		if n.Tok == token.DEFINE {
			pre = append(pre, &ast.AssignStmt{Lhs: []ast.Expr{ast.NewIdent("_")}, Tok: token.ASSIGN, Rhs: []ast.Expr{k}})
		}
	}
	if v, ok := keyName(n.Value); ok {
		pre = append(pre, &ast.AssignStmt{Lhs: []ast.Expr{v}, Tok: n.Tok, Rhs: []ast.Expr{val}})
		if n.Tok == token.DEFINE {
			pre = append(pre, &ast.AssignStmt{Lhs: []ast.Expr{ast.NewIdent("_")}, Tok: token.ASSIGN, Rhs: []ast.Expr{v}})
		}
	} else {
		pre = append(pre, &ast.AssignStmt{Lhs: []ast.Expr{ast.NewIdent("_")}, Tok: token.ASSIGN, Rhs: []ast.Expr{val}})
	}
	n.Key = ast.NewIdent("_")
	n.Value = key
	n.Tok = token.DEFINE
	n.X = r.vs("MapOrder", m)
	n.Body.List = append(pre, n.Body.List...)
}
