package main

import (
	"verif/drv"

	_ "verif/props/c19"
)

func main() { drv.Main() }
