package main

import (
	"verif/drv"

	_ "verif/props/c01"
	_ "verif/props/c02"
	_ "verif/props/c03"
	_ "verif/props/c04"
	_ "verif/props/c05"
	_ "verif/props/c06"
	_ "verif/props/c07"
	_ "verif/props/c08"
	_ "verif/props/c09"
	_ "verif/props/c10"
	_ "verif/props/c11"
	_ "verif/props/c12"
	_ "verif/props/c13"
	_ "verif/props/c14"
	_ "verif/props/c15"
	_ "verif/props/c16"
	_ "verif/props/c17"
	_ "verif/props/c18"
	_ "verif/props/c19"
	_ "verif/props/c20"
)

func main() { drv.AtExit = profStop; drv.Main() }
