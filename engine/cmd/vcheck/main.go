package main

import (
	"verif/drv"

	_ "verif/props/c16"
)

func main() { drv.Main() }
