package main

import (
	"verif/drv"

	_ "verif/props/c11"
	_ "verif/props/c13"
	_ "verif/props/c14"
	_ "verif/props/c16"
	_ "verif/props/c17"
	_ "verif/props/c20"
)

func main() { drv.Main() }
