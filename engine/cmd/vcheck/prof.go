package main

import (
	"os"
	"runtime/pprof"
)

func init() {
	if p := os.Getenv("VERIF_CPUPROF"); p != "" {
		f, _ := os.Create(p)
		pprof.StartCPUProfile(f)
		go func() {}()
		profStop = func() { pprof.StopCPUProfile(); f.Close() }
	}
}

var profStop = func() {}
