package main

import (
	"verif/drv"
	_ "verif/props/c09"
)

func main() { drv.Main() }
