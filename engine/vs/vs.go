// Package vs is a controlled cooperative scheduler for real goroutines. The
// code under test is compiled with its synchronisation operations rewritten
// to the functions of this package (see cmd/vinstr); exactly one managed
// goroutine runs at a time and every blocking-capable operation is a
// scheduling point at which the explorer (package nd) chooses who runs next.
//
// Outside a Run every function falls through to the real operation, so
// instrumented packages behave normally in ordinary programs and in the
// free-running race pass.
package vs

import (
	"fmt"
	"os"
	"reflect"
	"runtime"
	"sort"
	"strings"
	"sync"
	"sync/atomic"

	"verif/nd"
)

type opKind int

const (
	opNone opKind = iota
	opStart
	opYield
	opResume // a channel operation completed by the partner; always enabled
	opLock
	opRLock
	opSend
	opRecv
	opSelect
	opBlock
)

// Case is one arm of a select.
type Case struct {
	dir int // 0 recv, 1 send, 2 default
	ch  reflect.Value
	val reflect.Value
}

type thread struct {
	id     int
	name   string
	daemon bool
	wake   chan struct{}
	done   bool
	op     opKind
	label  string
	// operands
	mu    *Mutex
	rw    *RWMutex
	ch    reflect.Value
	val   reflect.Value
	cases []Case
	pred  func() bool
	// results
	got     reflect.Value
	gotOK   bool
	selIdx  int
	panicV  *nd.Panic
	doPanic string // panic to raise in the thread when it resumes (send on closed channel)
	sticky  bool   // the thread just passed the point before a channel operation: if the operation is ready it proceeds without another scheduling choice
}

// Outcome of one controlled execution.
type Outcome struct {
	Kind    string   // complete | deadlock | horizon | panic
	Blocked []string // threads parked when the execution ended (name: op)
	Panic   *nd.Panic
	PanicIn string
	Steps   int
	Spawned int      // threads created during the execution
	MaxLive int      // largest number of unfinished threads at a scheduling decision
	Trace   []string // schedule (thread names in order of scheduling decisions), kept when the nd context keeps notes
}

type sched struct {
	c        *nd.Ctx
	threads  []*thread
	maxLive  int
	liveMain int // unfinished non-daemon threads
	spawned  int // threads ever created (ids and names; finished threads are dropped from the list)
	ndone    int
	cur      *thread
	parked   chan *thread // thread -> scheduler: "I parked or finished"
	abort    bool
	closed   map[uintptr]bool
	keep     []reflect.Value // channels known closed are kept alive: their address must not be reused within a run
	stolen   map[uintptr][]reflect.Value
	horizon  int
	canon    bool
	fair     int
	steps    int
	trace    []string
	gmap     sync.Map // goroutine id -> *thread
}

var active atomic.Pointer[sched]

// Active reports whether a controlled run is in progress.
func Active() bool { return active.Load() != nil }

func gid() uint64 {
	var buf [64]byte
	n := runtime.Stack(buf[:], false)
	// "goroutine 123 ["
	s := buf[10:n]
	var id uint64
	for _, b := range s {
		if b < '0' || b > '9' {
			break
		}
		id = id*10 + uint64(b-'0')
	}
	return id
}

// self returns the calling thread. Exactly one managed goroutine runs at a
// time and every call into this package during a run comes from it, so it is
// the thread the scheduler woke last. (Looking the goroutine id up through
// runtime.Stack costs tens of microseconds on deep stacks; with VS_CHECK_GID=1
// the assumption is verified on every call instead.)
func (s *sched) self() *thread {
	t := s.cur
	if checkGID && t != nil {
		if v, ok := s.gmap.Load(gid()); !ok || v.(*thread) != t {
			panic("vs: call from a goroutine that is not the running thread")
		}
	}
	return t
}

var checkGID = os.Getenv("VS_CHECK_GID") == "1"
var liveTrace = os.Getenv("ND_KEEPALL") == "1"

// Options for Run.
type Options struct {
	Horizon int // maximum number of scheduling steps (default 20000)
	// Canonical runs one fixed schedule instead of exploring: the running thread
	// keeps running while it can, otherwise the enabled thread with the lowest
	// id runs, and the first ready select arm is taken. For harnesses whose
	// quantifier is the input, not the schedule.
	Canonical bool
	// Fair (with the canonical schedule): every Fair-th scheduling decision
	// goes to the next enabled thread after the running one. For histories of
	// many thousand steps, where the plain canonical schedule starves runnable
	// short-lived threads until the end.
	Fair int
}

// Run executes main as thread 0 under the controlled scheduler and returns
// when all non-daemon threads have finished, nothing can run, the horizon is
// exceeded or a thread panicked.
func Run(c *nd.Ctx, opt Options, main func()) Outcome {
	if Free {
		return freeRun(main)
	}
	if active.Load() != nil {
		panic("vs: nested Run")
	}
	s := &sched{c: c, parked: make(chan *thread), closed: map[uintptr]bool{}, stolen: map[uintptr][]reflect.Value{}, horizon: opt.Horizon, canon: opt.Canonical, fair: opt.Fair}
	if s.horizon == 0 {
		s.horizon = 20000
	}
	active.Store(s)
	defer active.Store(nil)
	s.spawn("main", false, main)
	out := s.loop()
	// release everything that is still parked
	s.abort = true
	for _, t := range s.threads {
		if !t.done {
			t.wake <- struct{}{}
			<-s.parked
		}
	}
	out.Steps = s.steps
	out.Spawned = s.spawned
	out.MaxLive = s.maxLive
	out.Trace = s.trace
	return out
}

func (s *sched) spawn(name string, daemon bool, fn func()) *thread {
	t := &thread{id: s.spawned, name: name, daemon: daemon, wake: make(chan struct{}), op: opStart}
	s.threads = append(s.threads, t)
	s.spawned++
	if !daemon {
		s.liveMain++
	}
	go func() {
		if checkGID {
			s.gmap.Store(gid(), t)
			defer s.gmap.Delete(gid())
		}
		<-t.wake
		defer func() {
			if e := recover(); e != nil {
				if _, ok := e.(nd.NondetError); ok {
					t.panicV = &nd.Panic{Value: fmt.Sprint(e), Frame: "nondeterminism"}
				} else {
					t.panicV = nd.NewPanic(e, 3)
				}
			}
			t.done = true
			t.op = opNone
			s.parked <- t
		}()
		if s.abort {
			return
		}
		fn()
	}()
	return t
}

// park publishes the calling thread's pending operation and waits until the
// scheduler selects it.
func (s *sched) park(t *thread) {
	s.parked <- t
	<-t.wake
	if s.abort {
		runtime.Goexit()
	}
	if t.doPanic != "" {
		m := t.doPanic
		t.doPanic = ""
		panic(m)
	}
}

func chanKey(ch reflect.Value) uintptr { return ch.Pointer() }

// ---- enabledness model

func (s *sched) parkedOn(ch reflect.Value, dir int, except *thread) *thread {
	k := chanKey(ch)
	for _, t := range s.threads {
		if t == except || t.done {
			continue
		}
		switch t.op {
		case opSend:
			if dir == 1 && chanKey(t.ch) == k {
				return t
			}
		case opRecv:
			if dir == 0 && chanKey(t.ch) == k {
				return t
			}
		case opSelect:
			for _, cs := range t.cases {
				if cs.dir == dir && cs.dir != 2 && chanKey(cs.ch) == k {
					return t
				}
			}
		}
	}
	return nil
}

// probeClosed detects channels closed by code that is not instrumented
// (context cancellation). A value received from an unmanaged sender is kept.
func (s *sched) probeClosed(ch reflect.Value) bool {
	k := chanKey(ch)
	if s.closed[k] {
		return true
	}
	if ch.Len() > 0 {
		return false
	}
	chosen, v, ok := reflect.Select([]reflect.SelectCase{{Dir: reflect.SelectRecv, Chan: ch}, {Dir: reflect.SelectDefault}})
	if chosen == 1 {
		return false
	}
	if !ok {
		s.closed[k] = true
		s.keep = append(s.keep, ch)
		return true
	}
	s.stolen[k] = append(s.stolen[k], v)
	s.keep = append(s.keep, ch)
	return false
}

func (s *sched) recvReady(ch reflect.Value, self *thread) bool {
	if !ch.IsValid() || ch.IsNil() {
		return false
	}
	k := chanKey(ch)
	if len(s.stolen[k]) > 0 || ch.Len() > 0 {
		return true
	}
	if s.parkedOn(ch, 1, self) != nil {
		return true
	}
	return s.probeClosed(ch)
}

func (s *sched) sendReady(ch reflect.Value, self *thread) bool {
	if !ch.IsValid() || ch.IsNil() {
		return false
	}
	if s.closed[chanKey(ch)] {
		return true // will panic, as in Go
	}
	if ch.Len() < ch.Cap() {
		return true
	}
	return s.parkedOn(ch, 0, self) != nil
}

func (s *sched) enabled(t *thread) bool {
	switch t.op {
	case opStart, opYield, opResume:
		return true
	case opLock:
		if t.mu != nil {
			return !t.mu.locked
		}
		return !t.rw.w && t.rw.r == 0
	case opRLock:
		return !t.rw.w
	case opSend:
		return s.sendReady(t.ch, t)
	case opRecv:
		return s.recvReady(t.ch, t)
	case opSelect:
		for _, cs := range t.cases {
			switch cs.dir {
			case 0:
				if s.recvReady(cs.ch, t) {
					return true
				}
			case 1:
				if s.sendReady(cs.ch, t) {
					return true
				}
			case 2:
				return true
			}
		}
		return false
	case opBlock:
		return t.pred()
	}
	return false
}

// ---- effects

// doRecv completes a receive for t on ch (which must be ready).
func (s *sched) doRecv(t *thread, ch reflect.Value) {
	k := chanKey(ch)
	if q := s.stolen[k]; len(q) > 0 {
		t.got, t.gotOK = q[0], true
		s.stolen[k] = q[1:]
		return
	}
	if ch.Len() > 0 {
		v, ok := ch.TryRecv()
		t.got, t.gotOK = v, ok
		// a sender parked on the now non-full buffer stays parked; it is enabled
		return
	}
	if p := s.parkedOn(ch, 1, t); p != nil {
		// rendezvous: take the partner's value and complete its operation
		var v reflect.Value
		if p.op == opSend {
			v = p.val
		} else {
			for i, cs := range p.cases {
				if cs.dir == 1 && chanKey(cs.ch) == k {
					v = cs.val
					p.selIdx = i
					break
				}
			}
		}
		t.got, t.gotOK = v, true
		p.op = opResume
		return
	}
	// closed
	t.got, t.gotOK = reflect.Zero(ch.Type().Elem()), false
}

// doSend completes a send for t on ch (which must be ready).
func (s *sched) doSend(t *thread, ch reflect.Value, v reflect.Value) {
	k := chanKey(ch)
	if s.closed[k] {
		t.doPanic = "send on closed channel"
		return
	}
	if ch.Len() < ch.Cap() {
		if !ch.TrySend(v) {
			panic("vs: buffered send failed")
		}
		return
	}
	p := s.parkedOn(ch, 0, t)
	if p == nil {
		panic("vs: send chosen without partner")
	}
	if p.op == opSelect {
		for i, cs := range p.cases {
			if cs.dir == 0 && chanKey(cs.ch) == k {
				p.selIdx = i
				break
			}
		}
	}
	p.got, p.gotOK = v, true
	p.op = opResume
}

func (s *sched) apply(t *thread) {
	switch t.op {
	case opLock:
		if t.mu != nil {
			t.mu.locked = true
		} else {
			t.rw.w = true
		}
	case opRLock:
		t.rw.r++
	case opSend:
		s.doSend(t, t.ch, t.val)
	case opRecv:
		s.doRecv(t, t.ch)
	case opSelect:
		var ready []int
		def := -1
		for i, cs := range t.cases {
			switch cs.dir {
			case 0:
				if s.recvReady(cs.ch, t) {
					ready = append(ready, i)
				}
			case 1:
				if s.sendReady(cs.ch, t) {
					ready = append(ready, i)
				}
			case 2:
				def = i
			}
		}
		if len(ready) == 0 {
			t.selIdx = def
			break
		}
		pick := ready[0]
		if len(ready) > 1 && !s.canon {
			pick = ready[s.c.Choose(len(ready), "select-arm")]
		}
		t.selIdx = pick
		cs := t.cases[pick]
		if cs.dir == 0 {
			s.doRecv(t, cs.ch)
		} else {
			s.doSend(t, cs.ch, cs.val)
		}
	}
	t.op = opNone
}

func (t *thread) describe() string {
	switch t.op {
	case opLock:
		return "Lock " + t.label
	case opRLock:
		return "RLock " + t.label
	case opSend:
		return "send " + t.label
	case opRecv:
		return "recv " + t.label
	case opSelect:
		return "select " + t.label
	case opBlock:
		return "wait " + t.label
	case opStart:
		return "start"
	case opYield:
		return "yield " + t.label
	case opResume:
		return "resume"
	}
	return "?"
}

func (s *sched) loop() Outcome {
	for {
		// wait for the running thread to park or finish (the first iteration has none)
		if s.cur != nil {
			t := <-s.parked
			if t != s.cur {
				panic("vs: unexpected thread parked: " + t.name)
			}
			if t.done && t.panicV != nil {
				if t.panicV.Frame == "nondeterminism" {
					panic(nd.NondetError{Msg: t.panicV.Value})
				}
				return Outcome{Kind: "panic", Panic: t.panicV, PanicIn: t.name, Blocked: s.blocked()}
			}
		}
		// long histories create thousands of short-lived threads: forget the
		// finished ones (relative order of the others is kept)
		if s.cur != nil && s.cur.done {
			s.ndone++
			if s.ndone >= 64 && s.ndone*2 > len(s.threads) {
				live := s.threads[:0]
				for _, t := range s.threads {
					if !t.done {
						live = append(live, t)
					}
				}
				for i := len(live); i < len(s.threads); i++ {
					s.threads[i] = nil
				}
				s.threads = live
				s.ndone = 0
			}
		}
		// all non-daemon threads done?
		if s.cur != nil && s.cur.done && !s.cur.daemon {
			s.liveMain--
		}
		if s.liveMain == 0 {
			return Outcome{Kind: "complete", Blocked: s.blocked()}
		}
		s.steps++
		if s.steps > s.horizon {
			return Outcome{Kind: "horizon", Blocked: s.blocked()}
		}
		if s.cur != nil && s.cur.sticky {
			s.cur.sticky = false
			if !s.cur.done && s.enabled(s.cur) {
				t := s.cur
				if s.c.Keeping() {
					s.trace = append(s.trace, t.name+": "+t.describe())
				}
				s.apply(t)
				t.wake <- struct{}{}
				continue
			}
		}
		if s.canon && s.fair > 0 && s.steps%s.fair == 0 && s.cur != nil {
			// fair canonical schedule: every fair-th decision goes to the next
			// enabled thread after the current one (cyclically), so that
			// runnable short-lived threads finish instead of piling up
			at := 0
			for i, t := range s.threads {
				if t == s.cur {
					at = i
					break
				}
			}
			var next *thread
			for k := 1; k <= len(s.threads); k++ {
				t := s.threads[(at+k)%len(s.threads)]
				if t != s.cur && !t.done && s.enabled(t) {
					next = t
					break
				}
			}
			if next != nil {
				if s.c.Keeping() {
					s.trace = append(s.trace, next.name+": "+next.describe())
				}
				s.apply(next)
				s.cur = next
				next.wake <- struct{}{}
				continue
			}
		}
		var en []*thread
		curEnabled := false
		if s.cur != nil && !s.cur.done && s.enabled(s.cur) {
			en = append(en, s.cur)
			curEnabled = true
		}
		for _, t := range s.threads {
			if s.canon && len(en) > 0 {
				// the canonical schedule takes the first enabled thread: the
				// others need not be collected (long histories pile up
				// thousands of runnable short-lived threads)
				break
			}
			if t != s.cur && !t.done && s.enabled(t) {
				en = append(en, t)
			}
		}
		if len(en) == 0 {
			return Outcome{Kind: "deadlock", Blocked: s.blocked()}
		}
		if len(en) > s.maxLive {
			s.maxLive = len(en)
		}
		pick := 0
		if len(en) > 1 && !s.canon {
			cost := 0
			if curEnabled {
				cost = 1 // switching away from a runnable thread is a preemption
			}
			// alternatives beyond the budget are never taken by the explorer,
			// but they must not be offered either when the budget is exhausted
			// (keeps the tree small): ChooseCost handles the bound.
			pick = s.c.ChooseCost(len(en), "thread", cost)
		}
		t := en[pick]
		if s.c.Keeping() {
			s.trace = append(s.trace, t.name+": "+t.describe())
			if liveTrace {
				s.c.Note("%d %s: %s [enabled %d]", s.steps, t.name, t.describe(), len(en))
			}
		}
		s.apply(t)
		s.cur = t
		t.wake <- struct{}{}
	}
}

func (s *sched) blocked() []string {
	var b []string
	for _, t := range s.threads {
		if !t.done {
			b = append(b, t.name+": "+t.describe())
		}
	}
	sort.Strings(b)
	return b
}

// ---- API used by rewritten code and harnesses

// Go starts fn as a new managed thread (rewritten `go` statements).
func Go(fn func()) { GoNamed("", false, fn) }

// GoNamed starts a named thread; daemon threads do not keep the run alive.
func GoNamed(name string, daemon bool, fn func()) {
	s := active.Load()
	if s == nil {
		if Free {
			freeGo(daemon, fn)
			return
		}
		go fn()
		return
	}
	if s.abort {
		return
	}
	if name == "" {
		_, file, line, _ := runtime.Caller(2)
		if i := strings.LastIndex(file, "/"); i >= 0 {
			file = file[i+1:]
		}
		name = fmt.Sprintf("go@%s:%d#%d", file, line, s.spawned)
	}
	s.spawn(name, daemon, fn)
}

func current() (*sched, *thread) {
	s := active.Load()
	if s == nil || s.abort {
		return nil, nil
	}
	t := s.self()
	if t == nil {
		return nil, nil // unmanaged goroutine: pass through
	}
	return s, t
}

// Yield is an always-enabled scheduling point.
func Yield(label string) {
	s, t := current()
	if s == nil {
		if Free {
			runtime.Gosched()
		}
		return
	}
	t.op, t.label = opYield, label
	s.park(t)
}

var passCond = sync.NewCond(&sync.Mutex{})

// Broadcast wakes Block callers in pass-through mode (call after any state
// change that a Block predicate may depend on).
func Broadcast() {
	passCond.L.Lock()
	passCond.Broadcast()
	passCond.L.Unlock()
}

// Block parks until pred() holds. pred must be side-effect free.
func Block(label string, pred func() bool) {
	s, t := current()
	if s == nil {
		if a := active.Load(); a != nil && a.abort {
			return
		}
		if Free {
			freeBlock(pred)
			return
		}
		passCond.L.Lock()
		for !pred() {
			passCond.Wait()
		}
		passCond.L.Unlock()
		return
	}
	t.op, t.label, t.pred = opBlock, label, pred
	s.park(t)
}

func aborting() bool {
	a := active.Load()
	return a != nil && a.abort
}

// prePoint is the scheduling point *before* a blocking channel operation. A
// thread parked here has not announced itself as a sender/receiver yet, so a
// partner's non-blocking operation (select with default) does not see it:
// that is the window in which check-then-wait code loses wake-ups. After it,
// the thread registers the operation; if that is ready it goes on at once.
func (s *sched) prePoint(t *thread) {
	t.op, t.label = opYield, "before channel operation"
	s.park(t)
	t.sticky = true
}

// Send is a rewritten `c <- v`.
func Send[T any](c chan<- T, v any) {
	s, t := current()
	if s == nil {
		if aborting() {
			return
		}
		c <- conv[T](v)
		return
	}
	s.prePoint(t)
	t.op, t.ch, t.val = opSend, reflect.ValueOf(c), reflect.ValueOf(conv[T](v))
	if !t.val.IsValid() {
		t.val = reflect.Zero(reflect.TypeOf(c).Elem())
	}
	t.label = "chan"
	s.park(t)
}

func conv[T any](v any) T {
	if v == nil {
		var z T
		return z
	}
	if tv, ok := v.(T); ok {
		return tv
	}
	var z T
	return reflect.ValueOf(v).Convert(reflect.TypeOf(&z).Elem()).Interface().(T)
}

func val[T any](v reflect.Value) T {
	var z T
	if !v.IsValid() {
		return z
	}
	if v.Kind() == reflect.Interface && v.IsNil() {
		return z
	}
	return v.Interface().(T)
}

// Recv is a rewritten `<-c`.
func Recv[T any](c <-chan T) T {
	v, _ := Recv2(c)
	return v
}

// Recv2 is a rewritten `v, ok := <-c`.
func Recv2[T any](c <-chan T) (T, bool) {
	s, t := current()
	if s == nil {
		if aborting() {
			var z T
			return z, false
		}
		v, ok := <-c
		return v, ok
	}
	s.prePoint(t)
	t.op, t.ch = opRecv, reflect.ValueOf(c)
	t.label = "chan"
	s.park(t)
	return val[T](t.got), t.gotOK
}

// Close is a rewritten close(c).
func Close[T any](c chan T) {
	s := active.Load()
	if s != nil && !s.abort {
		k := reflect.ValueOf(c).Pointer()
		if c != nil && !s.closed[k] {
			s.closed[k] = true
			s.keep = append(s.keep, reflect.ValueOf(c))
		}
	}
	if aborting() {
		defer func() { recover() }()
	}
	close(c)
}

// R, S and Default build select cases.
func R[T any](c <-chan T) Case { return Case{dir: 0, ch: reflect.ValueOf(c)} }
func S[T any](c chan<- T, v any) Case {
	return Case{dir: 1, ch: reflect.ValueOf(c), val: reflect.ValueOf(conv[T](v))}
}
func Default() Case { return Case{dir: 2} }

// Select is a rewritten select statement: it returns the index of the chosen
// case; the received value is fetched with Got/Got2.
func Select(cases ...Case) int {
	s, t := current()
	if s == nil {
		if aborting() {
			for i, c := range cases {
				if c.dir == 2 {
					return i
				}
			}
			runtime.Goexit()
		}
		return passSelect(cases)
	}
	for i := range cases {
		if cases[i].dir == 1 && !cases[i].val.IsValid() {
			cases[i].val = reflect.Zero(cases[i].ch.Type().Elem())
		}
	}
	hasDefault := false
	for _, cs := range cases {
		if cs.dir == 2 {
			hasDefault = true
		}
	}
	if !hasDefault {
		s.prePoint(t)
	}
	t.op, t.cases, t.label = opSelect, cases, "cases"
	s.park(t)
	t.cases = nil
	return t.selIdx
}

var passGot sync.Map // goroutine id -> [2]any (value, ok)

func passSelect(cases []Case) int {
	sc := make([]reflect.SelectCase, len(cases))
	for i, c := range cases {
		switch c.dir {
		case 0:
			sc[i] = reflect.SelectCase{Dir: reflect.SelectRecv, Chan: c.ch}
		case 1:
			v := c.val
			if !v.IsValid() {
				v = reflect.Zero(c.ch.Type().Elem())
			}
			sc[i] = reflect.SelectCase{Dir: reflect.SelectSend, Chan: c.ch, Send: v}
		case 2:
			sc[i] = reflect.SelectCase{Dir: reflect.SelectDefault}
		}
	}
	i, v, ok := reflect.Select(sc)
	if cases[i].dir == 0 {
		passGot.Store(gid(), [2]any{v, ok})
	}
	return i
}

// Got returns the value received by the preceding Select.
func Got[T any](c <-chan T) T {
	v, _ := Got2(c)
	return v
}

// Got2 returns the value and ok flag received by the preceding Select.
func Got2[T any](c <-chan T) (T, bool) {
	s, t := current()
	if s == nil {
		if x, ok := passGot.LoadAndDelete(gid()); ok {
			p := x.([2]any)
			return val[T](p[0].(reflect.Value)), p[1].(bool)
		}
		var z T
		return z, false
	}
	return val[T](t.got), t.gotOK
}

// MapOrder returns the keys of m in an order chosen by the explorer (all
// permutations up to 4 keys, rotations and reversal above); outside a run the
// runtime's own order.
//
// MapOrderCost, when positive, makes every departure from the sorted order a
// deviation of that cost (bounded by the part's deviation bound) instead of a
// free choice: for scenarios that range over a map many times in one execution.
var MapOrderCost int

func MapOrder[K comparable, V any](m map[K]V) []K {
	keys := make([]K, 0, len(m))
	for k := range m {
		keys = append(keys, k)
	}
	s, _ := current()
	if s == nil {
		if c := seqChooser.Load(); c != nil && len(keys) >= 2 {
			s = &sched{c: c}
		}
	}
	if len(keys) < 2 {
		return keys
	}
	sort.Slice(keys, func(i, j int) bool { return fmt.Sprint(keys[i]) < fmt.Sprint(keys[j]) })
	if s == nil {
		// nobody owns the order: still never Go's random one, or a harness that
		// does not enumerate it would not be reproducible
		return keys
	}
	if len(keys) <= 4 {
		out := make([]K, 0, len(keys))
		rest := keys
		for len(rest) > 1 {
			i := s.c.ChooseCost(len(rest), "map-order", MapOrderCost)
			out = append(out, rest[i])
			rest = append(append([]K{}, rest[:i]...), rest[i+1:]...)
		}
		return append(out, rest[0])
	}
	r := s.c.ChooseCost(2*len(keys), "map-order", MapOrderCost)
	rot := r % len(keys)
	out := append(append([]K{}, keys[rot:]...), keys[:rot]...)
	if r >= len(keys) {
		for i, j := 0, len(out)-1; i < j; i, j = i+1, j-1 {
			out[i], out[j] = out[j], out[i]
		}
	}
	return out
}

// ---- mutex model (used by package vsync)

type Mutex struct {
	real   sync.Mutex
	locked bool
}

func (m *Mutex) Lock() {
	s, t := current()
	if s == nil {
		if aborting() {
			return
		}
		m.real.Lock()
		return
	}
	t.op, t.mu, t.rw, t.label = opLock, m, nil, "mutex"
	s.park(t)
	t.mu = nil
}

func (m *Mutex) Unlock() {
	s, _ := current()
	if s == nil {
		if aborting() {
			return
		}
		if a := active.Load(); a != nil && m.locked {
			m.locked = false
			return
		}
		// the real mutex turns this into a fatal error that takes the whole
		// worker down; a panic is reported as what it is
		if m.real.TryLock() {
			m.real.Unlock()
			panic("sync: unlock of unlocked mutex")
		}
		m.real.Unlock()
		return
	}
	if !m.locked {
		panic("sync: unlock of unlocked mutex")
	}
	m.locked = false
}

func (m *Mutex) TryLock() bool {
	s, _ := current()
	if s == nil {
		return m.real.TryLock()
	}
	if m.locked {
		return false
	}
	m.locked = true
	return true
}

type RWMutex struct {
	real sync.RWMutex
	w    bool
	r    int
}

func (m *RWMutex) Lock() {
	s, t := current()
	if s == nil {
		if aborting() {
			return
		}
		m.real.Lock()
		return
	}
	t.op, t.rw, t.mu, t.label = opLock, m, nil, "rwmutex"
	s.park(t)
	t.rw = nil
}

func (m *RWMutex) Unlock() {
	s, _ := current()
	if s == nil {
		if aborting() {
			return
		}
		if a := active.Load(); a != nil && m.w {
			m.w = false
			return
		}
		m.real.Unlock()
		return
	}
	if !m.w {
		panic("sync: Unlock of unlocked RWMutex")
	}
	m.w = false
}

func (m *RWMutex) RLock() {
	s, t := current()
	if s == nil {
		if aborting() {
			return
		}
		m.real.RLock()
		return
	}
	t.op, t.rw, t.mu, t.label = opRLock, m, nil, "rwmutex"
	s.park(t)
	t.rw = nil
}

func (m *RWMutex) RUnlock() {
	s, _ := current()
	if s == nil {
		if aborting() {
			return
		}
		if a := active.Load(); a != nil && m.r > 0 {
			m.r--
			return
		}
		m.real.RUnlock()
		return
	}
	if m.r <= 0 {
		panic("sync: RUnlock of unlocked RWMutex")
	}
	m.r--
}

func (m *RWMutex) RLocker() sync.Locker { return (*rlocker)(m) }

type rlocker RWMutex

func (r *rlocker) Lock()   { (*RWMutex)(r).RLock() }
func (r *rlocker) Unlock() { (*RWMutex)(r).RUnlock() }

var seqChooser atomic.Pointer[nd.Ctx]

// WithChooser lets sequential harnesses (no controlled run) own the map
// iteration order of instrumented code executed by fn.
func WithChooser(c *nd.Ctx, fn func()) {
	seqChooser.Store(c)
	defer seqChooser.Store(nil)
	fn()
}

// SetCanonical switches the canonical (non-exploring) schedule on or off from
// inside a run: a harness can drive a set-up phase along one fixed schedule
// and explore only the phase under test.
func SetCanonical(on bool) {
	if s := active.Load(); s != nil && !s.abort {
		s.canon = on
	}
}
