package vs

import (
	"os"
	"sync"
	"sync/atomic"
	"time"
)

// Free-running mode (VS_FREE=1): the complement of the controlled scheduler.
// Run starts main and every vs.Go thread as ordinary goroutines, all
// synchronisation operations of the instrumented code pass through to the real
// ones, and nothing is scheduled or judged. It exists for one purpose: a
// binary built with -race executes the same harness bodies so that the race
// detector sees the library's real happens-before edges (under the
// cooperative scheduler every hand-off is an edge, which blinds it).
var Free = os.Getenv("VS_FREE") == "1"

// freeEpoch distinguishes executions: goroutines left over from an execution
// that was abandoned at its wall-clock horizon stop blocking.
var freeEpoch atomic.Int64

var freeWG struct {
	sync.Mutex
	live int
}

func freeGo(daemon bool, fn func()) {
	if !daemon {
		freeWG.Lock()
		freeWG.live++
		freeWG.Unlock()
	}
	go func() {
		defer func() {
			recover() // outcomes are not judged here (the controlled parts do that)
			if !daemon {
				freeWG.Lock()
				freeWG.live--
				freeWG.Unlock()
			}
		}()
		fn()
	}()
}

func freeRun(main func()) Outcome {
	freeEpoch.Add(1)
	freeWG.Lock()
	freeWG.live = 0
	freeWG.Unlock()
	freeGo(false, main)
	deadline := time.Now().Add(2 * time.Second)
	kind := "free-complete"
	for {
		freeWG.Lock()
		n := freeWG.live
		freeWG.Unlock()
		if n <= 0 {
			break
		}
		if time.Now().After(deadline) {
			kind = "free-horizon"
			break
		}
		time.Sleep(20 * time.Microsecond)
	}
	freeEpoch.Add(1) // releases everything still waiting in Block
	return Outcome{Kind: kind}
}

// freeBlock polls: harness predicates depend on plain variables that nobody
// announces with Broadcast.
func freeBlock(pred func() bool) {
	ep := freeEpoch.Load()
	for i := 0; ; i++ {
		passCond.L.Lock()
		ok := pred()
		passCond.L.Unlock()
		if ok || freeEpoch.Load() != ep {
			return
		}
		if i < 50 {
			time.Sleep(5 * time.Microsecond)
		} else {
			time.Sleep(100 * time.Microsecond)
		}
	}
}

// Atomically runs fn as one step with respect to Block predicates. Under the
// controlled scheduler every stretch between two scheduling points already is
// one; in pass-through and free-running mode fn runs under the lock that
// predicates are evaluated under, and waiters are woken afterwards.
func Atomically(fn func()) {
	if s := active.Load(); s != nil {
		fn()
		return
	}
	passCond.L.Lock()
	defer func() {
		passCond.Broadcast()
		passCond.L.Unlock()
	}()
	fn()
}
