package vs

import (
	"fmt"
	"testing"

	"verif/nd"
)

// two threads doing an unprotected read-modify-write with a yield in between:
// the lost update must be found with 1 preemption and not with 0.
func TestLostUpdate(t *testing.T) {
	for bound := 0; bound <= 2; bound++ {
		outcomes := map[string]int{}
		body := func(c *nd.Ctx) nd.Result {
			x := 0
			out := Run(c, Options{}, func() {
				for i := 0; i < 2; i++ {
					GoNamed(fmt.Sprint("w", i), false, func() {
						v := x
						Yield("between")
						x = v + 1
					})
				}
			})
			return nd.Result{Outcome: fmt.Sprintf("%s x=%d", out.Kind, x)}
		}
		st := nd.Explore(body, nd.Options{MaxDev: bound})
		for k, v := range st.Outcomes {
			outcomes[k] = int(v)
		}
		t.Logf("bound %d: %d executions %v", bound, st.Evaluations, outcomes)
		if bound == 0 && outcomes["complete x=1"] != 0 {
			t.Fatalf("lost update without preemption")
		}
		if bound >= 1 && outcomes["complete x=1"] == 0 {
			t.Fatalf("lost update not found with bound %d", bound)
		}
	}
}

func TestMutexAndChannels(t *testing.T) {
	body := func(c *nd.Ctx) nd.Result {
		var mu Mutex
		x := 0
		ch := make(chan int)
		done := make(chan struct{})
		var got []int
		out := Run(c, Options{}, func() {
			for i := 0; i < 2; i++ {
				i := i
				GoNamed(fmt.Sprint("p", i), false, func() {
					mu.Lock()
					v := x
					Yield("in-cs")
					x = v + 1
					mu.Unlock()
					Send(ch, i)
				})
			}
			GoNamed("consumer", false, func() {
				for k := 0; k < 2; k++ {
					switch Select(R(ch), R(done)) {
					case 0:
						got = append(got, Got(ch))
					case 1:
						return
					}
				}
				Close(done)
			})
			Recv(done)
		})
		return nd.Result{Outcome: fmt.Sprintf("%s x=%d got=%d", out.Kind, x, len(got))}
	}
	st := nd.Explore(body, nd.Options{MaxDev: 2})
	t.Logf("%d executions %v", st.Evaluations, st.Outcomes)
	if len(st.Outcomes) != 1 || st.Outcomes["complete x=2 got=2"] == 0 {
		t.Fatalf("unexpected outcomes %v", st.Outcomes)
	}
}

// classic lost wake-up: check-then-wait with a non-blocking notify
func TestLostWakeup(t *testing.T) {
	body := func(c *nd.Ctx) nd.Result {
		ready := make(chan struct{})
		data := 0
		out := Run(c, Options{}, func() {
			GoNamed("reader", false, func() {
				if data == 0 {
					Yield("checked-empty")
					Recv(ready)
				}
			})
			GoNamed("writer", false, func() {
				data = 1
				switch Select(S(ready, struct{}{}), Default()) {
				}
			})
		})
		return nd.Result{Outcome: out.Kind}
	}
	st := nd.Explore(body, nd.Options{MaxDev: 2})
	t.Logf("%d executions %v", st.Evaluations, st.Outcomes)
	if st.Outcomes["deadlock"] == 0 || st.Outcomes["complete"] == 0 {
		t.Fatalf("expected both outcomes, got %v", st.Outcomes)
	}
}

func TestPanicAndClosedSend(t *testing.T) {
	body := func(c *nd.Ctx) nd.Result {
		ch := make(chan int, 1)
		out := Run(c, Options{}, func() {
			GoNamed("closer", false, func() { Close(ch) })
			GoNamed("sender", false, func() { Send(ch, 1) })
		})
		k := out.Kind
		if out.Panic != nil {
			k += ":" + out.Panic.Value
		}
		return nd.Result{Outcome: k}
	}
	st := nd.Explore(body, nd.Options{MaxDev: 2})
	t.Logf("%d executions %v", st.Evaluations, st.Outcomes)
	if st.Outcomes["panic:send on closed channel"] == 0 || st.Outcomes["complete"] == 0 {
		t.Fatalf("expected both outcomes, got %v", st.Outcomes)
	}
}
