// Package memconn is a deterministic in-memory net.Conn pair whose blocking
// operations are scheduling points of package vs. Deadlines follow the
// net.Conn contract: an instant in the past makes pending and future
// operations fail with a timeout error until it is cleared; future instants
// never fire (there are no timers: time is an explicit event).
package memconn

import (
	"io"
	"net"
	"os"
	"time"

	"verif/vs"
)

type half struct {
	buf    []byte
	closed bool // the writing side closed
	cap    int  // 0: unbounded
}

// WriteRec is one recorded write.
type WriteRec struct {
	Data []byte
}

// Conn is one end of a pipe.
type Conn struct {
	name          string
	rd, wr        *half
	readDeadline  time.Time
	writeDeadline time.Time
	closed        bool
	// expiry generations: incremented whenever a deadline in the past is set, so
	// that an operation pending at that moment fails with a timeout even if the
	// deadline is cleared again before it gets to run (the net.Conn contract).
	rdGen, wrGen int
	Writes       []WriteRec // everything written on this end, in order
	// Fault injection: fail the n-th Read / Write (0-based) with an error; -1 off.
	FailRead, FailWrite int
	// FailWriteIf, if set, is asked about every write; true makes it fail.
	FailWriteIf   func(p []byte) bool
	reads, writes int
	// OnWrite, if set, is called (in the writer's thread) after each write.
	OnWrite func(p []byte)
}

// Pipe returns two connected ends. capacity 0 means unbounded buffers
// (writes never block); otherwise a write blocks while the peer's unread
// data has reached the capacity.
func Pipe(capacity int) (*Conn, *Conn) {
	a2b := &half{cap: capacity}
	b2a := &half{cap: capacity}
	a := &Conn{name: "a", rd: b2a, wr: a2b, FailRead: -1, FailWrite: -1}
	b := &Conn{name: "b", rd: a2b, wr: b2a, FailRead: -1, FailWrite: -1}
	return a, b
}

type timeoutErr struct{}

func (timeoutErr) Error() string   { return "memconn: i/o timeout" }
func (timeoutErr) Timeout() bool   { return true }
func (timeoutErr) Temporary() bool { return true }
func (timeoutErr) Unwrap() error   { return os.ErrDeadlineExceeded }

type faultErr struct{ s string }

func (e faultErr) Error() string { return e.s }

func passed(t time.Time) bool { return !t.IsZero() && !t.After(time.Now()) }

func (c *Conn) Read(p []byte) (n int, err error) {
	var k, gen int
	vs.Atomically(func() {
		k = c.reads
		c.reads++
		gen = c.rdGen
	})
	if c.FailRead >= 0 && k == c.FailRead {
		return 0, faultErr{"memconn: injected read error"}
	}
	vs.Block("read "+c.name, func() bool {
		return len(c.rd.buf) > 0 || c.rd.closed || c.closed || passed(c.readDeadline) || c.rdGen != gen
	})
	vs.Atomically(func() {
		switch {
		case c.closed:
			n, err = 0, net.ErrClosed
		case passed(c.readDeadline) || c.rdGen != gen:
			n, err = 0, timeoutErr{}
		case len(c.rd.buf) > 0:
			n = copy(p, c.rd.buf)
			c.rd.buf = c.rd.buf[n:]
		default:
			n, err = 0, io.EOF
		}
	})
	return n, err
}

func (c *Conn) Write(p []byte) (n int, err error) {
	var k, gen int
	blocked := false
	vs.Atomically(func() {
		k = c.writes
		c.writes++
		gen = c.wrGen
		blocked = c.wr.cap > 0 && len(c.wr.buf) >= c.wr.cap
	})
	if c.FailWrite >= 0 && k == c.FailWrite {
		return 0, faultErr{"memconn: injected write error"}
	}
	if c.FailWriteIf != nil && c.FailWriteIf(p) {
		return 0, faultErr{"memconn: injected write error"}
	}
	// A write that does not have to wait is not "pending": like a real
	// connection it only fails if the deadline is in the past at the moment it
	// is performed. Only a write blocked on a full pipe is interrupted by a
	// deadline that passes (and is possibly cleared again) while it waits.
	if c.wr.cap > 0 {
		vs.Block("write "+c.name, func() bool {
			return len(c.wr.buf) < c.wr.cap || c.closed || c.wr.closed || passed(c.writeDeadline) || c.wrGen != gen
		})
	} else {
		vs.Yield("write " + c.name)
	}
	vs.Atomically(func() {
		switch {
		case c.closed || c.wr.closed:
			n, err = 0, io.ErrClosedPipe
		case passed(c.writeDeadline) || (blocked && c.wrGen != gen):
			n, err = 0, timeoutErr{}
		default:
			c.wr.buf = append(c.wr.buf, p...)
			c.Writes = append(c.Writes, WriteRec{Data: append([]byte(nil), p...)})
			n = len(p)
		}
	})
	if err == nil && c.OnWrite != nil {
		c.OnWrite(p)
	}
	return n, err
}

// Written returns all bytes written on this end.
func (c *Conn) Written() []byte {
	var b []byte
	for _, w := range c.Writes {
		b = append(b, w.Data...)
	}
	return b
}

// Pending returns the bytes written by the peer that were not read yet.
func (c *Conn) Pending() (n int) {
	if vs.Free {
		vs.Atomically(func() { n = len(c.rd.buf) })
		return n
	}
	return len(c.rd.buf)
}

// Close closes this end: the peer reads EOF after draining, local operations fail.
func (c *Conn) Close() error {
	vs.Atomically(func() {
		c.closed = true
		c.wr.closed = true
	})
	return nil
}

// CloseWrite half-closes: the peer reads EOF after draining.
func (c *Conn) CloseWrite() { vs.Atomically(func() { c.wr.closed = true }) }

type addr string

func (a addr) Network() string { return "mem" }
func (a addr) String() string  { return string(a) }

func (c *Conn) LocalAddr() net.Addr  { return addr(c.name) }
func (c *Conn) RemoteAddr() net.Addr { return addr("peer-of-" + c.name) }

func (c *Conn) SetDeadline(t time.Time) error {
	c.SetReadDeadline(t)
	return c.SetWriteDeadline(t)
}

func (c *Conn) SetReadDeadline(t time.Time) error {
	vs.Atomically(func() {
		c.readDeadline = t
		if passed(t) {
			c.rdGen++
		}
	})
	return nil
}

func (c *Conn) SetWriteDeadline(t time.Time) error {
	vs.Atomically(func() {
		c.writeDeadline = t
		if passed(t) {
			c.wrGen++
		}
	})
	return nil
}
