// Package vsess sets up real sessions on in-memory connections for harnesses
// that run under the controlled scheduler (package vs).
package vsess

import (
	"context"
	"encoding/xml"
	"strings"

	"mellium.im/xmpp"
	"mellium.im/xmpp/stanza"

	"verif/memconn"
	"verif/sess"
	"verif/vs"
)

// Env is a served session with a scripted peer end.
type Env struct {
	S    *xmpp.Session
	Lib  *memconn.Conn // the library's end
	Peer *memconn.Conn // the peer's end
	NS   string
	// Finish tells the peer loop that the application threads are done.
	Finish    bool
	ServeDone bool
	ServeErr  error
	seen      strings.Builder
}

// New creates a ready initiating session (own address sess.Origin) inside a
// controlled run; the peer's stream header is already in the pipe.
func New(ns string, capacity int) (*Env, error) {
	a, b := memconn.Pipe(capacity)
	if _, err := b.Write([]byte(sess.Header(ns))); err != nil {
		return nil, err
	}
	var st xmpp.SessionState
	if ns == stanza.NSServer {
		st = xmpp.S2S
	}
	s, err := xmpp.NewSession(context.Background(), sess.Location, sess.Origin, a, st, sess.ReadyNegotiator(ns, 0))
	if err != nil {
		return nil, err
	}
	return &Env{S: s, Lib: a, Peer: b, NS: ns}, nil
}

// Serve starts the serve loop as a managed thread.
func (e *Env) Serve(h xmpp.Handler) {
	vs.GoNamed("serve", false, func() {
		e.ServeErr = e.S.Serve(h)
		// published as one step (a hand-over that orders what Serve did before it)
		vs.Atomically(func() { e.ServeDone = true })
	})
}

// Wait blocks the calling thread until pred holds.
func Wait(label string, pred func() bool) { vs.Block(label, pred) }

// PeerRead waits until the library has written something new (or Finish is
// set) and returns everything the library has written so far.
func (e *Env) PeerRead() (all string, finish bool) {
	vs.Block("peer-wait", func() bool { return e.Peer.Pending() > 0 || e.Finish })
	if e.Peer.Pending() > 0 {
		buf := make([]byte, e.Peer.Pending())
		n, _ := e.Peer.Read(buf)
		e.seen.Write(buf[:n])
	}
	return e.seen.String(), e.Finish && e.Peer.Pending() == 0
}

// PeerWrite sends bytes to the library.
func (e *Env) PeerWrite(s string) { e.Peer.Write([]byte(s)) }

// TopLevel parses what the library wrote (after its own stream header, if any)
// into the list of complete top-level elements.
func TopLevel(ns, out string) []Element {
	d := xml.NewDecoder(strings.NewReader(sess.Header(ns) + out))
	d.Token()
	var els []Element
	depth := 0
	var cur *Element
	for {
		off := d.InputOffset()
		t, err := d.Token()
		if err != nil {
			return els
		}
		switch tt := t.(type) {
		case xml.StartElement:
			if depth == 0 {
				cur = &Element{Start: tt.Copy(), from: int(off)}
			}
			depth++
		case xml.EndElement:
			depth--
			if depth == 0 && cur != nil {
				cur.Raw = (sess.Header(ns) + out)[cur.from:d.InputOffset()]
				els = append(els, *cur)
				cur = nil
			}
			if depth < 0 {
				return els
			}
		}
	}
}

// Element is a complete top-level element of a stream.
type Element struct {
	Start xml.StartElement
	Raw   string
	from  int
}

// Attr returns an un-namespaced attribute.
func (e Element) Attr(name string) string {
	for _, a := range e.Start.Attr {
		if a.Name.Local == name && a.Name.Space == "" {
			return a.Value
		}
	}
	return ""
}
