// Package vsync replaces package sync in instrumented code: the blocking
// types are scheduling points of package vs, everything else is the real thing.
package vsync

import (
	"sync"

	"verif/vs"
)

type (
	Mutex     = vs.Mutex
	RWMutex   = vs.RWMutex
	Locker    = sync.Locker
	Once      = sync.Once
	Pool      = sync.Pool
	Map       = sync.Map
	WaitGroup = sync.WaitGroup
	Cond      = sync.Cond
)

func NewCond(l Locker) *Cond { return sync.NewCond(l) }
