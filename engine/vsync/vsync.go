// Package vsync replaces package sync in instrumented code: the blocking
// types are scheduling points of package vs, everything else is the real thing.
package vsync

import (
	"sync"

	"verif/vs"
)

type (
	Mutex     = vs.Mutex
	RWMutex   = vs.RWMutex
	Locker    = sync.Locker
	Once      = sync.Once
	Pool      = sync.Pool
	Map       = sync.Map
	WaitGroup = sync.WaitGroup
	Cond      = sync.Cond
)

func NewCond(l Locker) *Cond { return sync.NewCond(l) }

// The function-valued helpers of package sync do not block: the real ones.
func OnceFunc(f func()) func()                                 { return sync.OnceFunc(f) }
func OnceValue[T any](f func() T) func() T                     { return sync.OnceValue(f) }
func OnceValues[T1, T2 any](f func() (T1, T2)) func() (T1, T2) { return sync.OnceValues(f) }
