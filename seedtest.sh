#!/bin/bash
# usage: seedtest.sh <ID> <mN> [tier]   — verifies a seeded change from /tmp/seed/out/<ID>/<mN> (or /verif/seeded/<ID>-<mN>)
# and runs the property's check against it. Never commits anything in /repo.
set -u
. /verif/env.sh
id="$1"; m="$2"; tier="${3:-quick}"
src="/tmp/seed/out/$id/$m"; dst="/verif/seeded/$id-$m"
[ -d "$src" ] || src="/tmp/seed2/out/$id/$m"
[ -d "$src" ] || src="/tmp/seed3/out/$id/$m"
[ -d "$src" ] || src="/tmp/seed4/out/$id/$m"
[ -d "$src" ] || src="/tmp/seed5/out/$id/$m"
[ -d "$src" ] || src="/tmp/seed6/out/$id/$m"
[ -d "$src" ] || src="/tmp/seed7/out/$id/$m"
[ -d "$src" ] || src="/tmp/seed8/out/$id/$m"
[ -d "$src" ] || src="/tmp/seed9/out/$id/$m"
[ -d "$src" ] || src="$dst"
[ -f "$src/patch.diff" ] || { echo "no patch in $src"; exit 2; }
mkdir -p "$dst"; [ "$src" != "$dst" ] && [ ! -f "$dst/patch.diff" ] && cp "$src"/patch.diff "$src"/demo_test.go "$src"/meta.json "$dst"/ 2>/dev/null
wt="/tmp/seedv/$id-$m"; rm -rf "$wt"; mkdir -p /tmp/seedv
git -C /repo worktree add -q --detach "$wt" HEAD || exit 2
place=$(head -1 "$dst/demo_test.go" | sed -n 's#.*place at: *##p' | tr -d ' \r')
res_apply=ok; res_suite=skip; res_demo_with=skip; res_demo_without=skip
if ! git -C "$wt" apply "$dst/patch.diff" 2>/tmp/seedv/apply.err; then res_apply=FAILED; cat /tmp/seedv/apply.err; fi
if [ $res_apply = ok ]; then
  if [ "${SKIP_SUITE:-}" = 1 ]; then res_suite=skipped; else
  (cd "$wt" && go test -vet=off -count=1 ./... >/tmp/seedv/suite.log 2>&1) && res_suite=pass || res_suite=FAIL
  fi
  cp "$dst/demo_test.go" "$wt/$place"
  pkg="./$(dirname "$place")/"
  tests=$(grep -o '^func Test[A-Za-z0-9_]*' "$dst/demo_test.go" | sed 's/func //' | paste -sd'|')
  (cd "$wt" && go test -vet=off -count=1 -timeout 180s -run "^($tests)\$" "$pkg" >/tmp/seedv/demo_with.log 2>&1) && res_demo_with=pass || res_demo_with=fail
  git -C "$wt" checkout -q -- . 
  (cd "$wt" && go test -vet=off -count=1 -timeout 180s -run "^($tests)\$" "$pkg" >/tmp/seedv/demo_without.log 2>&1) && res_demo_without=pass || res_demo_without=fail
fi
git -C /repo worktree remove --force "$wt"
# run the check against the change in /repo itself
det="n/a"; lines=""
if [ $res_apply = ok ] && [ "${USE_WORKTREE:-}" = 1 ]; then
  # /repo is busy: run the check against a scratch worktree carrying the change,
  # with its own evidence directory (same build, same harness, same findings file)
  cid="${CHECK_ID:-$id}"
  wt2="/tmp/seedv/$id-$m-check"; rm -rf "$wt2"; git -C /repo worktree add -q --detach "$wt2" HEAD || exit 2
  git -C "$wt2" apply "$dst/patch.diff"
  vd="/tmp/seedv/vd-$id-$m"; rm -rf "$vd"; mkdir -p "$vd/evidence" "$vd/replays"; cp /verif/known_findings.json "$vd/"
  out=$(cd /verif && VERIF_REPO="$wt2" VERIF_DIR="$vd" ./check.sh "$cid" "$tier" 2>&1); rc=$?
  git -C /repo worktree remove --force "$wt2"; rm -rf "$vd"
  lines=$(echo "$out" | grep -A1 "^VIOLATION" | cut -c1-300 | head -8)
  det="exit=$rc"
  [ "$cid" != "$id" ] && tier="$tier@$cid"
  tier="$tier(worktree)"
elif [ $res_apply = ok ]; then
  if [ -n "$(git -C /repo status --porcelain --untracked-files=no)" ]; then echo "/repo is dirty, refusing"; exit 2; fi
  git -C /repo apply "$dst/patch.diff"
  cid="${CHECK_ID:-$id}"
  # the evidence file describes the unchanged tree: keep it out of the seeded run's way
  [ -f "/verif/evidence/$cid.json" ] && cp "/verif/evidence/$cid.json" "/tmp/seedv-evidence-$cid.json"
  out=$(cd /verif && ./check.sh "$cid" "$tier" 2>&1); rc=$?
  git -C /repo checkout -- .
  [ -f "/tmp/seedv-evidence-$cid.json" ] && mv "/tmp/seedv-evidence-$cid.json" "/verif/evidence/$cid.json"
  [ "$cid" != "$id" ] && tier="$tier@$cid"
  lines=$(echo "$out" | grep -A1 "^VIOLATION" | cut -c1-300 | head -8)
  det="exit=$rc"
fi
echo "$id $m: apply=$res_apply suite=$res_suite demo_with_change=$res_demo_with demo_without_change=$res_demo_without check($tier)=$det"
echo "$lines"
python3 - "$dst/meta.json" "$res_apply" "$res_suite" "$res_demo_with" "$res_demo_without" "$tier" "$det" "$lines" <<'PY'
import json,sys
p=sys.argv[1]
try: m=json.load(open(p))
except Exception: m={}
m["verified_by_us"]={"patch_applies":sys.argv[2],"existing_suite_with_change":sys.argv[3],"demo_with_change":sys.argv[4],"demo_without_change":sys.argv[5],
 "ran":"git worktree of /repo HEAD; go test -vet=off -count=1 ./... with the patch; demo test with and without the patch; then git -C /repo apply, ./check.sh, git -C /repo checkout -- ."}
m.setdefault("check_results",{})[sys.argv[6]]={"result":sys.argv[7],"violation_lines":sys.argv[8].split("\n")[:6]}
json.dump(m,open(p,"w"),indent=1)
PY
