#!/bin/bash
# usage: check.sh <property id> <quick|thorough>   |   check.sh <id> --replay <file>
# Rebuilds the harness against /repo's current working tree, runs the check,
# writes evidence/<ID>.json, exits 0 / 1 (VIOLATION) / 2 (engine problem).
set -u
here="$(cd "$(dirname "${BASH_SOURCE[0]}")" && pwd)"
. "$here/env.sh"
id="${1:?property id}"; mode="${2:-quick}"
[ -n "${VERIF_TIER:-}" ] && [ "$mode" != "--replay" ] && [ $# -lt 2 ] && mode="$VERIF_TIER"
scratch="$(mktemp -d /var/tmp/verif-XXXXXX)" || exit 2
trap 'rm -rf "$scratch"' EXIT
export VERIF_SCRATCH="$scratch"
VINSTR_PKGS="mellium.im/xmpp mellium.im/xmpp/ibb mellium.im/xmpp/muc mellium.im/xmpp/receipts mellium.im/xmpp/history mellium.im/xmpp/blocklist mellium.im/xmpp/disco mellium.im/xmpp/internal/stream"
cd "$here/engine" || exit 2
# The tree under test is /repo; VERIF_REPO points the same build at another
# checkout (used to try a change in a scratch worktree while /repo is busy).
repo="${VERIF_REPO:-/repo}"
modflag=()
if [ "$repo" = /repo ]; then
  cp /repo/go.sum go.sum 2>/dev/null
else
  sed "s#=> /repo#=> $repo#" go.mod > "$scratch/go.mod" && cp "$repo/go.sum" "$scratch/go.sum" || exit 2
  modflag=(-modfile "$scratch/go.mod")
fi
overlay=()
case "$(echo "$id" | tr A-Z a-z)" in
  c01|c02|c04|c05|c06|c09|c10|c15|c18)
    # these checks own the interleaving / map-order nondeterminism of the code
    # under test: its synchronisation operations are rewritten at check time
    # (nothing is committed to /repo) and compiled through an overlay
    if ! (cd vinstr && go build -o "$scratch/vinstr" . >"$scratch/build.log" 2>&1); then
      echo "BUILD FAILED (vinstr)"; cat "$scratch/build.log"; exit 2
    fi
    if ! "$scratch/vinstr" -dir "$repo" -out "$scratch/ov" $VINSTR_PKGS >"$scratch/vinstr.log" 2>&1; then
      echo "INSTRUMENTATION FAILED (construct the instrumenter does not support, or /repo does not type-check)"; cat "$scratch/vinstr.log"; exit 2
    fi
    overlay=(-overlay "$scratch/ov/overlay.json")
    ;;
esac
if ! go build "${modflag[@]}" "${overlay[@]}" -o "$scratch/vcheck" ./cmd/vcheck >"$scratch/build.log" 2>&1; then
  echo "BUILD FAILED (harness does not compile against /repo's working tree)"; cat "$scratch/build.log"; exit 2
fi
# free-running complement (parts with Race set): the same harness built with the race detector
if [ ${#overlay[@]} -gt 0 ] && [ "$mode" != "--replay" ] && "$scratch/vcheck" hasrace "$id" "$mode" >/dev/null 2>&1; then
  if ! go build -race -gcflags=all=-l "${modflag[@]}" "${overlay[@]}" -o "$scratch/vcheck-race" ./cmd/vcheck >"$scratch/build.log" 2>&1; then
    echo "BUILD FAILED (-race build of the harness)"; cat "$scratch/build.log"; exit 2
  fi
  export VERIF_RACE_EXE="$scratch/vcheck-race"
fi
cd "$here"
if [ "$mode" = "--replay" ]; then
  "$scratch/vcheck" replay "${3:?replay file}"; exit $?
fi
"$scratch/vcheck" check "$id" "$mode"
