#!/bin/bash
# usage: check.sh <property id> <quick|thorough>   |   check.sh <id> --replay <file>
# Rebuilds the harness against /repo's current working tree, runs the check,
# writes evidence/<ID>.json, exits 0 / 1 (VIOLATION) / 2 (engine problem).
set -u
here="$(cd "$(dirname "${BASH_SOURCE[0]}")" && pwd)"
. "$here/env.sh"
id="${1:?property id}"; mode="${2:-quick}"
[ -n "${VERIF_TIER:-}" ] && [ "$mode" != "--replay" ] && [ $# -lt 2 ] && mode="$VERIF_TIER"
scratch="$(mktemp -d /var/tmp/verif-XXXXXX)" || exit 2
trap 'rm -rf "$scratch"' EXIT
export VERIF_SCRATCH="$scratch"
cd "$here/engine" || exit 2
cp /repo/go.sum go.sum 2>/dev/null
if ! go build -o "$scratch/vcheck" ./cmd/vcheck >"$scratch/build.log" 2>&1; then
  echo "BUILD FAILED (harness does not compile against /repo's working tree)"; cat "$scratch/build.log"; exit 2
fi
cd "$here"
if [ "$mode" = "--replay" ]; then
  "$scratch/vcheck" replay "${3:?replay file}"; exit $?
fi
"$scratch/vcheck" check "$id" "$mode"
