#!/usr/bin/env python3
"""Regenerates MANIFEST.json from the table below (kept in one place so the manifest stays valid as checks are added)."""
import json, os
here = os.path.dirname(os.path.abspath(__file__))
props = [json.loads(l) for l in open(os.path.join(here, "properties.jsonl"))]
ids = [p["id"] for p in props]

# id -> (category, technique, text, note, design_ref)
claimed = {
 "C06": ("model_checking", "exhaustive interleaving exploration of the real session and handlers on a controlled scheduler (vs, iterative preemption bounding, select ties enumerated)",
         "Real Session on an in-memory net.Conn: serve loop + 1-2 concurrent requesters (SendIQ / SendMessage / SendPresence / receipts.SendMessageElement, each consuming none/one/all of its response) + canceller thread + the library's per-send deadline goroutines, against a reactive peer whose per-request plan is one of 8 (reply now / late / duplicate / wrong kind first / unknown id first / never / error / incoming request re-using the id), then a sentinel and the closing tag. All interleavings with <=2 preemptions (single requester; two requesters: 0 quick, 1 thorough). Oracle: own reply xor context error; a reply instance reaches at most one consumer; nothing the peer sent is lost except replies of cancelled requests; sentinel handled, Serve returns; no panic/deadlock.",
         "Trusted: the scheduler explores sequentially consistent interleavings at synchronisation operations and connection I/O of the rewritten source (go build -overlay at check time). MUC join/leave and IBB open/close/read waits are explored by the C18 and C15 scenarios on the same engine.", "6/C06"),
 "C04": ("fault_enumeration", "exhaustive fault-point enumeration over recorded handshakes (nd explorer) + exhaustive interleaving exploration of cancellation on a controlled scheduler (vs, preemption-bounded)",
         "10 handshakes (plain, SASL+bind, WebSocket, component, failing voluntary features, both roles, STARTTLS+SASL+bind over a real TLS peer): peer stream cut after every byte N (inside TLS records too), every read index failing, every write index failing or short; constructor must return a printable non-nil error, not ready, no panic; step errors never swallowed. Cancellation: 3 plaintext handshakes on an in-memory net.Conn with deadlines (unbounded and 48-byte pipes, so writes can block), canceller thread placed at every instant, library's deadline goroutine managed, all interleavings with <=2 (quick) / <=3 (thorough) preemptions; deadlock of the establishing call after cancellation = violation.",
         "Trusted: scripted peers send exactly the needed bytes; TLS byte layout reproducible (asserted); the controlled scheduler explores sequentially consistent interleavings at synchronisation operations and connection I/O (source rewritten at check time, nothing committed to /repo); crypto/tls is not instrumented, so cancellation is explored on the plaintext handshakes.", "6/C04"),
 "C02": ("model_checking", "exhaustive peer-script x client-configuration enumeration (nd explorer) with a real crypto/tls peer run in lock-step",
         "7 first features lists x 10 answers to the STARTTLS request (incl. pipelined fake plaintext features, plaintext after proceed, failure, garbage) x explicit/default TLS config x tee none/in/out/both x other features, plus histories of 2-3 sessions (own domain = or != the host the stream is opened to) sharing one StartTLS(nil) value. Oracle: only header + STARTTLS request precede the first TLS record; outcome is an error or a ready session with Secure bit, TLS connection state and completed handshake; pre-TLS plaintext is never acted upon; SNI = the session's own domain; tee changes neither cleartext bytes, outcome nor protected bytes (differential run).",
         "Trusted: crypto/tls as the TLS peer (in-process certificate); TLS records recognised by header bytes. With the default client config the handshake stops at certificate verification, after the server name has been observed.", "6/C02"),
 "C03": ("model_checking", "exhaustive peer-script enumeration (nd explorer) against a reference SCRAM server / logged permission callback",
         "Initiator: 6 client mechanism lists x 8 advertised lists x every peer script of <=3 (quick) / <=4 (thorough) steps over 14 answers, where 'correct' answers are computed by a reference RFC 5802 server from the client's actual messages; receiver: 2 mechanism lists x 3 callback behaviours x every client script over 19 messages. Only-if oracle: Authn => mechanism offered by both, completed per the reference, success signalled / callback asked and accepted.",
         "Trusted: the 60-line reference SCRAM server, crypto primitives. mellium.im/sasl v0.3.2 hangs on an empty/attribute-less SCRAM challenge at the first step (dependency defect, outside /repo): those executions are skipped and counted. Server-side SCRAM and -PLUS cannot complete in this code base and are not explored.", "6/C03"),
 "C01": ("model_checking", "exhaustive peer-script x configuration x map-order enumeration (nd explorer) with instrumented StreamFeature callbacks; invariants on every execution",
         "10 feature archetypes with logging List/Parse/Negotiate callbacks; every configuration of <=2 (quick) / <=3 (thorough) archetypes x initial state x c2s/s2s x TCP/WebSocket; initiator: every sequence of <=2 (3) advertisements with each feature absent/present/required(/twice) and the selection loop's map iteration order enumerated (the loop is rewritten at check time to ask the explorer); receiver: every sequence of <=3 (4) selections incl. unadvertised, unknown, repeated, informational, bare or IQ-wrapped. Invariants: prerequisites at call time, advertised on the current stream, at most once, voluntary before mandatory, monotone state, restart => fresh header, established => ready and nothing mandatory pending, receiver advertises exactly the eligible features and refuses invalid selections without running them; non-terminating negotiation is reported.",
         "Trusted: the invariant checker; reactive scripted peer; map order owned through the check-time source rewrite (go build -overlay), nothing else in the library is altered.", "6/C01"),
 "C12": ("model_checking", "exhaustive peer-script enumeration (nd explorer) with real library instances on both ends of a scripted in-memory connection",
         "Emitted headers for every (own address incl. quotes/&/<>, domain, language, c2s/s2s, TCP/WebSocket) are checked for well-formedness and parsed by a receiving library instance, whose answer is parsed by another initiating instance (same to/from/id/version/lang/xmlns); every incoming start element over names x prefix binding x xmlns x versions x id x address shapes on both roles and framings is accepted only under the stated conditions; every sequence of <=3 headers across restarts with same/different/absent addresses; resource binding: 4 addresses x 14 scripted server replies, 4 callbacks x 3 requested resources x 1-2 sessions sharing a feature value.",
         "Trusted: encoding/xml; the peer is a reactive script (no goroutine). A receiving s2s session built through the public constructors refuses every first header naming a peer, so the s2s header is only checked for well-formedness and for what the receiver recovers.", "6/C12"),
 "C07": ("model_checking", "exhaustive (incoming stanza x handler program x wiring) product through the real Session.Serve (nd explorer), wire output counted against a reference",
         "Full product of 3 stanza kinds x 7 types x id x 4 from x 2 to x 5 payload shapes x 2 namespaces x 15 handler programs x payload consumption x {bare handler, mux with handler, mux without} x {first stanza, after an earlier request} (504k executions): the bytes written during Serve are parsed and the top-level result/error IQs carrying the request id are counted against what the handler program wrote; exactly one reply (handler's or the automatic service-unavailable addressed to the sender) or a terminated stream.",
         "Trusted: encoding/xml for parsing the wire. Stream termination is judged by Serve's result because the session does not flush its stream errors (pinned by the repository's tests). Pending-request interference (an incoming request whose id equals an outstanding SendIQ) is a schedule question and belongs to C06.", "6/C07"),
 "C08": ("model_checking", "exhaustive (input sequence x handler consumption program) product through the real Session.Serve (nd explorer) against a reference splitter",
         "Every sequence of <=3 (quick) / <=4 (thorough) items over 25 top-level items (stanzas, non-stanza elements, keep-alives, text, comments, PIs, directives, stream errors, restarts, other stream elements, closing tag, malformed tags, and the stream-level constructs nested at depth 1 and 2) x 6 handler programs x 2 namespaces; the reference (each item tokenised on its own) fixes invocation count, start element incl. from blanking, the obtainable tokens and Serve's result class.",
         "Trusted: encoding/xml tokenisation (used by both sides, so only slicing/dispatch is compared). Raw EOF without closing tag may end Serve either way.", "6/C08"),
 "C19": ("exploration", "bounded-exhaustive value and XML-tree enumeration (nd explorer) over a registry of 50 payload types",
         "For 50 extension payload types: full cross product of field pools when small, else every value with <=3 (quick) / <=4 (thorough) fields off their default; data forms through New/Set/Submit with every field type; wrap/unwrap pairs; request payloads captured from the helper functions; every XML tree of <=4 (5) nodes over each decoder's own vocabulary decoded into fresh, reused and preallocated targets. Laws: both encoders well-formed, decode to the same value, equal to the original under a per-type normaliser; no panics.",
         "Trusted: encoding/xml (+ duplicate attribute check); per-type normalisers documented in props/c19/types.go; internal/saslerr cannot be imported and is not covered.", "6/C19"),
 "C13": ("exploration", "bounded-exhaustive value enumeration (nd explorer), two encoders x decoder round trip with encoding/xml as judge",
         "Full cross product of IQ/message/presence headers (3 namespaces, 6 ids, 4x4 addresses incl. resourceparts with quotes/&/<>, 3 langs, every defined type), stanza.Error values (types x conditions x by x 0-2 language texts, bare and through IQ.Error/UnmarshalIQError) and stream.Error values (conditions x texts x content x application payloads): xml.Marshal and TokenReader output are both well-formed, decode to the same value, equal the original; Wrap/Result/Error helper and StartElement/NewX inverse laws.",
         "Trusted: encoding/xml (plus a duplicate-attribute check). The stanza namespace is not carried by the xml.Marshal path of IQ/Message/Presence (inherited from the stream) and is compared on the token path only.", "6/C13"),
 "C14": ("model_checking", "exhaustive configuration x input enumeration (nd explorer) against an explicit reference model of the match cascade",
         "Every subset of a 10-pattern universe per stanza kind x every incoming stanza (3 types, child sequences up to length 2 quick / 3 thorough over matched/unmatched/text children) x 6 handler read programs x 2 reader behaviours, all top-level Handle subsets, and the registration laws, run through the real ServeMux.HandleXMPP; a reference cascade (8 lines) decides which handlers must run, in which order, what each can read, and the default replies.",
         "Trusted: the reference cascade; the mux is driven as the serve loop drives it (xmlstream.InnerElement over a decoder).", "6/C14"),
 "C11": ("exploration", "bounded-exhaustive input enumeration (nd explorer), canonical-form laws on every returned address",
         "Every string of <=5 (quick) / <=6 (thorough) symbols over a 28-symbol adversarial alphabet goes through SplitString/Parse/ParseUnsafe, and the full cross product of part pools (1023/1024-byte parts, IP literals, A-labels that expand, dots, fullwidth separators, invalid UTF-8) through New and WithLocal/WithDomain/WithResource; every address returned without error is checked for re-parse equality, part rules, accessor agreement and XML round trip. Complete enumeration, no sampling.",
         "Trusted: encoding/xml, the 12-line reference splitter. Unicode outside the alphabet/pools is not covered.", "6/C11"),
 "C17": ("exploration", "bounded-exhaustive input x chunking enumeration (nd explorer), differential against the single-read decoding",
         "Every string of <=5 (quick) / <=7 (thorough) symbols over an 11-symbol alphabet is decoded under every byte-level chunking (2^(n-1) cut sets), each with EOF reported separately and together with the last piece, plus fragment-assembled inputs and 4K/64K/128K lines; oracle: termination, no panic, losslessness, identical token/style/quote/info sequences, span bracketing laws.",
         "Trusted: bufio.Scanner. Quote nesting deeper than 4097 levels is skipped (quadratic time). Bytes outside the alphabet are not covered.", "6/C17"),
 "C20": ("exploration", "bounded-exhaustive value x permutation enumeration (nd explorer) against a literal XEP-0115 5.1 transcription",
         "Every ordered selection of <=3 (4) identities and features, every list of <=2 forms with every ordered selection of fields/values/FORM_TYPE placement, XML-decoded infos with empty/malformed forms in both orders, x 4 hash functions through Hash and AppendHash(nil); compared with a reference that is itself pinned by the XEP's two worked examples.",
         "Trusted: the reference transcription (anchored on XEP-0115 5.2/5.3 examples), crypto hashes. Forms without a unique FORM_TYPE are only required to be order-independent and panic-free.", "6/C20"),
 "C16": ("exploration", "bounded-exhaustive input enumeration (nd explorer) against a reference transform",
         "Every string over a 10-symbol adversarial alphabet up to length 5 (quick) / 6 (thorough), plus escapes planted around the 128/256/4096-byte buffer boundaries, is run through String, Bytes, Span, single-call Transform for every prefix x destination capacity, streaming under every 2/3-way split, and transform.Reader/Writer on the real jid package and compared with a 15-line reference; the space is enumerated completely, no sampling.",
         "Trusted: golang.org/x/text/transform driver helpers and the reference escape table (ten sequences of XEP-0106). Inputs outside the alphabet/length bound are not covered.", "6/C16"),
}
na = {}

checks = []
for i in ids:
    if i not in claimed: continue
    cat, tech, text, note, ref = claimed[i]
    checks.append({
        "property_id": i,
        "quick_cmd": f"./check.sh {i} quick",
        "thorough_cmd": f"./check.sh {i} thorough",
        "evidence_file": f"/verif/evidence/{i}.json",
        "replay_cmd_template": f"./check.sh {i} --replay {{path}}",
        "engine": "nd",
        "level_claimed": {"category": cat, "text": text, "design_ref": "DESIGN.md section " + ref},
        "level_note": note,
        "technique": tech,
    })
m = {
 "version": 1,
 "setup_cmd": "./setup.sh",
 "hooks": {
   "guard": "verif",
   "enable": "checks build /repo through the harness module (replace mellium.im/xmpp => /repo) with -tags verif; concurrency instrumentation is generated at check time as a go build -overlay, not committed to /repo",
   "baseline_off_cmd": "cd /repo && GOFLAGS=-mod=mod GOPROXY=off GOSUMDB=off GOTOOLCHAIN=local go test -vet=off -count=1 ./...",
   "source_commits": [],
   "add_only": True,
 },
 "engines": [
   {"name": "nd", "path": "/verif/engine/nd", "serves_properties": sorted(claimed), "kind_free_text": "stateless exhaustive explorer (depth-first re-execution over choice vectors, deviation-bounded), sharded over worker processes"},
   {"name": "vs", "path": "/verif/engine/vs", "serves_properties": [p for p in ["C04","C05","C06","C10","C15","C18"] if p in claimed], "kind_free_text": "controlled cooperative scheduler for real goroutines (one runs at a time; every lock, channel operation, select, connection read/write is a scheduling point chosen through nd; modelled enabledness; deadlock/horizon/panic outcomes), fed by cmd-line instrumenter engine/vinstr (go/packages + AST rewrite to a go build -overlay)"},
 ],
 "checks": checks,
 "not_applicable": [{"property_id": i, "reason": na.get(i, "check not built yet in this revision (planned, see DESIGN.md section 6); not claimed until its harness exists and has reported a seeded mutation")} for i in ids if i not in claimed],
 "notes": "All checks explore the real implementation in /repo's working tree; exit 0 held, 1 VIOLATION, 2 engine problem. known_findings.json lists repaired (fixed) and unrepaired (known) genuine defects.",
}
json.dump(m, open(os.path.join(here, "MANIFEST.json"), "w"), indent=1)
print("claimed:", len(checks), "not claimed:", len(m["not_applicable"]))
