# sourced by every script: offline Go environment
export GOFLAGS=-mod=mod GOPROXY=off GOSUMDB=off GOTOOLCHAIN=local
export VERIF_DIR="${VERIF_DIR:-$(cd "$(dirname "${BASH_SOURCE[0]}")" && pwd)}"
