#!/usr/bin/env python3
# regenerates the seeded-changes table in DESIGN.md (between the seedtable markers) from seeded/*/meta.json
import json, glob, os, re
rows = ["| seed | change (one line) | reported by | signature(s) | note |", "|---|---|---|---|---|"]
for d in sorted(glob.glob('/verif/seeded/*')):
    m = json.load(open(d + '/meta.json'))
    name = os.path.basename(d)
    summ = re.sub(r'\s+', ' ', m.get('summary', ''))
    summ = summ.split('. ')[0][:170].replace('|', '/')
    by, sigs = [], []
    for tier, v in sorted(m.get('check_results', {}).items()):
        if v.get('result') == 'exit=1':
            cid = tier.split('@')[1] if '@' in tier else name.split('-')[0]
            if cid not in by: by.append(cid)
            for x in v.get('violation_lines', []):
                if 'signature:' in x:
                    sg = x.split('signature:')[1].strip()
                    if sg not in sigs: sigs.append(sg)
    rows.append("| %s | %s | %s | %s | %s |" % (name, summ, ', '.join(by) or '**not reported**', '; '.join('`%s`' % s for s in sigs[:3]), m.get('detection_note', m.get('note', ''))[:260].replace('|', '/')))
p = '/verif/DESIGN.md'; s = open(p).read()
b, e = '<!-- seedtable:begin -->', '<!-- seedtable:end -->'
tab = b + '\n' + '\n'.join(rows) + '\n' + e
if b in s: s = s[:s.index(b)] + tab + s[s.index(e) + len(e):]
else: s = s.replace('SEEDTABLE', tab, 1)
open(p, 'w').write(s)
print(len(rows) - 2, 'seeds')
