#!/bin/bash
# Offline setup: warm the Go build cache for the harness (and the library under test).
set -e
here="$(cd "$(dirname "${BASH_SOURCE[0]}")" && pwd)"
. "$here/env.sh"
cd "$here/engine"
cp /repo/go.sum go.sum
tmp="$(mktemp -d /var/tmp/verif-setup-XXXXXX)"
trap 'rm -rf "$tmp"' EXIT
go build -o "$tmp/vcheck" ./cmd/vcheck
"$tmp/vcheck" list
