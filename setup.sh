#!/bin/bash
# Offline setup: warm the Go build cache for the harness (and the library under test).
set -e
here="$(cd "$(dirname "${BASH_SOURCE[0]}")" && pwd)"
. "$here/env.sh"
cd "$here/engine"
cp /repo/go.sum go.sum
tmp="$(mktemp -d /var/tmp/verif-setup-XXXXXX)"
trap 'rm -rf "$tmp"' EXIT
go build -o "$tmp/vcheck" ./cmd/vcheck
(cd vinstr && go build -o "$tmp/vinstr" .)
"$tmp/vinstr" -dir /repo -out "$tmp/ov" mellium.im/xmpp mellium.im/xmpp/ibb mellium.im/xmpp/muc mellium.im/xmpp/receipts mellium.im/xmpp/history mellium.im/xmpp/blocklist mellium.im/xmpp/disco mellium.im/xmpp/internal/stream
go build -overlay "$tmp/ov/overlay.json" -o "$tmp/vcheck-vs" ./cmd/vcheck
# the free-running complement of the scheduler-based checks is a -race build of the same harness
go build -race -gcflags=all=-l -overlay "$tmp/ov/overlay.json" -o "$tmp/vcheck-race" ./cmd/vcheck
"$tmp/vcheck" list
