#!/bin/bash
# usage: rebase_seed.sh <ID-mN>: re-creates seeded/<ID-mN>/patch.diff on the current /repo HEAD with patch -F3
s="$1"; wt=/tmp/rebase-$$
git -C /repo worktree add -q --detach $wt HEAD || exit 2
cd $wt
if git apply --check /verif/seeded/$s/patch.diff 2>/dev/null; then echo "$s applies as is"; rc=0
elif patch -p1 -F3 --no-backup-if-mismatch < /verif/seeded/$s/patch.diff >/tmp/rebase.out 2>&1; then
  find . -name '*.orig' -delete; git diff > /verif/seeded/$s/patch.diff; echo "$s rebased"; rc=0
  python3 - "$s" <<'PY'
import json,sys
p=f'/verif/seeded/{sys.argv[1]}/meta.json'; m=json.load(open(p)); m['rebased']='patch.diff re-created with patch -F3 on the repaired tree (later fix: commits moved the context lines); the change itself is identical'; json.dump(m,open(p,'w'),indent=1)
PY
else echo "$s DOES NOT REBASE"; cat /tmp/rebase.out | tail -5; rc=1; fi
cd /; git -C /repo worktree remove --force $wt
exit $rc
